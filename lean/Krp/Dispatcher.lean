/-
  Dispatcher.lean — contracts/basset_sei_rewards_dispatcher.
-/
import Krp.Types
namespace Krp

structure DispSt where
  owner : Addr
  newOwner : Addr
  hub : Addr
  rewardContract : Addr
  stDenom : Denom
  bDenom : Denom
  keeper : Addr
  keeperRate : Nat            -- atomics
  swapContract : Addr
  swapDenoms : List Denom
  oracle : Addr
  deriving Inhabited

/-- `get_swap_info`: (offer denom is the stSei reward coin?, offer amount).
    `r` = oracle price stSei-coin → bSei-coin (atomics), `rinv` = its `Decimal::inv`.
    `none` = panic (`multiply_ratio` by a zero denominator). -/
def getSwapInfo (stBonded bBonded stAvail bAvail r rinv : Nat) : Option (Bool × Nat) :=
  if stBonded + bBonded = 0 then none
  else
    let total := stAvail + mulDec bAvail rinv
    let share := mulRatio total stBonded (stBonded + bBonded)
    if stAvail > share then some (true, stAvail - share)
    else some (false, mulDec (share - stAvail) r)

/-- keeper cut and remainder of one coin balance -/
def keeperCut (bal rate : Nat) : Nat := mulDec bal rate

/-- bSei-reward coin: keeper cut, then the remainder to the reward contract
    (`amount - keeper` fails only for a keeper rate above one) -/
def coinMsgsB (c : DispSt) (self : Addr) (bBal : Nat) : Res (List Msg) :=
  if bBal = 0 then .ok []
  else if bBal < keeperCut bBal c.keeperRate then .error "overflow"
  else .ok [Msg.bankSend self c.keeper c.bDenom (keeperCut bBal c.keeperRate),
            Msg.bankSend self c.rewardContract c.bDenom (bBal - keeperCut bBal c.keeperRate)]

/-- stSei-reward coin: keeper cut, then the remainder re-bonded through the hub (skipped when zero) -/
def coinMsgsSt (c : DispSt) (self : Addr) (stBal : Nat) : Res (List Msg) :=
  if stBal = 0 then .ok []
  else if stBal < keeperCut stBal c.keeperRate then .error "overflow"
  else if stBal - keeperCut stBal c.keeperRate = 0 then
    .ok [Msg.bankSend self c.keeper c.stDenom (keeperCut stBal c.keeperRate)]
  else
    .ok [Msg.bankSend self c.keeper c.stDenom (keeperCut stBal c.keeperRate),
         Msg.wasm self c.hub (.hub .bondRewards) [(c.stDenom, stBal - keeperCut stBal c.keeperRate)]]

/-- messages of `execute_dispatch_rewards` for the two balances -/
def dispatchMsgs (c : DispSt) (self : Addr) (stBal bBal : Nat) : Res (List Msg) :=
  match coinMsgsB c self bBal with
  | .error e => .error e
  | .ok m1 =>
    match coinMsgsSt c self stBal with
    | .error e => .error e
    | .ok m2 => .ok (m1 ++ m2 ++ [Msg.wasm self c.rewardContract (.reward .updateGlobalIndex) []])

/-- environment the dispatcher reads: its own bank balances, the oracle and swap-simulation
    answers (`none` = query failed / undecodable). -/
structure DispEnv where
  bal : Denom → Nat
  oraclePrice : Option Nat                      -- price of stDenom in bDenom
  simulate : Denom → Nat → Denom → Option Nat   -- swap simulation

def dispExec (c : DispSt) (self : Addr) (env : DispEnv) (sender : Addr) (m : DispMsg) :
    Res (DispSt × List Msg) :=
  match m with
  | .swap bBonded stBonded => do
    if sender ≠ c.hub then throw "unauthorized"
    -- convert_to_target_denoms over the balances (ascending by denom, non-zero only)
    let step (acc : Res (Nat × Nat × List Msg)) (dn : Denom) : Res (Nat × Nat × List Msg) := do
      let (st, b, ms) ← acc
      let amt := env.bal dn
      if amt = 0 then pure (st, b, ms)                    -- not listed by the bank query
      else if !c.swapDenoms.contains dn then pure (st, b, ms)
      else if dn = c.stDenom then pure (st + amt, b, ms)
      else if dn = c.bDenom then pure (st, b + amt, ms)
      else
        match env.simulate dn amt c.bDenom with
        | none => throw "simulation failed"
        | some ret =>
          pure (st, b + ret, ms ++ [Msg.wasm self c.swapContract (.swapDenom dn amt c.bDenom none) [(dn, amt)]])
    let (stAvail, bAvail, msgs) ← ([0, 1, 2] : List Denom).foldl step (pure (0, 0, []))
    let r ← match env.oraclePrice with
      | none => throw "oracle failed"
      | some r => pure r
    let rinv ← match decInv r with
      | none => throw "failed to convert exchange rate"
      | some x => pure x
    match getSwapInfo stBonded bBonded stAvail bAvail r rinv with
    | none => throw "division by zero"
    | some (sellSt, amt) =>
      if amt = 0 then pure (c, msgs)
      else if sellSt then
        pure (c, msgs ++ [Msg.wasm self c.swapContract (.swapDenom c.stDenom amt c.bDenom none) [(c.stDenom, amt)]])
      else
        pure (c, msgs ++ [Msg.wasm self c.swapContract (.swapDenom c.bDenom amt c.stDenom none) [(c.bDenom, amt)]])
  | .dispatch => do
    if sender ≠ c.hub then throw "unauthorized"
    let ms ← dispatchMsgs c self (env.bal c.stDenom) (env.bal c.bDenom)
    pure (c, ms)
  | .updateConfig hub reward stDenom bDenom keeper rate => do
    if sender ≠ c.owner then throw "unauthorized"
    if stDenom.isSome then throw "updating stSei reward denom is forbidden"
    match rate with
    | some r => if r > D then throw "keeper rate can not be greater than 1." else pure ()
    | none => pure ()
    pure ({ c with hub := hub.getD c.hub, rewardContract := reward.getD c.rewardContract,
                   bDenom := bDenom.getD c.bDenom, keeper := keeper.getD c.keeper,
                   keeperRate := rate.getD c.keeperRate }, [])
  | .setOwner a =>
    if sender ≠ c.owner then throw "unauthorized" else pure ({ c with newOwner := a }, [])
  | .acceptOwnership =>
    if sender ≠ c.newOwner then throw "unauthorized" else pure ({ c with owner := c.newOwner }, [])
  | .updateSwapContract a =>
    if sender ≠ c.owner then throw "unauthorized" else pure ({ c with swapContract := a }, [])
  | .updateSwapDenom d add =>
    if sender ≠ c.owner then throw "unauthorized"
    else if add then pure ({ c with swapDenoms := c.swapDenoms ++ [d] }, [])
    else pure ({ c with swapDenoms := c.swapDenoms.filter (· ≠ d) }, [])
  | .updateOracle a =>
    if sender ≠ c.owner then throw "unauthorized" else pure ({ c with oracle := a }, [])

end Krp
