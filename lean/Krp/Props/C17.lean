/-
  C17 — Dispatcher splits rewards by bonded stake, takes a bounded fee, keeps nothing.
-/
import Krp.Dispatcher
import Krp.Init
import Krp.Lemmas.Arith
import Krp.Lemmas.Tactics
namespace Krp

/-- The swap the dispatcher requests never offers more of a coin than it holds, on either branch,
    for every balance, bonded amount and oracle price (`rinv` = `Decimal::inv` of the price). -/
theorem C17_offer_le_available (stBonded bBonded stAvail bAvail r : Nat) (sellSt : Bool) (amt : Nat)
    (hx : getSwapInfo stBonded bBonded stAvail bAvail r (D * D / r) = some (sellSt, amt)) :
    (sellSt = true → amt ≤ stAvail) ∧ (sellSt = false → amt ≤ bAvail) := by
  unfold getSwapInfo at hx
  split at hx
  · cases hx
  · simp only [] at hx
    split at hx
    · injection hx with hx; injection hx with h1 h2; subst h1; subst h2
      exact ⟨fun _ => Nat.sub_le _ _, fun hf => absurd hf (by decide)⟩
    · injection hx with hx; injection hx with h1 h2; subst h1; subst h2
      refine ⟨fun hf => absurd hf (by decide), fun _ => ?_⟩
      apply buy_le_available
      have := mulRatio_le (stAvail + mulDec bAvail (D * D / r)) stBonded bBonded
      omega

/-- The stSei-side share is `total × stSei bonded / total bonded` (rounded down, totals valued at
    the oracle price): when stSei-reward coins are sold the side is left with exactly the share;
    when they are bought, what is bought (valued back at the inverse price) never overshoots it. -/
theorem C17_share (stBonded bBonded stAvail bAvail r : Nat) (sellSt : Bool) (amt : Nat)
    (hx : getSwapInfo stBonded bBonded stAvail bAvail r (D * D / r) = some (sellSt, amt)) :
    let share := mulRatio (stAvail + mulDec bAvail (D * D / r)) stBonded (stBonded + bBonded)
    (sellSt = true → stAvail - amt = share) ∧
    (sellSt = false → stAvail + mulDec amt (D * D / r) ≤ share) := by
  intro share
  unfold getSwapInfo at hx
  split at hx
  · cases hx
  · simp only [] at hx
    split at hx
    · rename_i hgt
      injection hx with hx; injection hx with h1 h2; subst h1; subst h2
      exact ⟨fun _ => by show stAvail - (stAvail - share) = share; omega, fun hf => absurd hf (by decide)⟩
    · rename_i hle
      injection hx with hx; injection hx with h1 h2; subst h1; subst h2
      refine ⟨fun hf => absurd hf (by decide), fun _ => ?_⟩
      have := buy_back_le (share - stAvail) r
      show stAvail + mulDec (mulDec (share - stAvail) r) (D * D / r) ≤ share
      omega

/-- coins of one denom leaving the dispatcher in a message list (bank sends + funds of executes) -/
def sentOf (self : Addr) (d : Denom) : List Msg → Nat
  | [] => 0
  | Msg.bankSend s _ dn a :: ms => (if s = self ∧ dn = d then a else 0) + sentOf self d ms
  | Msg.wasm s _ _ fs :: ms =>
      (if s = self then ((fs.filter (fun f => f.1 = d)).map (·.2)).sum else 0) + sentOf self d ms
  | _ :: ms => sentOf self d ms

/-- DispatchRewards, for every balance and every keeper rate in [0,1]: it never fails on its own
    arithmetic, the keeper is sent exactly ⌊balance × rate⌋ of each coin first, and the sum of
    everything sent equals the balance held — nothing is kept. -/
theorem C17_dispatch_conserves (c : DispSt) (self : Addr) (stBal bBal : Nat)
    (hrate : c.keeperRate ≤ D) (hden : c.stDenom ≠ c.bDenom) :
    ∃ ms, dispatchMsgs c self stBal bBal = .ok ms ∧
      sentOf self c.bDenom ms = bBal ∧ sentOf self c.stDenom ms = stBal ∧
      (bBal ≠ 0 → Msg.bankSend self c.keeper c.bDenom (mulDec bBal c.keeperRate) ∈ ms) ∧
      (stBal ≠ 0 → Msg.bankSend self c.keeper c.stDenom (mulDec stBal c.keeperRate) ∈ ms) ∧
      Msg.wasm self c.rewardContract (.reward .updateGlobalIndex) [] ∈ ms := by
  have hk : ∀ b, mulDec b c.keeperRate ≤ b := by
    intro b; unfold mulDec
    exact Nat.div_le_of_le_mul (by rw [Nat.mul_comm D]; exact Nat.mul_le_mul_left _ hrate)
  have hb := hk bBal
  have hs := hk stBal
  have hden' : c.bDenom ≠ c.stDenom := fun e => hden e.symm
  have e1 : coinMsgsB c self bBal = .ok (if bBal = 0 then [] else
      [Msg.bankSend self c.keeper c.bDenom (mulDec bBal c.keeperRate),
       Msg.bankSend self c.rewardContract c.bDenom (bBal - mulDec bBal c.keeperRate)]) := by
    unfold coinMsgsB keeperCut
    split
    · rfl
    · rw [if_neg (Nat.not_lt.mpr hb)]
  have e2 : coinMsgsSt c self stBal = .ok (if stBal = 0 then [] else
      if stBal - mulDec stBal c.keeperRate = 0 then
        [Msg.bankSend self c.keeper c.stDenom (mulDec stBal c.keeperRate)]
      else [Msg.bankSend self c.keeper c.stDenom (mulDec stBal c.keeperRate),
            Msg.wasm self c.hub (.hub .bondRewards) [(c.stDenom, stBal - mulDec stBal c.keeperRate)]]) := by
    unfold coinMsgsSt keeperCut
    split
    · rfl
    · rw [if_neg (Nat.not_lt.mpr hs)]
      split <;> rfl
  unfold dispatchMsgs
  rw [e1, e2]
  refine ⟨_, rfl, ?_⟩
  by_cases h1 : bBal = 0 <;> by_cases h2 : stBal = 0 <;>
    by_cases h3 : stBal - mulDec stBal c.keeperRate = 0 <;>
    simp [sentOf, h1, h2, h3, hden, hden'] <;> omega

private theorem coinB_nozero (c : DispSt) (self : Addr) (bBal : Nat) (m : List Msg)
    (hx : coinMsgsB c self bBal = .ok m)
    (hb : bBal = 0 ∨ (0 < mulDec bBal c.keeperRate ∧ mulDec bBal c.keeperRate < bBal)) :
    ∀ s d dn, Msg.bankSend s d dn 0 ∉ m := by
  intro s d dn hmem
  unfold coinMsgsB keeperCut at hx
  exc_split at hx
  · simp at hmem
  · simp at hmem; omega

private theorem coinSt_nozero (c : DispSt) (self : Addr) (stBal : Nat) (m : List Msg)
    (hx : coinMsgsSt c self stBal = .ok m)
    (hs : stBal = 0 ∨ 0 < mulDec stBal c.keeperRate) :
    ∀ s d dn, Msg.bankSend s d dn 0 ∉ m := by
  intro s d dn hmem
  unfold coinMsgsSt keeperCut at hx
  exc_split at hx
  · simp at hmem
  · simp at hmem; omega
  · simp at hmem; omega

/-- No zero transfer — partial: when every non-zero balance has a positive keeper cut and a positive
    remainder, no message carries a zero amount. (Full statement fails: D3, below.) -/
theorem C17_no_zero_transfer_partial (c : DispSt) (self : Addr) (stBal bBal : Nat) (ms : List Msg)
    (hx : dispatchMsgs c self stBal bBal = .ok ms)
    (hb : bBal = 0 ∨ (0 < mulDec bBal c.keeperRate ∧ mulDec bBal c.keeperRate < bBal))
    (hs : stBal = 0 ∨ 0 < mulDec stBal c.keeperRate) :
    ∀ s d dn, Msg.bankSend s d dn 0 ∉ ms := by
  intro s d dn hmem
  unfold dispatchMsgs at hx
  split at hx
  · cases hx
  · rename_i m1 h1
    split at hx
    · cases hx
    · rename_i m2 h2
      injection hx with hx; subst hx
      simp only [List.mem_append, List.mem_singleton] at hmem
      rcases hmem with (hm | hm) | hm
      · exact coinB_nozero c self bBal m1 h1 hb s d dn hm
      · exact coinSt_nozero c self stBal m2 h2 hs s d dn hm
      · cases hm

/-- D3: with keeper rate 0 (allowed: the range check is rate ≤ 1) a balance of 5 produces a bank
    send of 0 coins to the keeper, which the bank rejects — dispatch, and with it the whole index
    update, fails. Same with a dust balance (⌊1 × 0.05⌋ = 0) and with rate 1 (remainder 0). -/
theorem C17_zero_transfer_counterexample :
    (∀ c : DispSt, c.keeperRate = 0 → c.bDenom = 1 → c.stDenom = 0 →
      ∃ ms, dispatchMsgs c 104 0 5 = .ok ms ∧ Msg.bankSend 104 c.keeper 1 0 ∈ ms) ∧
    mulDec 1 (D / 20) = 0 ∧ 5 - mulDec 5 D = 0 := by
  refine ⟨fun c h1 h2 h3 => ?_, by decide, by decide⟩
  simp [dispatchMsgs, coinMsgsB, coinMsgsSt, h1, h2, h3, keeperCut, mulDec]

/-- The keeper rate can never be configured above 1: not at instantiate, not by any update. -/
theorem C17_keeper_rate_le_one :
    (∀ sender hub reward sd bd keeper rate swap oracle ds c,
      dispInit sender hub reward sd bd keeper rate swap oracle ds = .ok c → c.keeperRate ≤ D) ∧
    (∀ (c c' : DispSt) self env sender m ms, c.keeperRate ≤ D →
      dispExec c self env sender m = .ok (c', ms) → c'.keeperRate ≤ D) := by
  constructor
  · intro sender hub reward sd bd keeper rate swap oracle ds c hx
    unfold dispInit at hx
    split at hx
    · cases hx
    · injection hx with hx; subst hx; simp only []; omega
  · intro c c' self env sender m ms hle hx
    cases m with
    | updateConfig hub reward sd bd k rate =>
      simp only [dispExec] at hx; exc_norm at hx; exc_split at hx
      all_goals simp_all
      all_goals omega
    | swap a b =>
      have : c'.keeperRate = c.keeperRate := by
        simp only [dispExec] at hx
        exc_norm at hx
        repeat' (split at hx <;> try (first | cases hx | contradiction))
        all_goals rfl
      rw [this]; exact hle
    | dispatch => simp only [dispExec] at hx; exc_norm at hx; exc_split at hx; exact hle
    | setOwner a => simp only [dispExec] at hx; exc_norm at hx; exc_split at hx; exact hle
    | acceptOwnership => simp only [dispExec] at hx; exc_norm at hx; exc_split at hx; exact hle
    | updateSwapContract a => simp only [dispExec] at hx; exc_norm at hx; exc_split at hx; exact hle
    | updateSwapDenom d add => simp only [dispExec] at hx; exc_norm at hx; exc_split at hx <;> exact hle
    | updateOracle a => simp only [dispExec] at hx; exc_norm at hx; exc_split at hx; exact hle

/-- The swap list holds the denominations the owner named, as named: an accepted UpdateSwapDenom
    with `is_add` puts exactly that denomination on the list (every other entry stays), one without
    takes exactly that denomination off (every other entry stays); nothing else of the
    configuration moves. `convert_to_target_denoms` matches the list verbatim against the coins
    the dispatcher holds, so this is what makes a coin of a listed denomination a reward coin. -/
theorem C17_swap_list_update (c c' : DispSt) (self : Addr) (env : DispEnv) (sender : Addr) (d : Denom) (add : Bool)
    (ms : List Msg) (hx : dispExec c self env sender (.updateSwapDenom d add) = .ok (c', ms)) :
    (add = true → c'.swapDenoms.contains d = true) ∧
    (add = false → c'.swapDenoms.contains d = false) ∧
    (∀ x, x ≠ d → c'.swapDenoms.contains x = c.swapDenoms.contains x) ∧
    c'.hub = c.hub ∧ c'.rewardContract = c.rewardContract ∧ c'.stDenom = c.stDenom ∧ c'.bDenom = c.bDenom ∧
    c'.keeper = c.keeper ∧ c'.keeperRate = c.keeperRate ∧ c'.owner = c.owner ∧ ms = [] := by
  simp only [dispExec] at hx
  split at hx
  · cases hx
  · split at hx
    · rename_i ha
      injection hx with h1; injection h1 with h1 h2; subst h1; subst h2
      refine ⟨fun _ => ?_, fun hf => ?_, fun x hne => ?_, rfl, rfl, rfl, rfl, rfl, rfl, rfl, rfl⟩
      · simp [List.contains_eq_mem]
      · rw [ha] at hf; cases hf
      · simp only [List.contains_eq_mem, List.mem_append, List.mem_singleton, hne, or_false]
    · rename_i ha
      injection hx with h1; injection h1 with h1 h2; subst h1; subst h2
      refine ⟨fun ht => ?_, fun _ => ?_, fun x hne => ?_, rfl, rfl, rfl, rfl, rfl, rfl, rfl, rfl⟩
      · exact absurd ht ha
      · simp [List.contains_eq_mem, List.mem_filter]
      · simp [List.contains_eq_mem, List.mem_filter, hne]

/-! Non-vacuity: the third denomination taken off and put back on the genesis list. -/
example : ∃ c1 c2 : DispSt, ∃ e : DispEnv,
    dispExec { (default : DispSt) with owner := 1, swapDenoms := [0, 1, 2] } 104 e 1 (.updateSwapDenom 2 false) = .ok (c1, []) ∧
    dispExec c1 104 e 1 (.updateSwapDenom 2 true) = .ok (c2, []) ∧ c1.swapDenoms = [0, 1] ∧ c2.swapDenoms = [0, 1, 2] :=
  ⟨_, _, ⟨fun _ => 0, none, fun _ _ _ => none⟩, rfl, rfl, rfl, rfl⟩

end Krp
