/-
  C06 — Slashing is recognised exactly and shared pro-rata between the two pools.
  `Δ` = the hub's surviving delegated amount as the staking module reports it.
-/
import Krp.Lemmas.HubSpec
import Krp.Lemmas.Arith
import Krp.Lemmas.Reach
namespace Krp
open HubSt

/-- The slashing check (CheckSlashing, or the one inside bond/unbond/convert): when the books
    exceed the delegations they are set to exactly the surviving amount; the bSei pool gets its
    pro-rata share within two base units (never more than the exact share), the stSei pool the
    rest. -/
theorem C06_recognised_exactly (h st : HubSt) (e : HubEnv) (hx : h.actualState e = .ok st)
    (hd : e.delegations ≠ []) (hlt : (e.delegations.map (·.2)).sum < h.bBond + h.sBond)
    (hE1 : (e.delegations.map (·.2)).sum ≤ D) :
    st.bBond + st.sBond = (e.delegations.map (·.2)).sum ∧
    st.bBond * (h.bBond + h.sBond) ≤ (e.delegations.map (·.2)).sum * h.bBond ∧
    (e.delegations.map (·.2)).sum * h.bBond < (st.bBond + 2) * (h.bBond + h.sBond) ∧
    (e.delegations.map (·.2)).sum * h.sBond ≤ st.sBond * (h.bBond + h.sBond) ∧
    st.sBond * (h.bBond + h.sBond) < (e.delegations.map (·.2)).sum * h.sBond + 2 * (h.bBond + h.sBond) := by
  have hs := actualState_spec h st e hx
  rcases hs.2 with ⟨hc, _⟩ | ⟨bs, ss, _, hz, _, _, _, _, hcase⟩
  · rcases hc with hc | hc
    · exact absurd hc hd
    · omega
  · rcases hcase with ⟨hle, _, _⟩ | ⟨_, hb, hsum⟩
    · omega
    · have hT : 0 < h.bBond + h.sBond := by omega
      have l := split_lower (e.delegations.map (·.2)).sum h.bBond (h.bBond + h.sBond)
      have u := split_upper (e.delegations.map (·.2)).sum h.bBond (h.bBond + h.sBond) hT hE1
      rw [← hb] at l u
      refine ⟨hsum, l, u, ?_, ?_⟩
      · -- Δ·Bs = Δ·T − Δ·Bb ≤ Δ·T − b'·T = s'·T
        have : (e.delegations.map (·.2)).sum * (h.bBond + h.sBond) = (st.bBond + st.sBond) * (h.bBond + h.sBond) := by rw [hsum]
        nlinarith
      · have : (e.delegations.map (·.2)).sum * (h.bBond + h.sBond) = (st.bBond + st.sBond) * (h.bBond + h.sBond) := by rw [hsum]
        nlinarith

/-- When the delegated amount is not below the books nothing changes: a check can never raise a
    pool (and an unchanged pool keeps every claim untouched). -/
theorem C06_no_slash_no_change (h st : HubSt) (e : HubEnv) (hx : h.actualState e = .ok st)
    (hge : h.bBond + h.sBond ≤ (e.delegations.map (·.2)).sum) :
    st.bBond = h.bBond ∧ st.sBond = h.sBond ∧ SameBooks h st := by
  have hs := actualState_spec h st e hx
  rcases hs.2 with ⟨_, he⟩ | ⟨bs, ss, _, _, _, _, _, _, hcase⟩
  · subst he; exact ⟨rfl, rfl, hs.1⟩
  · rcases hcase with ⟨_, hb, hsb⟩ | ⟨hlt, _, _⟩
    · exact ⟨hb, hsb, hs.1⟩
    · omega

/-- A check never raises either pool, slash or no slash. -/
theorem C06_never_raises (h st : HubSt) (e : HubEnv) (hx : h.actualState e = .ok st) :
    st.bBond ≤ h.bBond ∧ st.bBond + st.sBond ≤ h.bBond + h.sBond := by
  have hs := actualState_spec h st e hx
  rcases hs.2 with ⟨_, he⟩ | ⟨bs, ss, _, hz, _, _, _, _, hcase⟩
  · subst he; exact ⟨Nat.le_refl _, Nat.le_refl _⟩
  · rcases hcase with ⟨_, hb, hsb⟩ | ⟨hlt, hb, hsum⟩
    · omega
    · refine ⟨?_, by omega⟩
      have hT : 0 < h.bBond + h.sBond := by omega
      have l := split_lower (e.delegations.map (·.2)).sum h.bBond (h.bBond + h.sBond)
      rw [← hb] at l
      have : st.bBond * (h.bBond + h.sBond) ≤ h.bBond * (h.bBond + h.sBond) := by nlinarith
      exact Nat.le_of_mul_le_mul_right this hT

/-- Stake slashed while unbonding: the loss charged to one batch side is its pro-rata share of the
    side's total loss, within two base units (weight floored to 18 places, +1 against the
    claimant). `U` = the batch side's undelegated amount, `Tot` = the release group's total for
    that token, `sl` = the group's loss on that token. -/
theorem C06_release_group_pro_rata (U Tot sl : Nat) (hT : 0 < Tot) (hsl : sl ≤ D) (hne : sl ≠ 0) :
    let charged := mulDec sl (fromRatio U Tot) + 1
    (charged - 1) * Tot ≤ sl * U ∧ sl * U < (charged + 1) * Tot := by
  intro charged
  have l := split_lower sl U Tot
  have u := split_upper sl U Tot hT hsl
  exact ⟨by simpa [charged] using l, by simpa [charged] using u⟩

/-! Non-vacuity: 1000 bSei + 500 stSei booked, 10 % slashed. -/
example : mulDec 1350 (fromRatio 1000 1500) = 899 ∧ 1350 - 899 = 451 := by decide


/-- **CheckSlashing as a whole transaction, after a slash, in the composed system.** Sent by anyone
    to an unpaused hub whose books exceed what is still delegated (validators were slashed since
    the last check): the transaction succeeds, emits nothing, and afterwards the booked stake is
    exactly the surviving delegated amount, split between the two pools pro rata within two base
    units; nothing but the hub's pools and stored rates changed. -/
theorem C06_check_slashing_tx (s : Sys) (u : Addr) (st : HubSt) (hp : s.hub.isPaused = false)
    (hact : s.hub.actualState s.hubEnv = .ok st)
    (hd : s.delegationsOf hubA ≠ [])
    (hlt : ((s.delegationsOf hubA).map (·.2)).sum < s.hub.bBond + s.hub.sBond)
    (hE1 : ((s.delegationsOf hubA).map (·.2)).sum ≤ D) :
    s.exec (.wasm u hubA (.hub .checkSlashing) []) = ({ s with hub := st }, .ok ()) ∧
    st.bBond + st.sBond = ((s.delegationsOf hubA).map (·.2)).sum ∧
    st.bBond * (s.hub.bBond + s.hub.sBond) ≤ ((s.delegationsOf hubA).map (·.2)).sum * s.hub.bBond ∧
    ((s.delegationsOf hubA).map (·.2)).sum * s.hub.bBond < (st.bBond + 2) * (s.hub.bBond + s.hub.sBond) := by
  have r := C06_recognised_exactly s.hub st s.hubEnv hact hd hlt hE1
  refine ⟨?_, r.1, r.2.1, r.2.2.1⟩
  have H : s.handle (.wasm u hubA (.hub .checkSlashing) []) = .ok ({ s with hub := st }, []) := by
    simp only [Sys.handle, Sys.moveFunds, bind, Except.bind, pure, Except.pure]
    rw [if_pos trivial]
    simp only [hubExec, hp, Bool.false_eq_true, if_false, bind, Except.bind, pure, Except.pure, hact]
  unfold Sys.exec
  simp only [Sys.run, H, List.nil_append]

end Krp
