/-
  C07 — Every unbonded token is recorded in exactly one batch claim of its sender.

  `claimsB h i` / `claimsS h i` = Σ over all users of their recorded bSei / stSei claims in batch i.
  Invariant `ClaimInv`: the open batch's totals equal the sums of its claims; every closed,
  unreleased batch's history amounts equal the sums of its claims (released: the sums only fall,
  by withdrawals); nothing is recorded for future batches; history exists only below the open id.
-/
import Krp.Lemmas.Wait
import Krp.Init
namespace Krp
open HubSt

structure ClaimInv (h : HubSt) : Prop where
  wf : h.WaitWF
  openB : h.claimsB h.batchId = h.reqB
  openS : h.claimsS h.batchId = h.reqS
  closed : ∀ i x, h.hist i = some x →
    (x.released = false → h.claimsB i = x.bAmt ∧ h.claimsS i = x.sAmt) ∧
    h.claimsB i ≤ x.bAmt ∧ h.claimsS i ≤ x.sAmt
  future : ∀ i, h.batchId < i → h.claimsB i = 0 ∧ h.claimsS i = 0
  histBound : ∀ i, h.hist i ≠ none → i < h.batchId

/-- the part of the hub state the claim bookkeeping lives in -/
structure SameClaims (h h' : HubSt) : Prop where
  keys : h'.waitKeys = h.waitKeys
  waitB : h'.waitB = h.waitB
  waitS : h'.waitS = h.waitS
  hist : h'.hist = h.hist
  batchId : h'.batchId = h.batchId
  reqB : h'.reqB = h.reqB
  reqS : h'.reqS = h.reqS

theorem ClaimInv.of_same {h h' : HubSt} (s : SameClaims h h') (inv : ClaimInv h) : ClaimInv h' := by
  have cb : ∀ i, h'.claimsB i = h.claimsB i := by intro i; unfold claimsB keysOf; rw [s.keys, s.waitB]
  have cs : ∀ i, h'.claimsS i = h.claimsS i := by intro i; unfold claimsS keysOf; rw [s.keys, s.waitS]
  refine ⟨⟨by rw [s.keys]; exact inv.wf.nodup, by rw [s.keys, s.waitB]; exact inv.wf.zeroB,
    by rw [s.keys, s.waitS]; exact inv.wf.zeroS⟩, ?_, ?_, ?_, ?_, ?_⟩
  · rw [cb, s.batchId, s.reqB]; exact inv.openB
  · rw [cs, s.batchId, s.reqS]; exact inv.openS
  · intro i x hx; rw [s.hist] at hx; rw [cb, cs]; exact inv.closed i x hx
  · intro i hi; rw [s.batchId] at hi; rw [cb, cs]; exact inv.future i hi
  · intro i hi; rw [s.hist] at hi; rw [s.batchId]; exact inv.histBound i hi

theorem C07_init (sender now epoch unb fee thr rd upd : Nat) (h : HubSt)
    (hx : hubInit sender now epoch unb fee thr rd upd = .ok h) : ClaimInv h := by
  unfold hubInit at hx
  split at hx
  · cases hx
  · injection hx with hx; subst hx
    refine ⟨⟨by simp, fun _ _ _ => rfl, fun _ _ _ => rfl⟩, ?_, ?_, ?_, ?_, ?_⟩ <;>
      simp [claimsB, claimsS, keysOf]

/-- An accepted bSei Unbond credits the cw20 sender, and only that account, with a claim in the
    open batch equal to the amount less the peg fee, and adds the same amount to the batch total. -/
theorem C07_unbond_bsei_credits_sender_only (st : HubSt) (inv : ClaimInv st) (user : Addr)
    (S amount withFee : Nat) :
    let st' := st.afterUnbondB user S amount withFee
    ClaimInv st' ∧ st'.waitB user st.batchId = st.waitB user st.batchId + withFee ∧
    st'.reqB = st.reqB + withFee ∧ st'.reqS = st.reqS ∧
    ∀ u i, (u, i) ≠ (user, st.batchId) → st'.waitB u i = st.waitB u i ∧ st'.waitS u i = st.waitS u i := by
  intro st'
  have a := addWait_claims st inv.wf user st.batchId withFee 0
  have cb : ∀ i, st'.claimsB i = (st.addWait user st.batchId withFee 0).claimsB i := fun _ => rfl
  have cs : ∀ i, st'.claimsS i = (st.addWait user st.batchId withFee 0).claimsS i := fun _ => rfl
  refine ⟨⟨⟨a.1.nodup, a.1.zeroB, a.1.zeroS⟩, ?_, ?_, ?_, ?_, ?_⟩, a.2.2.2.2.1, rfl, rfl, a.2.2.2.1⟩
  · show st'.claimsB st.batchId = st.reqB + withFee
    rw [cb, a.2.1, inv.openB]; simp
  · show st'.claimsS st.batchId = st.reqS
    rw [cs, a.2.2.1, inv.openS]; simp
  · intro i x hx
    have hlt := inv.histBound i (by show st.hist i ≠ none; rw [show st.hist i = some x from hx]; simp)
    have hne : i ≠ st.batchId := by omega
    rw [cb, cs, a.2.1, a.2.2.1]; simp only [hne, if_false, Nat.add_zero]
    exact inv.closed i x hx
  · intro i hi
    have hne : i ≠ st.batchId := by have : st'.batchId = st.batchId := rfl; omega
    rw [cb, cs, a.2.1, a.2.2.1]; simp only [hne, if_false, Nat.add_zero]
    exact inv.future i hi
  · exact inv.histBound

/-- The same for stSei (no fee). -/
theorem C07_unbond_stsei_credits_sender_only (st : HubSt) (inv : ClaimInv st) (user : Addr) (amount : Nat) :
    let st' := st.afterUnbondS user amount
    ClaimInv st' ∧ st'.waitS user st.batchId = st.waitS user st.batchId + amount ∧
    st'.reqS = st.reqS + amount ∧ st'.reqB = st.reqB ∧
    ∀ u i, (u, i) ≠ (user, st.batchId) → st'.waitB u i = st.waitB u i ∧ st'.waitS u i = st.waitS u i := by
  intro st'
  have a := addWait_claims st inv.wf user st.batchId 0 amount
  have cb : ∀ i, st'.claimsB i = (st.addWait user st.batchId 0 amount).claimsB i := fun _ => rfl
  have cs : ∀ i, st'.claimsS i = (st.addWait user st.batchId 0 amount).claimsS i := fun _ => rfl
  refine ⟨⟨⟨a.1.nodup, a.1.zeroB, a.1.zeroS⟩, ?_, ?_, ?_, ?_, ?_⟩, a.2.2.2.2.2, rfl, rfl, a.2.2.2.1⟩
  · show st'.claimsB st.batchId = st.reqB
    rw [cb, a.2.1, inv.openB]; simp
  · show st'.claimsS st.batchId = st.reqS + amount
    rw [cs, a.2.2.1, inv.openS]; simp
  · intro i x hx
    have hlt := inv.histBound i (by show st.hist i ≠ none; rw [show st.hist i = some x from hx]; simp)
    have hne : i ≠ st.batchId := by omega
    rw [cb, cs, a.2.1, a.2.2.1]; simp only [hne, if_false, Nat.add_zero]
    exact inv.closed i x hx
  · intro i hi
    have hne : i ≠ st.batchId := by have : st'.batchId = st.batchId := rfl; omega
    rw [cb, cs, a.2.1, a.2.2.1]; simp only [hne, if_false, Nat.add_zero]
    exact inv.future i hi
  · exact inv.histBound

/-- Closing a batch: the history entry stores exactly the batch totals (= the sums of all users'
    claims), a new empty batch opens with the next id. -/
theorem C07_undelegation_keeps_claims (h h' : HubSt) (e : HubEnv) (ms : List Msg) (inv : ClaimInv h)
    (hx : h.processUndelegations e = .ok (h', ms)) : ClaimInv h' := by
  have sp := processUndelegations_spec h h' e ms hx
  obtain ⟨_, _, _, _, _, _, _, rb, rs, bid, _, hh, wb, ws, _, _, _⟩ := sp
  have wk : h'.waitKeys = h.waitKeys := by
    unfold processUndelegations at hx; exc_split at hx; rfl
  have cb : ∀ i, h'.claimsB i = h.claimsB i := by intro i; unfold claimsB keysOf; rw [wk, wb]
  have cs : ∀ i, h'.claimsS i = h.claimsS i := by intro i; unfold claimsS keysOf; rw [wk, ws]
  refine ⟨⟨by rw [wk]; exact inv.wf.nodup, by rw [wk, wb]; exact inv.wf.zeroB,
    by rw [wk, ws]; exact inv.wf.zeroS⟩, ?_, ?_, ?_, ?_, ?_⟩
  · rw [cb, bid, rb]; exact (inv.future _ (by omega)).1
  · rw [cs, bid, rs]; exact (inv.future _ (by omega)).2
  · intro i x hx'
    rw [hh] at hx'
    rw [cb, cs]
    by_cases hi : i = h.batchId
    · subst hi
      simp only [upd_same] at hx'
      injection hx' with hx'; subst hx'
      exact ⟨fun _ => ⟨inv.openB, inv.openS⟩, by rw [inv.openB]; exact Nat.le_refl _, by rw [inv.openS]; exact Nat.le_refl _⟩
    · rw [upd_other _ _ _ _ hi] at hx'
      exact inv.closed i x hx'
  · intro i hi
    rw [cb, cs]; exact inv.future i (by omega)
  · intro i hi
    rw [hh] at hi
    by_cases hib : i = h.batchId
    · omega
    · rw [upd_other _ _ _ _ hib] at hi
      have := inv.histBound i hi; omega

/-- Releasing matured batches rewrites only their withdraw rates and the released flag: no claim,
    amount or total changes. -/
theorem C07_release_keeps_claims (h h' : HubSt) (cutoff bal : Nat) (inv : ClaimInv h)
    (hx : h.processWithdrawRate cutoff bal = .ok h') : ClaimInv h' := by
  obtain ⟨wb, ws, wk, _, bid, rb, rs, _, _, _, _, hh⟩ := processWithdrawRate_spec h h' cutoff bal hx
  have cb : ∀ i, h'.claimsB i = h.claimsB i := by intro i; unfold claimsB keysOf; rw [wk, wb]
  have cs : ∀ i, h'.claimsS i = h.claimsS i := by intro i; unfold claimsS keysOf; rw [wk, ws]
  refine ⟨⟨by rw [wk]; exact inv.wf.nodup, by rw [wk, wb]; exact inv.wf.zeroB,
    by rw [wk, ws]; exact inv.wf.zeroS⟩, by rw [cb, bid, rb]; exact inv.openB,
    by rw [cs, bid, rs]; exact inv.openS, ?_, by intro i hi; rw [bid] at hi; rw [cb, cs]; exact inv.future i hi, ?_⟩
  · intro i x' hx'
    rw [cb, cs]
    cases hxi : h.hist i with
    | none => rw [(hh i).1 hxi] at hx'; cases hx'
    | some x =>
      obtain ⟨y, hy, _, hb, hs, _, _, _, _, hkeep⟩ := (hh i).2 x hxi
      rw [hy] at hx'; injection hx' with hx'; subst hx'
      have c := inv.closed i x hxi
      refine ⟨fun hr => ?_, by rw [hb]; exact c.2.1, by rw [hs]; exact c.2.2⟩
      have e := hkeep hr
      subst e
      exact c.1 hr
  · intro i hi
    rw [bid]
    cases hxi : h.hist i with
    | none => exact absurd ((hh i).1 hxi) hi
    | some x => exact inv.histBound i (by rw [hxi]; simp)

/-- Deleting a claimant's entries on released batches (a withdrawal) lowers only those batches' sums. -/
theorem C07_withdraw_removes_only_own_released (h : HubSt) (inv : ClaimInv h) (u : Addr) (ids : List Nat)
    (hrel : ∀ i ∈ ids, ∃ x, h.hist i = some x ∧ x.released = true) :
    ClaimInv (ids.foldl (fun hh i => hh.delWait u i) h) ∧
    (ids.foldl (fun hh i => hh.delWait u i) h).hist = h.hist ∧
    ∀ u' i, u' ≠ u → (ids.foldl (fun hh i => hh.delWait u i) h).waitB u' i = h.waitB u' i ∧
                     (ids.foldl (fun hh i => hh.delWait u i) h).waitS u' i = h.waitS u' i := by
  induction ids generalizing h with
  | nil => exact ⟨inv, rfl, fun _ _ _ => ⟨rfl, rfl⟩⟩
  | cons b bs ih =>
    simp only [List.foldl_cons]
    obtain ⟨x, hxb, hxr⟩ := hrel b (by simp)
    have d := delWait_claims h inv.wf u b
    have hb : b < h.batchId := inv.histBound b (by rw [hxb]; simp)
    have inv1 : ClaimInv (h.delWait u b) := by
      refine ⟨d.1, ?_, ?_, ?_, ?_, inv.histBound⟩
      · have := d.2.1 h.batchId
        have hne : h.batchId ≠ b := by omega
        simp only [hne, if_false, Nat.add_zero] at this
        show (h.delWait u b).claimsB h.batchId = h.reqB
        rw [this]; exact inv.openB
      · have := d.2.2.1 h.batchId
        have hne : h.batchId ≠ b := by omega
        simp only [hne, if_false, Nat.add_zero] at this
        show (h.delWait u b).claimsS h.batchId = h.reqS
        rw [this]; exact inv.openS
      · intro i y hy
        have hy' : h.hist i = some y := hy
        have c := inv.closed i y hy'
        have e1 := d.2.1 i
        have e2 := d.2.2.1 i
        by_cases hib : i = b
        · subst hib
          rw [hxb] at hy'; injection hy' with hy'; subst hy'
          simp only [if_true] at e1 e2
          exact ⟨(fun hr => by rw [hxr] at hr; cases hr), by omega, by omega⟩
        · simp only [hib, if_false, Nat.add_zero] at e1 e2
          rw [e1, e2]; exact c
      · intro i hi
        have hi' : h.batchId < i := hi
        have hne : i ≠ b := by omega
        have e1 := d.2.1 i
        have e2 := d.2.2.1 i
        simp only [hne, if_false, Nat.add_zero] at e1 e2
        rw [e1, e2]; exact inv.future i hi'
    have r := ih (h.delWait u b) inv1 (fun i hi => hrel i (by simp [hi]))
    refine ⟨r.1, r.2.1, fun u' i hne => ?_⟩
    have := r.2.2 u' i hne
    have o := d.2.2.2 u' i (fun e => hne (Prod.mk.inj e).1)
    exact ⟨by rw [this.1, o.1], by rw [this.2, o.2]⟩

/-- WithdrawUnbonded as a whole keeps the claim bookkeeping consistent and touches nobody else's claims. -/
theorem C07_withdraw_step (h h' : HubSt) (e : HubEnv) (sender : Addr) (ms : List Msg) (inv : ClaimInv h)
    (hx : h.withdraw e sender = .ok (h', ms)) :
    ClaimInv h' ∧ ∀ u i, u ≠ sender → h'.waitB u i = h.waitB u i ∧ h'.waitS u i = h.waitS u i := by
  obtain ⟨_, h1, hp, _, _, hh, _⟩ := withdraw_spec h h' e sender ms hx
  subst hh
  have inv1 := C07_release_keeps_claims h h1 _ _ inv hp
  have sp := processWithdrawRate_spec h h1 _ _ hp
  have hrel : ∀ i ∈ (h1.finished sender).2, ∃ x, h1.hist i = some x ∧ x.released = true := by
    intro i hi
    simp only [finished, List.mem_filter] at hi
    cases hxi : h1.hist i with
    | none => simp [hxi] at hi
    | some x => simp [hxi] at hi; exact ⟨x, rfl, hi.2⟩
  have r := C07_withdraw_removes_only_own_released h1 inv1 sender _ hrel
  refine ⟨?_, fun u i hne => ?_⟩
  · apply ClaimInv.of_same _ r.1
    exact ⟨rfl, rfl, rfl, rfl, rfl, rfl, rfl⟩
  · have := r.2.2 u i hne
    exact ⟨by show _ = h.waitB u i; rw [← sp.1]; exact this.1, by show _ = h.waitS u i; rw [← sp.2.1]; exact this.2⟩

end Krp
