/-
  C07 — Every unbonded token is recorded in exactly one batch claim of its sender.

  `claimsB h i` / `claimsS h i` = Σ over all users of their recorded bSei / stSei claims in batch i.
  Invariant `ClaimInv`: the open batch's totals equal the sums of its claims; every closed,
  unreleased batch's history amounts equal the sums of its claims (released: the sums only fall,
  by withdrawals); nothing is recorded for future batches; history exists only below the open id.
-/
import Krp.Lemmas.Wait
import Krp.Init
import Krp.Lemmas.Reach
import Krp.Lemmas.HubSpec
namespace Krp
open HubSt

structure ClaimInv (h : HubSt) : Prop where
  wf : h.WaitWF
  openB : h.claimsB h.batchId = h.reqB
  openS : h.claimsS h.batchId = h.reqS
  closed : ∀ i x, h.hist i = some x →
    (x.released = false → h.claimsB i = x.bAmt ∧ h.claimsS i = x.sAmt) ∧
    h.claimsB i ≤ x.bAmt ∧ h.claimsS i ≤ x.sAmt
  future : ∀ i, h.batchId < i → h.claimsB i = 0 ∧ h.claimsS i = 0
  histBound : ∀ i, h.hist i ≠ none → i < h.batchId

/-- the part of the hub state the claim bookkeeping lives in -/
structure SameClaims (h h' : HubSt) : Prop where
  keys : h'.waitKeys = h.waitKeys
  waitB : h'.waitB = h.waitB
  waitS : h'.waitS = h.waitS
  hist : h'.hist = h.hist
  batchId : h'.batchId = h.batchId
  reqB : h'.reqB = h.reqB
  reqS : h'.reqS = h.reqS

theorem ClaimInv.of_same {h h' : HubSt} (s : SameClaims h h') (inv : ClaimInv h) : ClaimInv h' := by
  have cb : ∀ i, h'.claimsB i = h.claimsB i := by intro i; unfold claimsB keysOf; rw [s.keys, s.waitB]
  have cs : ∀ i, h'.claimsS i = h.claimsS i := by intro i; unfold claimsS keysOf; rw [s.keys, s.waitS]
  refine ⟨⟨by rw [s.keys]; exact inv.wf.nodup, by rw [s.keys, s.waitB]; exact inv.wf.zeroB,
    by rw [s.keys, s.waitS]; exact inv.wf.zeroS⟩, ?_, ?_, ?_, ?_, ?_⟩
  · rw [cb, s.batchId, s.reqB]; exact inv.openB
  · rw [cs, s.batchId, s.reqS]; exact inv.openS
  · intro i x hx; rw [s.hist] at hx; rw [cb, cs]; exact inv.closed i x hx
  · intro i hi; rw [s.batchId] at hi; rw [cb, cs]; exact inv.future i hi
  · intro i hi; rw [s.hist] at hi; rw [s.batchId]; exact inv.histBound i hi

theorem C07_init (sender now epoch unb fee thr rd upd : Nat) (h : HubSt)
    (hx : hubInit sender now epoch unb fee thr rd upd = .ok h) : ClaimInv h := by
  unfold hubInit at hx
  split at hx
  · cases hx
  · injection hx with hx; subst hx
    refine ⟨⟨by simp, fun _ _ _ => rfl, fun _ _ _ => rfl⟩, ?_, ?_, ?_, ?_, ?_⟩ <;>
      simp [claimsB, claimsS, keysOf]

/-- An accepted bSei Unbond credits the cw20 sender, and only that account, with a claim in the
    open batch equal to the amount less the peg fee, and adds the same amount to the batch total. -/
theorem C07_unbond_bsei_credits_sender_only (st : HubSt) (inv : ClaimInv st) (user : Addr)
    (S amount withFee : Nat) :
    let st' := st.afterUnbondB user S amount withFee
    ClaimInv st' ∧ st'.waitB user st.batchId = st.waitB user st.batchId + withFee ∧
    st'.reqB = st.reqB + withFee ∧ st'.reqS = st.reqS ∧
    ∀ u i, (u, i) ≠ (user, st.batchId) → st'.waitB u i = st.waitB u i ∧ st'.waitS u i = st.waitS u i := by
  intro st'
  have a := addWait_claims st inv.wf user st.batchId withFee 0
  have cb : ∀ i, st'.claimsB i = (st.addWait user st.batchId withFee 0).claimsB i := fun _ => rfl
  have cs : ∀ i, st'.claimsS i = (st.addWait user st.batchId withFee 0).claimsS i := fun _ => rfl
  refine ⟨⟨⟨a.1.nodup, a.1.zeroB, a.1.zeroS⟩, ?_, ?_, ?_, ?_, ?_⟩, a.2.2.2.2.1, rfl, rfl, a.2.2.2.1⟩
  · show st'.claimsB st.batchId = st.reqB + withFee
    rw [cb, a.2.1, inv.openB]; simp
  · show st'.claimsS st.batchId = st.reqS
    rw [cs, a.2.2.1, inv.openS]; simp
  · intro i x hx
    have hlt := inv.histBound i (by show st.hist i ≠ none; rw [show st.hist i = some x from hx]; simp)
    have hne : i ≠ st.batchId := by omega
    rw [cb, cs, a.2.1, a.2.2.1]; simp only [hne, if_false, Nat.add_zero]
    exact inv.closed i x hx
  · intro i hi
    have hne : i ≠ st.batchId := by have : st'.batchId = st.batchId := rfl; omega
    rw [cb, cs, a.2.1, a.2.2.1]; simp only [hne, if_false, Nat.add_zero]
    exact inv.future i hi
  · exact inv.histBound

/-- The same for stSei (no fee). -/
theorem C07_unbond_stsei_credits_sender_only (st : HubSt) (inv : ClaimInv st) (user : Addr) (amount : Nat) :
    let st' := st.afterUnbondS user amount
    ClaimInv st' ∧ st'.waitS user st.batchId = st.waitS user st.batchId + amount ∧
    st'.reqS = st.reqS + amount ∧ st'.reqB = st.reqB ∧
    ∀ u i, (u, i) ≠ (user, st.batchId) → st'.waitB u i = st.waitB u i ∧ st'.waitS u i = st.waitS u i := by
  intro st'
  have a := addWait_claims st inv.wf user st.batchId 0 amount
  have cb : ∀ i, st'.claimsB i = (st.addWait user st.batchId 0 amount).claimsB i := fun _ => rfl
  have cs : ∀ i, st'.claimsS i = (st.addWait user st.batchId 0 amount).claimsS i := fun _ => rfl
  refine ⟨⟨⟨a.1.nodup, a.1.zeroB, a.1.zeroS⟩, ?_, ?_, ?_, ?_, ?_⟩, a.2.2.2.2.2, rfl, rfl, a.2.2.2.1⟩
  · show st'.claimsB st.batchId = st.reqB
    rw [cb, a.2.1, inv.openB]; simp
  · show st'.claimsS st.batchId = st.reqS + amount
    rw [cs, a.2.2.1, inv.openS]; simp
  · intro i x hx
    have hlt := inv.histBound i (by show st.hist i ≠ none; rw [show st.hist i = some x from hx]; simp)
    have hne : i ≠ st.batchId := by omega
    rw [cb, cs, a.2.1, a.2.2.1]; simp only [hne, if_false, Nat.add_zero]
    exact inv.closed i x hx
  · intro i hi
    have hne : i ≠ st.batchId := by have : st'.batchId = st.batchId := rfl; omega
    rw [cb, cs, a.2.1, a.2.2.1]; simp only [hne, if_false, Nat.add_zero]
    exact inv.future i hi
  · exact inv.histBound

/-- **The claim recorded is the amount sent less the peg fee — exactly.** A successful bSei unbond
    of `amount` by `user`, whether or not it closes the batch: the user's claim in the batch that was
    open grows by `withFee`, where `amount − withFee` is the peg fee — at most ⌊amount × fee⌋ (the
    product rounded *down*), zero when the rate is at or above the threshold — and nobody else's
    claim, and no claim of the user in another batch, changes. -/
theorem C07_unbond_bsei_claim_is_amount_less_fee (h h' : HubSt) (e : HubEnv) (amount : Nat) (user : Addr)
    (ms : List Msg) (inv : ∀ st, h.actualState e = .ok st → ClaimInv st)
    (hx : h.unbondB e amount user = .ok (h', ms)) :
    ∃ st withFee, h.actualState e = .ok st ∧
      h'.waitB user st.batchId = st.waitB user st.batchId + withFee ∧
      withFee ≤ amount ∧ amount - withFee ≤ mulDec amount st.fee ∧ (st.thr ≤ st.bRate → withFee = amount) ∧
      (∀ u i, (u, i) ≠ (user, st.batchId) → h'.waitB u i = st.waitB u i ∧ h'.waitS u i = st.waitS u i) ∧
      h'.waitS user st.batchId = st.waitS user st.batchId := by
  obtain ⟨st, supply, withFee, tok, hst, _, hfee, _, _, _, hcase⟩ := unbondB_spec h h' e amount user ms hx
  have f := pegFeeOnBurn_spec st supply amount withFee hfee
  have cr := C07_unbond_bsei_credits_sender_only st (inv st hst) user supply amount withFee
  simp only [] at cr
  have own : (st.afterUnbondB user supply amount withFee).waitS user st.batchId = st.waitS user st.batchId := by
    have a := addWait_claims st (inv st hst).wf user st.batchId 0 0
    show (st.addWait user st.batchId withFee 0).waitS user st.batchId = _
    simp [addWait, upd]
  rcases hcase with ⟨_, um, hp, _⟩ | ⟨_, hh, _⟩
  · have sp := processUndelegations_spec _ h' e um hp
    have wb : h'.waitB = (st.afterUnbondB user supply amount withFee).waitB := sp.2.2.2.2.2.2.2.2.2.2.2.2.1
    have ws : h'.waitS = (st.afterUnbondB user supply amount withFee).waitS := sp.2.2.2.2.2.2.2.2.2.2.2.2.2.1
    refine ⟨st, withFee, hst, by rw [wb]; exact cr.2.1, f.1, f.2.1, f.2.2.1, ?_, by rw [ws]; exact own⟩
    intro u i hne
    rw [wb, ws]; exact cr.2.2.2.2 u i hne
  · subst hh
    exact ⟨st, withFee, hst, cr.2.1, f.1, f.2.1, f.2.2.1, cr.2.2.2.2, own⟩

/-- Closing a batch: the history entry stores exactly the batch totals (= the sums of all users'
    claims), a new empty batch opens with the next id. -/
theorem C07_undelegation_keeps_claims (h h' : HubSt) (e : HubEnv) (ms : List Msg) (inv : ClaimInv h)
    (hx : h.processUndelegations e = .ok (h', ms)) : ClaimInv h' := by
  have sp := processUndelegations_spec h h' e ms hx
  obtain ⟨_, _, _, _, _, _, _, rb, rs, bid, _, hh, wb, ws, _, _, _⟩ := sp
  have wk : h'.waitKeys = h.waitKeys := by
    unfold processUndelegations at hx; exc_split at hx; rfl
  have cb : ∀ i, h'.claimsB i = h.claimsB i := by intro i; unfold claimsB keysOf; rw [wk, wb]
  have cs : ∀ i, h'.claimsS i = h.claimsS i := by intro i; unfold claimsS keysOf; rw [wk, ws]
  refine ⟨⟨by rw [wk]; exact inv.wf.nodup, by rw [wk, wb]; exact inv.wf.zeroB,
    by rw [wk, ws]; exact inv.wf.zeroS⟩, ?_, ?_, ?_, ?_, ?_⟩
  · rw [cb, bid, rb]; exact (inv.future _ (by omega)).1
  · rw [cs, bid, rs]; exact (inv.future _ (by omega)).2
  · intro i x hx'
    rw [hh] at hx'
    rw [cb, cs]
    by_cases hi : i = h.batchId
    · subst hi
      simp only [upd_same] at hx'
      injection hx' with hx'; subst hx'
      exact ⟨fun _ => ⟨inv.openB, inv.openS⟩, by rw [inv.openB]; exact Nat.le_refl _, by rw [inv.openS]; exact Nat.le_refl _⟩
    · rw [upd_other _ _ _ _ hi] at hx'
      exact inv.closed i x hx'
  · intro i hi
    rw [cb, cs]; exact inv.future i (by omega)
  · intro i hi
    rw [hh] at hi
    by_cases hib : i = h.batchId
    · omega
    · rw [upd_other _ _ _ _ hib] at hi
      have := inv.histBound i hi; omega

/-- Releasing matured batches rewrites only their withdraw rates and the released flag: no claim,
    amount or total changes. -/
theorem C07_release_keeps_claims (h h' : HubSt) (cutoff bal : Nat) (inv : ClaimInv h)
    (hx : h.processWithdrawRate cutoff bal = .ok h') : ClaimInv h' := by
  obtain ⟨wb, ws, wk, _, bid, rb, rs, _, _, _, _, hh⟩ := processWithdrawRate_spec h h' cutoff bal hx
  have cb : ∀ i, h'.claimsB i = h.claimsB i := by intro i; unfold claimsB keysOf; rw [wk, wb]
  have cs : ∀ i, h'.claimsS i = h.claimsS i := by intro i; unfold claimsS keysOf; rw [wk, ws]
  refine ⟨⟨by rw [wk]; exact inv.wf.nodup, by rw [wk, wb]; exact inv.wf.zeroB,
    by rw [wk, ws]; exact inv.wf.zeroS⟩, by rw [cb, bid, rb]; exact inv.openB,
    by rw [cs, bid, rs]; exact inv.openS, ?_, by intro i hi; rw [bid] at hi; rw [cb, cs]; exact inv.future i hi, ?_⟩
  · intro i x' hx'
    rw [cb, cs]
    cases hxi : h.hist i with
    | none => rw [(hh i).1 hxi] at hx'; cases hx'
    | some x =>
      obtain ⟨y, hy, _, hb, hs, _, _, _, _, hkeep⟩ := (hh i).2 x hxi
      rw [hy] at hx'; injection hx' with hx'; subst hx'
      have c := inv.closed i x hxi
      refine ⟨fun hr => ?_, by rw [hb]; exact c.2.1, by rw [hs]; exact c.2.2⟩
      have e := hkeep hr
      subst e
      exact c.1 hr
  · intro i hi
    rw [bid]
    cases hxi : h.hist i with
    | none => exact absurd ((hh i).1 hxi) hi
    | some x => exact inv.histBound i (by rw [hxi]; simp)

/-- Deleting a claimant's entries on released batches (a withdrawal) lowers only those batches' sums. -/
theorem C07_withdraw_removes_only_own_released (h : HubSt) (inv : ClaimInv h) (u : Addr) (ids : List Nat)
    (hrel : ∀ i ∈ ids, ∃ x, h.hist i = some x ∧ x.released = true) :
    ClaimInv (ids.foldl (fun hh i => hh.delWait u i) h) ∧
    (ids.foldl (fun hh i => hh.delWait u i) h).hist = h.hist ∧
    ∀ u' i, u' ≠ u → (ids.foldl (fun hh i => hh.delWait u i) h).waitB u' i = h.waitB u' i ∧
                     (ids.foldl (fun hh i => hh.delWait u i) h).waitS u' i = h.waitS u' i := by
  induction ids generalizing h with
  | nil => exact ⟨inv, rfl, fun _ _ _ => ⟨rfl, rfl⟩⟩
  | cons b bs ih =>
    simp only [List.foldl_cons]
    obtain ⟨x, hxb, hxr⟩ := hrel b (by simp)
    have d := delWait_claims h inv.wf u b
    have hb : b < h.batchId := inv.histBound b (by rw [hxb]; simp)
    have inv1 : ClaimInv (h.delWait u b) := by
      refine ⟨d.1, ?_, ?_, ?_, ?_, inv.histBound⟩
      · have := d.2.1 h.batchId
        have hne : h.batchId ≠ b := by omega
        simp only [hne, if_false, Nat.add_zero] at this
        show (h.delWait u b).claimsB h.batchId = h.reqB
        rw [this]; exact inv.openB
      · have := d.2.2.1 h.batchId
        have hne : h.batchId ≠ b := by omega
        simp only [hne, if_false, Nat.add_zero] at this
        show (h.delWait u b).claimsS h.batchId = h.reqS
        rw [this]; exact inv.openS
      · intro i y hy
        have hy' : h.hist i = some y := hy
        have c := inv.closed i y hy'
        have e1 := d.2.1 i
        have e2 := d.2.2.1 i
        by_cases hib : i = b
        · subst hib
          rw [hxb] at hy'; injection hy' with hy'; subst hy'
          simp only [if_true] at e1 e2
          exact ⟨(fun hr => by rw [hxr] at hr; cases hr), by omega, by omega⟩
        · simp only [hib, if_false, Nat.add_zero] at e1 e2
          rw [e1, e2]; exact c
      · intro i hi
        have hi' : h.batchId < i := hi
        have hne : i ≠ b := by omega
        have e1 := d.2.1 i
        have e2 := d.2.2.1 i
        simp only [hne, if_false, Nat.add_zero] at e1 e2
        rw [e1, e2]; exact inv.future i hi'
    have r := ih (h.delWait u b) inv1 (fun i hi => hrel i (by simp [hi]))
    refine ⟨r.1, r.2.1, fun u' i hne => ?_⟩
    have := r.2.2 u' i hne
    have o := d.2.2.2 u' i (fun e => hne (Prod.mk.inj e).1)
    exact ⟨by rw [this.1, o.1], by rw [this.2, o.2]⟩

/-- WithdrawUnbonded as a whole keeps the claim bookkeeping consistent and touches nobody else's claims. -/
theorem C07_withdraw_step (h h' : HubSt) (e : HubEnv) (sender : Addr) (ms : List Msg) (inv : ClaimInv h)
    (hx : h.withdraw e sender = .ok (h', ms)) :
    ClaimInv h' ∧ ∀ u i, u ≠ sender → h'.waitB u i = h.waitB u i ∧ h'.waitS u i = h.waitS u i := by
  obtain ⟨_, h1, hp, _, _, hh, _⟩ := withdraw_spec h h' e sender ms hx
  subst hh
  have inv1 := C07_release_keeps_claims h h1 _ _ inv hp
  have sp := processWithdrawRate_spec h h1 _ _ hp
  have hrel : ∀ i ∈ (h1.finished sender).2, ∃ x, h1.hist i = some x ∧ x.released = true := by
    intro i hi
    simp only [finished, List.mem_filter] at hi
    cases hxi : h1.hist i with
    | none => simp [hxi] at hi
    | some x => simp [hxi] at hi; exact ⟨x, rfl, hi.2⟩
  have r := C07_withdraw_removes_only_own_released h1 inv1 sender _ hrel
  refine ⟨?_, fun u i hne => ?_⟩
  · apply ClaimInv.of_same _ r.1
    exact ⟨rfl, rfl, rfl, rfl, rfl, rfl, rfl⟩
  · have := r.2.2 u i hne
    exact ⟨by show _ = h.waitB u i; rw [← sp.1]; exact this.1, by show _ = h.waitS u i; rw [← sp.2.1]; exact this.2⟩

/-! ### Every hub message, every reachable state

  `KeepsClaims h h'`: the claim bookkeeping (wait lists, history, open batch) and the legacy list are
  literally unchanged.  Every handler other than Unbond / WithdrawUnbonded / wait-list migration is
  of that kind. -/

structure KeepsClaims (h h' : HubSt) : Prop where
  same : SameClaims h h'
  legacy : h'.legacy = h.legacy

theorem KeepsClaims.refl (h : HubSt) : KeepsClaims h h := ⟨⟨rfl, rfl, rfl, rfl, rfl, rfl, rfl⟩, rfl⟩

theorem KeepsClaims.trans {a b c : HubSt} (x : KeepsClaims a b) (y : KeepsClaims b c) : KeepsClaims a c :=
  ⟨⟨y.same.keys.trans x.same.keys, y.same.waitB.trans x.same.waitB, y.same.waitS.trans x.same.waitS,
    y.same.hist.trans x.same.hist, y.same.batchId.trans x.same.batchId, y.same.reqB.trans x.same.reqB,
    y.same.reqS.trans x.same.reqS⟩, y.legacy.trans x.legacy⟩

theorem actualState_keeps (h st : HubSt) (e : HubEnv) (hx : h.actualState e = .ok st) : KeepsClaims h st := by
  unfold actualState at hx
  split at hx
  · injection hx with hx; subst hx; exact KeepsClaims.refl _
  · split at hx
    · injection hx with hx; subst hx; exact KeepsClaims.refl _
    · exc_norm at hx
      exc_split at hx
      all_goals exact ⟨⟨rfl, rfl, rfl, rfl, rfl, rfl, rfl⟩, rfl⟩

theorem bondB_keeps (h h' : HubSt) (e : HubEnv) (s : Addr) (f : List (Denom × Nat)) (ms : List Msg)
    (hx : h.bondB e s f = .ok (h', ms)) : KeepsClaims h h' := by
  obtain ⟨p, st, mint, dl, tok, _, hst, _, _, _, _, hh, _⟩ := bondB_spec h h' e s f ms hx
  subst hh
  exact (actualState_keeps h st e hst).trans ⟨⟨rfl, rfl, rfl, rfl, rfl, rfl, rfl⟩, rfl⟩

theorem bondS_keeps (h h' : HubSt) (e : HubEnv) (s : Addr) (f : List (Denom × Nat)) (ms : List Msg)
    (hx : h.bondS e s f = .ok (h', ms)) : KeepsClaims h h' := by
  obtain ⟨p, st, dl, tok, _, hst, _, _, _, hh, _⟩ := bondS_spec h h' e s f ms hx
  subst hh
  exact (actualState_keeps h st e hst).trans ⟨⟨rfl, rfl, rfl, rfl, rfl, rfl, rfl⟩, rfl⟩

theorem bondR_keeps (h h' : HubSt) (e : HubEnv) (s : Addr) (f : List (Denom × Nat)) (ms : List Msg)
    (hx : h.bondR e s f = .ok (h', ms)) : KeepsClaims h h' := by
  obtain ⟨p, st, _, _, hst, _, hh⟩ := bondR_spec h h' e s f ms hx
  subst hh
  exact (actualState_keeps h st e hst).trans ⟨⟨rfl, rfl, rfl, rfl, rfl, rfl, rfl⟩, rfl⟩

theorem convertSB_keeps (h h' : HubSt) (e : HubEnv) (a : Nat) (u : Addr) (ms : List Msg)
    (hx : h.convertSB e a u = .ok (h', ms)) : KeepsClaims h h' := by
  obtain ⟨st, _, _, _, _, _, hst, _, _, _, _, _, _, _, _, hh, _⟩ := convertSB_spec h h' e a u ms hx
  subst hh
  exact (actualState_keeps h st e hst).trans ⟨⟨rfl, rfl, rfl, rfl, rfl, rfl, rfl⟩, rfl⟩

theorem convertBS_keeps (h h' : HubSt) (e : HubEnv) (a : Nat) (u : Addr) (ms : List Msg)
    (hx : h.convertBS e a u = .ok (h', ms)) : KeepsClaims h h' := by
  obtain ⟨st, _, _, _, _, _, hst, _, _, _, _, _, _, _, _, hh, _⟩ := convertBS_spec h h' e a u ms hx
  subst hh
  exact (actualState_keeps h st e hst).trans ⟨⟨rfl, rfl, rfl, rfl, rfl, rfl, rfl⟩, rfl⟩

theorem updateGlobal_keeps (h h' : HubSt) (e : HubEnv) (s : Addr) (ms : List Msg)
    (hx : h.updateGlobal e s = .ok (h', ms)) : KeepsClaims h h' := by
  unfold updateGlobal at hx
  exc_norm at hx
  exc_split at hx
  all_goals exact ⟨⟨rfl, rfl, rfl, rfl, rfl, rfl, rfl⟩, rfl⟩

theorem updateParams_keeps (h h' : HubSt) (s : Addr) (a b c d : Option Nat) (p : Option Bool) (r : Option Denom)
    (hx : h.updateParams s a b c d p r = .ok h') : KeepsClaims h h' := by
  unfold updateParams at hx
  exc_norm at hx
  exc_split at hx
  all_goals exact ⟨⟨rfl, rfl, rfl, rfl, rfl, rfl, rfl⟩, rfl⟩

theorem updateConfig_keeps (h h' : HubSt) (self s : Addr) (a b c d f g u : Option Addr) (ms : List Msg)
    (hx : h.updateConfig self s a b c d f g u = .ok (h', ms)) : KeepsClaims h h' := by
  unfold updateConfig at hx
  exc_norm at hx
  exc_split at hx
  all_goals exact ⟨⟨rfl, rfl, rfl, rfl, rfl, rfl, rfl⟩, rfl⟩

theorem delWait_fold_legacy (ids : List Nat) (u : Addr) (h : HubSt) :
    (ids.foldl (fun hh i => hh.delWait u i) h).legacy = h.legacy := by
  induction ids generalizing h with
  | nil => rfl
  | cons b bs ih => simp only [List.foldl_cons]; rw [ih]; rfl

theorem processWithdrawRate_legacy (h h' : HubSt) (c b : Nat) (hx : h.processWithdrawRate c b = .ok h') :
    h'.legacy = h.legacy := by
  unfold processWithdrawRate at hx
  simp only [] at hx
  exc_split at hx
  all_goals rfl

theorem processUndelegations_legacy (h h' : HubSt) (e : HubEnv) (ms : List Msg)
    (hx : h.processUndelegations e = .ok (h', ms)) : h'.legacy = h.legacy := by
  unfold processUndelegations at hx; exc_split at hx; rfl

/-- **Every hub message.** Whatever message the hub accepts, from whomever, in a state whose claim
    bookkeeping is consistent (and whose pre-migration wait list is empty), the bookkeeping is
    consistent afterwards: the open batch's totals are the sums of its claims, every closed
    unreleased batch's recorded amounts are the sums of its claims, nothing is recorded for future
    batches. -/
theorem C07_hub_step (h h' : HubSt) (e : HubEnv) (sender : Addr) (funds : List (Denom × Nat))
    (m : HubMsg) (ms : List Msg) (inv : ClaimInv h) (hl : h.legacy = [])
    (hx : hubExec h e sender funds m = .ok (h', ms)) : ClaimInv h' ∧ h'.legacy = [] := by
  have keep : ∀ {x : HubSt}, KeepsClaims h x → ClaimInv x ∧ x.legacy = [] :=
    fun k => ⟨ClaimInv.of_same k.same inv, by rw [k.legacy]; exact hl⟩
  cases m with
  | migrateWaitList limit =>
    simp only [hubExec] at hx
    split at hx
    · injection hx with hx; injection hx with h1 _; subst h1
      have : h.migrate limit = h := by simp [migrate, hl]
      rw [this]; exact ⟨inv, hl⟩
    · cases hx
  | updateParams a b c d p r =>
    simp only [hubExec] at hx
    exc_norm at hx
    split at hx
    · cases hx
    · rename_i h1 hp
      injection hx with hx; injection hx with e1 _; subst e1
      exact keep (updateParams_keeps _ _ _ _ _ _ _ _ _ hp)
  | receive user amt hook =>
    simp only [hubExec] at hx
    split at hx
    · cases hx
    · exc_norm at hx
      split at hx
      · cases hx
      · rename_i bt hb
        split at hx
        · cases hx
        · rename_i stt hs
          cases hook with
          | other => simp only [] at hx; cases hx
          | convert =>
            simp only [] at hx
            split at hx
            · exact keep (convertBS_keeps _ _ _ _ _ _ hx)
            · split at hx
              · exact keep (convertSB_keeps _ _ _ _ _ _ hx)
              · cases hx
          | unbond =>
            simp only [] at hx
            split at hx
            · obtain ⟨st, supply, wf, tok, hst, _, _, _, _, _, hcase⟩ := unbondB_spec _ _ _ _ _ _ hx
              have k := actualState_keeps h st e hst
              have inv1 : ClaimInv st := ClaimInv.of_same k.same inv
              have c := C07_unbond_bsei_credits_sender_only st inv1 user supply amt wf
              have l1 : (st.afterUnbondB user supply amt wf).legacy = [] := by
                show st.legacy = []; rw [k.legacy]; exact hl
              rcases hcase with ⟨_, um, hp, _⟩ | ⟨_, hh, _⟩
              · exact ⟨C07_undelegation_keeps_claims _ _ _ _ c.1 hp,
                  by rw [processUndelegations_legacy _ _ _ _ hp]; exact l1⟩
              · subst hh; exact ⟨c.1, l1⟩
            · split at hx
              · obtain ⟨st, tok, hst, _, _, hcase⟩ := unbondS_spec _ _ _ _ _ _ hx
                have k := actualState_keeps h st e hst
                have inv1 : ClaimInv st := ClaimInv.of_same k.same inv
                have c := C07_unbond_stsei_credits_sender_only st inv1 user amt
                have l1 : (st.afterUnbondS user amt).legacy = [] := by
                  show st.legacy = []; rw [k.legacy]; exact hl
                rcases hcase with ⟨_, um, hp, _⟩ | ⟨_, hh, _⟩
                · exact ⟨C07_undelegation_keeps_claims _ _ _ _ c.1 hp,
                    by rw [processUndelegations_legacy _ _ _ _ hp]; exact l1⟩
                · subst hh; exact ⟨c.1, l1⟩
              · cases hx
  | bond => simp only [hubExec] at hx; split at hx; · cases hx
            · exact keep (bondB_keeps _ _ _ _ _ _ hx)
  | bondForStSei => simp only [hubExec] at hx; split at hx; · cases hx
                    · exact keep (bondS_keeps _ _ _ _ _ _ hx)
  | bondRewards => simp only [hubExec] at hx; split at hx; · cases hx
                   · exact keep (bondR_keeps _ _ _ _ _ _ hx)
  | updateGlobalIndex => simp only [hubExec] at hx; split at hx; · cases hx
                         · exact keep (updateGlobal_keeps _ _ _ _ _ hx)
  | withdrawUnbonded =>
    simp only [hubExec] at hx
    split at hx
    · cases hx
    · have w := C07_withdraw_step h h' e sender ms inv hx
      obtain ⟨_, h1, hp, _, _, hh, _⟩ := withdraw_spec h h' e sender ms hx
      refine ⟨w.1, ?_⟩
      subst hh
      show (List.foldl (fun hh i => hh.delWait sender i) h1 (h1.finished sender).2).legacy = []
      rw [delWait_fold_legacy, processWithdrawRate_legacy _ _ _ _ hp]; exact hl
  | checkSlashing =>
    simp only [hubExec] at hx
    split at hx
    · cases hx
    · exc_norm at hx
      split at hx
      · cases hx
      · rename_i st hst
        injection hx with hx; injection hx with e1 _; subst e1
        exact keep (actualState_keeps _ _ _ hst)
  | updateConfig a b c d f g u =>
    simp only [hubExec] at hx; split at hx; · cases hx
    · exact keep (updateConfig_keeps _ _ _ _ _ _ _ _ _ _ _ _ hx)
  | setOwner a =>
    simp only [hubExec] at hx; exc_norm at hx; exc_split at hx
    exact keep ⟨⟨rfl, rfl, rfl, rfl, rfl, rfl, rfl⟩, rfl⟩
  | acceptOwnership =>
    simp only [hubExec] at hx; exc_norm at hx; exc_split at hx
    exact keep ⟨⟨rfl, rfl, rfl, rfl, rfl, rfl, rfl⟩, rfl⟩
  | swapHook =>
    simp only [hubExec] at hx; exc_norm at hx; exc_split at hx
    exact ⟨inv, hl⟩
  | claimAirdrop =>
    simp only [hubExec] at hx; exc_norm at hx; exc_split at hx
    exact ⟨inv, hl⟩
  | redelegateProxy src plan =>
    simp only [hubExec] at hx; exc_norm at hx; exc_split at hx
    exact ⟨inv, hl⟩

/-- **Every reachable state.** From any state with consistent claim bookkeeping (the instantiated
    hub: `C07_init`), after any history of any length in which no pre-migration entries are
    injected, the bookkeeping is consistent. -/
theorem C07_reachable (s : Sys) (l : List Step) (inv : ClaimInv s.hub) (hl : s.hub.legacy = [])
    (hnl : ∀ u b a, Step.env (.seedLegacy u b a) ∉ l) :
    ClaimInv (s.steps l).hub ∧ (s.steps l).hub.legacy = [] := by
  induction l generalizing s with
  | nil => exact ⟨inv, hl⟩
  | cons st rest ih =>
    have hrest : ∀ u b a, Step.env (.seedLegacy u b a) ∉ rest :=
      fun u b a hm => hnl u b a (List.mem_cons_of_mem _ hm)
    show ClaimInv ((s.step st).steps rest).hub ∧ ((s.step st).steps rest).hub.legacy = []
    have one : ClaimInv (s.step st).hub ∧ (s.step st).hub.legacy = [] := by
      cases st with
      | tx m =>
        exact exec_inv (fun x => ClaimInv x.hub ∧ x.hub.legacy = [])
          (by
            intro x m' x' ms hp hx
            cases handle_touch x x' m' ms hx with
            | none h _ _ _ => rw [h.hub]; exact hp
            | hub s1 sender funds hm _ _ _ _ hx' b t r d g => exact C07_hub_step _ _ _ _ _ _ _ hp.1 hp.2 hx'
            | bsei s1 sender funds tm _ _ hx' h t r d g => rw [h]; exact hp
            | stsei blk sender funds tm _ hx' h b r d g => rw [h]; exact hp
            | reward s1 sender funds rm _ _ _ _ hx' h b t d g => rw [h]; exact hp
            | disp env sender funds dm _ _ _ hx' h b t r g => rw [h]; exact hp
            | reg s1 sender funds rm _ h1 _ _ hx' h b t r d => rw [h]; exact hp)
          s m ⟨inv, hl⟩
      | env e =>
        have hne : ∀ u b a, e ≠ .seedLegacy u b a := by
          intro u b a he; subst he; exact hnl u b a (List.mem_cons_self ..)
        have sc := env_same s e hne
        show ClaimInv (s.env e).hub ∧ (s.env e).hub.legacy = []
        rw [sc.hub]; exact ⟨inv, hl⟩
    exact ih (s.step st) one.1 one.2 hrest

/-! Non-vacuity of `C07_reachable`: the genesis state. -/
example : ClaimInv genesisSys.hub ∧ genesisSys.hub.legacy = [] :=
  ⟨ClaimInv.of_same (h := (hubInit 1 0 30 100 0 D 1 3).toOption.getD default) ⟨rfl, rfl, rfl, rfl, rfl, rfl, rfl⟩
    (C07_init 1 0 30 100 0 D 1 3 _ rfl), rfl⟩


/-! ### the AllHistory read path -/

/-- ids on a page ascend strictly -/
theorem allHistory_sorted (h : HubSt) (start limit : Option Nat) :
    (h.allHistory start limit).Pairwise (fun p q => p.1 < q.1) := by
  unfold HubSt.allHistory
  apply List.Pairwise.sublist (List.take_sublist _ _)
  rw [List.pairwise_filterMap]
  apply List.Pairwise.imp _ (List.Pairwise.filter _ (List.pairwise_lt_range (n := h.batchId + 1)))
  intro a b hab p hp q hq
  cases ha : h.hist a with
  | none => rw [ha] at hp; cases hp
  | some x =>
    cases hb : h.hist b with
    | none => rw [hb] at hq; cases hq
    | some y =>
      rw [ha] at hp; rw [hb] at hq
      simp only [Option.map_some, Option.mem_def, Option.some.injEq] at hp hq
      subst hp; subst hq; exact hab

/-- **AllHistory reports faithfully (soundness).** Every entry on a page is a stored history entry,
    reported under its own batch id with exactly the stored fields, and lies above `start_from`. -/
theorem C07_allHistory_faithful (h : HubSt) (start limit : Option Nat) (i : Nat) (x : History)
    (hm : (i, x) ∈ h.allHistory start limit) :
    h.hist i = some x ∧ i ≤ h.batchId ∧ (∀ s, start = some s → s < i) := by
  unfold HubSt.allHistory at hm
  have hm' := List.mem_of_mem_take hm
  rw [List.mem_filterMap] at hm'
  obtain ⟨j, hj, hjx⟩ := hm'
  rw [List.mem_filter, List.mem_range] at hj
  cases hh : h.hist j with
  | none => rw [hh] at hjx; cases hjx
  | some y =>
    rw [hh] at hjx
    simp only [Option.map_some, Option.some.injEq, Prod.mk.injEq] at hjx
    obtain ⟨rfl, rfl⟩ := hjx
    refine ⟨hh, by omega, ?_⟩
    intro s hs; subst hs
    simpa [aboveStart] using hj.2

/-- a sorted list cut by `take`: what is missing lies after a full page -/
theorem take_sorted_miss {α : Type} (key : α → Nat) (l : List α) (n : Nat)
    (hs : l.Pairwise (fun p q => key p < key q)) (a : α) (ha : a ∈ l) (hn : a ∉ l.take n) :
    (l.take n).length = n ∧ ∀ p ∈ l.take n, key p < key a := by
  have hsplit : l.take n ++ l.drop n = l := List.take_append_drop n l
  have hd : a ∈ l.drop n := by
    rw [← hsplit, List.mem_append] at ha
    cases ha with
    | inl h => exact absurd h hn
    | inr h => exact h
  constructor
  · rw [List.length_take]
    have : n < l.length := by
      apply Nat.lt_of_not_le
      intro hc
      rw [List.drop_eq_nil_of_le hc] at hd
      cases hd
    omega
  · intro p hp
    rw [← hsplit, List.pairwise_append] at hs
    exact hs.2.2 p hp a hd

/-- **AllHistory reports faithfully (completeness).** A stored entry above `start_from` is on the
    page, unless the page is full (`min (limit or 10) 100` entries) and ends before it — so a
    reader who pages with `start_from :=` the last id seen, from any starting point that is not
    above an entry, sees every stored entry exactly once and in order. -/
theorem C07_allHistory_complete (h : HubSt) (start limit : Option Nat) (i : Nat) (x : History)
    (hx : h.hist i = some x) (hi : i ≤ h.batchId) (hs : ∀ s, start = some s → s < i) :
    (i, x) ∈ h.allHistory start limit ∨
    ((h.allHistory start limit).length = min (limit.getD 10) 100 ∧
      ∀ p ∈ h.allHistory start limit, p.1 < i) := by
  by_cases hm : (i, x) ∈ h.allHistory start limit
  · exact Or.inl hm
  · right
    have hsorted : (((List.range (h.batchId + 1)).filter (aboveStart start)).filterMap (fun i => (h.hist i).map (fun x => (i, x)))).Pairwise
        (fun p q => p.1 < q.1) := by
      rw [List.pairwise_filterMap]
      apply List.Pairwise.imp _ (List.Pairwise.filter _ (List.pairwise_lt_range (n := h.batchId + 1)))
      intro a b hab p hp q hq
      cases ha : h.hist a with
      | none => rw [ha] at hp; cases hp
      | some x =>
        cases hb : h.hist b with
        | none => rw [hb] at hq; cases hq
        | some y =>
          rw [ha] at hp; rw [hb] at hq
          simp only [Option.map_some, Option.mem_def, Option.some.injEq] at hp hq
          subst hp; subst hq; exact hab
    have hin : (i, x) ∈ ((List.range (h.batchId + 1)).filter (aboveStart start)).filterMap (fun i => (h.hist i).map (fun x => (i, x))) := by
      rw [List.mem_filterMap]
      refine ⟨i, ?_, by rw [hx]; rfl⟩
      rw [List.mem_filter, List.mem_range]
      refine ⟨by omega, ?_⟩
      cases start with
      | none => rfl
      | some s => simpa [aboveStart] using hs s rfl
    unfold HubSt.allHistory at hm ⊢
    exact take_sorted_miss (fun p => p.1) _ _ hsorted (i, x) hin hm

theorem filterMap_filter_congr {α β : Type} (f : α → Option β) (p q : α → Bool) (l : List α)
    (hpq : ∀ a ∈ l, f a ≠ none → p a = q a) :
    (l.filter p).filterMap f = (l.filter q).filterMap f := by
  induction l with
  | nil => rfl
  | cons a l ih =>
    have ih' := ih (fun b hb => hpq b (List.mem_cons_of_mem _ hb))
    cases hf : f a with
    | none =>
      rw [List.filter_cons, List.filter_cons]
      cases p a <;> cases q a <;> simp [List.filterMap_cons, hf, ih']
    | some y =>
      have := hpq a (List.mem_cons_self ..) (by rw [hf]; exact fun h => nomatch h)
      rw [List.filter_cons, List.filter_cons, this]
      cases q a <;> simp [List.filterMap_cons, hf, ih']

/-- the first page from the start (`start_from` omitted or 0 — batch ids begin at 1) begins with the
    oldest stored entry: nothing is skipped at the front -/
theorem C07_allHistory_from_zero (h : HubSt) (limit : Option Nat) (hz : h.hist 0 = none) :
    h.allHistory (some 0) limit = h.allHistory none limit := by
  unfold HubSt.allHistory
  congr 1
  apply filterMap_filter_congr
  intro a _ hne
  cases a with
  | zero => rw [hz] at hne; exact absurd rfl hne
  | succ n => simp [HubSt.aboveStart]

end Krp
