/-
  C09 — Holders can always exit; exits do not depend on the reward plumbing.

  (i)  liveness of the hub side of an unbond, fault point by fault point, from explicit premises
       (each is an invariant established elsewhere: C02 books ≤ delegations, C03 true-ratio rates,
       C08 monotone time, E3 registrations);
  (ii) the first unbond after the epoch undelegates (C08_undelegation_only_after_epoch);
  (iii) withdrawal after the unbonding period: C01 (funded, under C01's side condition);
  (iv) non-interference: the handlers on the exit paths read nothing of the swap / oracle state.
  PARTIAL: (i) is proved for the hub handler given its premises; the token-side faults (balance,
  mirror decrease) are C18 / C16; the composed system-level statement is not a single theorem.
-/
import Krp.Props.C08
import Krp.Props.C04
import Krp.Props.C12
namespace Krp
open HubSt

/-- the value undelegated for a pool never exceeds its booked stake when the rate is a true ratio
    (so the `checked_sub` in process_undelegations cannot fail) -/
theorem C09_undelegation_within_books (r B S R : Nat) (h : r * (S + R) ≤ B * D) : mulDec R r ≤ B := by
  unfold mulDec
  apply Nat.div_le_of_le_mul
  rw [Nat.mul_comm D]
  refine Nat.le_trans ?_ h
  rw [Nat.mul_comm]
  exact Nat.mul_le_mul_left _ (by omega)

/-- `pick_validator` succeeds whenever something is delegated and the claim does not exceed it -/
theorem C09_pick_validator_live (e : HubEnv) (claim : Nat) (hd : e.delegations ≠ [])
    (hle : claim ≤ (e.delegations.map (·.2)).sum) (hr : (e.delegations.map (·.2)).sum < U128) :
    ∃ ms, pickValidator e claim = .ok ms := by
  have hperm : ∀ l : List (Addr × Nat), ((sortDesc l).map (·.2)).sum = (l.map (·.2)).sum ∧ ((sortDesc l) = [] ↔ l = []) := by
    intro l
    have ins : ∀ (x : Addr × Nat) (m : List (Addr × Nat)), ((insDesc x m).map (·.2)).sum = x.2 + (m.map (·.2)).sum ∧ insDesc x m ≠ [] := by
      intro x m
      induction m with
      | nil => simp [insDesc]
      | cons y ys ih =>
        simp only [insDesc]
        split
        · simp
        · simp only [List.map_cons, List.sum_cons, ih.1]; constructor
          · omega
          · simp
    induction l with
    | nil => simp [sortDesc]
    | cons x xs ih =>
      simp only [sortDesc, List.foldr_cons] at ih ⊢
      constructor
      · rw [(ins x _).1, ih.1]; simp
      · constructor
        · intro h; exact absurd h (ins x _).2
        · intro h; cases h
  unfold pickValidator
  simp only []
  have hs := (hperm e.delegations).1
  have hne : sortDesc e.delegations ≠ [] := fun h => hd ((hperm e.delegations).2.mp h)
  cases hc : calculateUndelegations 1 claim ((sortDesc e.delegations).map (·.2)) with
  | some plan => exact ⟨_, rfl⟩
  | none =>
    have := (C12_undeleg_fails_iff 0 claim _).mp hc
    rcases this with h | h | h
    · exact absurd (List.map_eq_nil_iff.mp h) hne
    · omega
    · omega

/-- (i) stSei unbond at the hub cannot fail when: the slashing check succeeds, time does not run
    backwards, the stSei token is registered, and — if this unbond closes the batch — something is
    delegated, the two undelegation values fit the books (C09_undelegation_within_books) and
    together do not exceed the delegations (C02). -/
theorem C09_unbond_stsei_live (h st : HubSt) (e : HubEnv) (amount : Nat) (user tok : Addr)
    (hst : h.actualState e = .ok st) (htime : st.lastUnbondedTime ≤ e.now) (htok : h.stsei = some tok)
    (hund : e.now - st.lastUnbondedTime > st.epoch →
      e.delegations ≠ [] ∧ (e.delegations.map (·.2)).sum < U128 ∧
      mulDec (st.reqS + amount) st.sRate ≤ st.sBond ∧ mulDec st.reqB st.bRate ≤ st.bBond ∧
      mulDec st.reqB st.bRate + mulDec (st.reqS + amount) st.sRate ≤ (e.delegations.map (·.2)).sum) :
    ∃ h' ms, h.unbondS e amount user = .ok (h', ms) := by
  unfold unbondS
  simp only [hst, htok]
  rw [if_neg (by omega)]
  by_cases hep : e.now - st.lastUnbondedTime > st.epoch
  · rw [if_pos hep]
    obtain ⟨hd, hr, hs, hb, hsum⟩ := hund hep
    unfold processUndelegations
    obtain ⟨pm, hpm⟩ := C09_pick_validator_live e _ hd hsum hr
    have e1 : (st.afterUnbondS user amount).reqS = st.reqS + amount := rfl
    have e2 : (st.afterUnbondS user amount).reqB = st.reqB := rfl
    have e3 : (st.afterUnbondS user amount).sRate = st.sRate := rfl
    have e4 : (st.afterUnbondS user amount).bRate = st.bRate := rfl
    have e5 : (st.afterUnbondS user amount).sBond = st.sBond := rfl
    have e6 : (st.afterUnbondS user amount).bBond = st.bBond := rfl
    simp only [e1, e2, e3, e4, e5, e6, hpm]
    rw [if_neg (by omega), if_neg (by omega)]
    exact ⟨_, _, rfl⟩
  · rw [if_neg hep]; exact ⟨_, _, rfl⟩

/-- (iv) Non-interference: what the exit handlers read — the hub's environment, the block, the
    registered sibling addresses, bank balances — does not contain the oracle or swap state, so
    bond, unbond, convert, withdraw, token transfers and reward claims compute the same result
    whether those work, fail or return garbage. -/
theorem C09_exits_ignore_swap_and_oracle (s : Sys) (ook sok : Bool) (op sp : Nat) :
    let s' : Sys := { s with chain := { s.chain with oracleOk := ook, oraclePrice := op, swapOk := sok, swapP2 := sp } }
    s'.hubEnv.delegations = s.hubEnv.delegations ∧ s'.hubEnv.hubBalance = s.hubEnv.hubBalance ∧
    s'.hubEnv.now = s.hubEnv.now ∧ s'.block = s.block ∧ s'.bseiRewardAddr = s.bseiRewardAddr ∧
    s'.hubTokenOf = s.hubTokenOf ∧ s'.hubDispatcherOf = s.hubDispatcherOf ∧
    s'.chain.bank = s.chain.bank ∧ s'.hub = s.hub ∧ s'.bsei = s.bsei ∧ s'.stsei = s.stsei ∧
    s'.reward = s.reward ∧
    (∀ a, s'.supplyOf a = s.supplyOf a) ∧ (∀ a, s'.validatorsOf a = s.validatorsOf a) := by
  intro s'
  refine ⟨rfl, rfl, rfl, rfl, rfl, rfl, rfl, rfl, rfl, rfl, rfl, rfl, fun _ => rfl, fun _ => rfl⟩

/-- …consequently the hub executes every message identically under any swap / oracle behaviour. -/
theorem C09_hub_independent_of_stubs (s : Sys) (ook sok : Bool) (op sp : Nat) (sender : Addr)
    (funds : List (Denom × Nat)) (m : HubMsg) :
    hubExec ({ s with chain := { s.chain with oracleOk := ook, oraclePrice := op, swapOk := sok, swapP2 := sp } } : Sys).hub
      ({ s with chain := { s.chain with oracleOk := ook, oraclePrice := op, swapOk := sok, swapP2 := sp } } : Sys).hubEnv
      sender funds m = hubExec s.hub s.hubEnv sender funds m := rfl

example : mulDec 10 (9 * D / 10) ≤ 9 := by decide

end Krp
