/-
  C09 — Holders can always exit; exits do not depend on the reward plumbing.

  (i)  liveness of the hub side of an unbond, fault point by fault point, from explicit premises
       (each is an invariant established elsewhere: C02 books ≤ delegations, C03 true-ratio rates,
       C08 monotone time, E3 registrations);
  (ii) the first unbond after the epoch undelegates (C08_undelegation_only_after_epoch);
  (iii) withdrawal after the unbonding period: C01 (funded, under C01's side condition);
  (iv) non-interference: the handlers on the exit paths read nothing of the swap / oracle state.
  PARTIAL: (i) is proved for the hub handler given its premises; the token-side faults (balance,
  mirror decrease) are C18 / C16; the composed system-level statement is not a single theorem.
-/
import Krp.Props.C08
import Krp.Props.C01
import Krp.Props.C04
import Krp.Props.C12
import Krp.Props.C14
import Krp.Lemmas.Wiring
import Krp.Lemmas.Calm
import Krp.Lemmas.Cw20
namespace Krp
open HubSt

/-- the value undelegated for a pool never exceeds its booked stake when the rate is a true ratio
    (so the `checked_sub` in process_undelegations cannot fail) -/
theorem C09_undelegation_within_books (r B S R : Nat) (h : r * (S + R) ≤ B * D) : mulDec R r ≤ B := by
  unfold mulDec
  apply Nat.div_le_of_le_mul
  rw [Nat.mul_comm D]
  refine Nat.le_trans ?_ h
  rw [Nat.mul_comm]
  exact Nat.mul_le_mul_left _ (by omega)

/-- `pick_validator` succeeds whenever something is delegated and the claim does not exceed it -/
theorem C09_pick_validator_live (e : HubEnv) (claim : Nat) (hd : e.delegations ≠ [])
    (hle : claim ≤ (e.delegations.map (·.2)).sum) (hr : (e.delegations.map (·.2)).sum < U128) :
    ∃ ms, pickValidator e claim = .ok ms := by
  have hperm : ∀ l : List (Addr × Nat), ((sortDesc l).map (·.2)).sum = (l.map (·.2)).sum ∧ ((sortDesc l) = [] ↔ l = []) := by
    intro l
    have ins : ∀ (x : Addr × Nat) (m : List (Addr × Nat)), ((insDesc x m).map (·.2)).sum = x.2 + (m.map (·.2)).sum ∧ insDesc x m ≠ [] := by
      intro x m
      induction m with
      | nil => simp [insDesc]
      | cons y ys ih =>
        simp only [insDesc]
        split
        · simp
        · simp only [List.map_cons, List.sum_cons, ih.1]; constructor
          · omega
          · simp
    induction l with
    | nil => simp [sortDesc]
    | cons x xs ih =>
      simp only [sortDesc, List.foldr_cons] at ih ⊢
      constructor
      · rw [(ins x _).1, ih.1]; simp
      · constructor
        · intro h; exact absurd h (ins x _).2
        · intro h; cases h
  unfold pickValidator
  simp only []
  have hs := (hperm e.delegations).1
  have hne : sortDesc e.delegations ≠ [] := fun h => hd ((hperm e.delegations).2.mp h)
  cases hc : calculateUndelegations 1 claim ((sortDesc e.delegations).map (·.2)) with
  | some plan => exact ⟨_, rfl⟩
  | none =>
    have := (C12_undeleg_fails_iff 0 claim _).mp hc
    rcases this with h | h | h
    · exact absurd (List.map_eq_nil_iff.mp h) hne
    · omega
    · omega

/-- (i) stSei unbond at the hub cannot fail when: the slashing check succeeds, time does not run
    backwards, the stSei token is registered, and — if this unbond closes the batch — something is
    delegated, the two undelegation values fit the books (C09_undelegation_within_books) and
    together do not exceed the delegations (C02). -/
theorem C09_unbond_stsei_live (h st : HubSt) (e : HubEnv) (amount : Nat) (user tok : Addr)
    (hst : h.actualState e = .ok st) (htime : st.lastUnbondedTime ≤ e.now) (htok : h.stsei = some tok)
    (hund : e.now - st.lastUnbondedTime > st.epoch →
      e.delegations ≠ [] ∧ (e.delegations.map (·.2)).sum < U128 ∧
      mulDec (st.reqS + amount) st.sRate ≤ st.sBond ∧ mulDec st.reqB st.bRate ≤ st.bBond ∧
      mulDec st.reqB st.bRate + mulDec (st.reqS + amount) st.sRate ≤ (e.delegations.map (·.2)).sum) :
    ∃ h' ms, h.unbondS e amount user = .ok (h', ms) := by
  unfold unbondS
  simp only [hst, htok]
  rw [if_neg (by omega)]
  by_cases hep : e.now - st.lastUnbondedTime > st.epoch
  · rw [if_pos hep]
    obtain ⟨hd, hr, hs, hb, hsum⟩ := hund hep
    unfold processUndelegations
    obtain ⟨pm, hpm⟩ := C09_pick_validator_live e _ hd hsum hr
    have e1 : (st.afterUnbondS user amount).reqS = st.reqS + amount := rfl
    have e2 : (st.afterUnbondS user amount).reqB = st.reqB := rfl
    have e3 : (st.afterUnbondS user amount).sRate = st.sRate := rfl
    have e4 : (st.afterUnbondS user amount).bRate = st.bRate := rfl
    have e5 : (st.afterUnbondS user amount).sBond = st.sBond := rfl
    have e6 : (st.afterUnbondS user amount).bBond = st.bBond := rfl
    simp only [e1, e2, e3, e4, e5, e6, hpm]
    rw [if_neg (by omega), if_neg (by omega)]
    exact ⟨_, _, rfl⟩
  · rw [if_neg hep]; exact ⟨_, _, rfl⟩

/-- (iv) Non-interference: what the exit handlers read — the hub's environment, the block, the
    registered sibling addresses, bank balances — does not contain the oracle or swap state, so
    bond, unbond, convert, withdraw, token transfers and reward claims compute the same result
    whether those work, fail or return garbage. -/
theorem C09_exits_ignore_swap_and_oracle (s : Sys) (ook sok : Bool) (op sp : Nat) :
    let s' : Sys := { s with chain := { s.chain with oracleOk := ook, oraclePrice := op, swapOk := sok, swapP2 := sp } }
    s'.hubEnv.delegations = s.hubEnv.delegations ∧ s'.hubEnv.hubBalance = s.hubEnv.hubBalance ∧
    s'.hubEnv.now = s.hubEnv.now ∧ s'.block = s.block ∧ s'.bseiRewardAddr = s.bseiRewardAddr ∧
    s'.hubTokenOf = s.hubTokenOf ∧ s'.hubDispatcherOf = s.hubDispatcherOf ∧
    s'.chain.bank = s.chain.bank ∧ s'.hub = s.hub ∧ s'.bsei = s.bsei ∧ s'.stsei = s.stsei ∧
    s'.reward = s.reward ∧
    (∀ a, s'.supplyOf a = s.supplyOf a) ∧ (∀ a, s'.validatorsOf a = s.validatorsOf a) := by
  intro s'
  refine ⟨rfl, rfl, rfl, rfl, rfl, rfl, rfl, rfl, rfl, rfl, rfl, rfl, fun _ => rfl, fun _ => rfl⟩

/-- …consequently the hub executes every message identically under any swap / oracle behaviour. -/
theorem C09_hub_independent_of_stubs (s : Sys) (ook sok : Bool) (op sp : Nat) (sender : Addr)
    (funds : List (Denom × Nat)) (m : HubMsg) :
    hubExec ({ s with chain := { s.chain with oracleOk := ook, oraclePrice := op, swapOk := sok, swapP2 := sp } } : Sys).hub
      ({ s with chain := { s.chain with oracleOk := ook, oraclePrice := op, swapOk := sok, swapP2 := sp } } : Sys).hubEnv
      sender funds m = hubExec s.hub s.hubEnv sender funds m := rfl

example : mulDec 10 (9 * D / 10) ≤ 9 := by decide

/-! ### Non-interference, as whole transactions

  `withStubs s …` is `s` with the swap / oracle stubs set to arbitrary behaviour (working, failing,
  any price).  A transaction started by a calm message — every user-facing exit operation is one:
  Bond, BondForStSei, the cw20 Send/SendFrom that carries Unbond or Convert, WithdrawUnbonded,
  CheckSlashing, every token message, ClaimRewards — runs to exactly the same result, and the same
  final state of every contract, bank account, delegation and unbonding entry, whatever the stubs do. -/

def withStubs (s : Sys) (ook : Bool) (op : Nat) (sok : Bool) (sp : Nat) : Sys :=
  { s with chain := { s.chain with oracleOk := ook, oraclePrice := op, swapOk := sok, swapP2 := sp } }

theorem bankMove_stubs (s : Sys) (ook : Bool) (op : Nat) (sok : Bool) (sp : Nat) (src dst : Addr) (d : Denom) (amt : Nat) :
    (withStubs s ook op sok sp).bankMove src dst d amt =
      (s.bankMove src dst d amt).map (fun r => withStubs r ook op sok sp) := by
  unfold Sys.bankMove
  show (if amt = 0 then _ else if s.chain.bank src d < amt then _ else _) = _
  split
  · rfl
  · split
    · rfl
    · rfl

theorem moveFunds_stubs (ook : Bool) (op : Nat) (sok : Bool) (sp : Nat) (src dst : Addr) :
    ∀ (l : List (Denom × Nat)) (s : Sys), (withStubs s ook op sok sp).moveFunds src dst l =
      (s.moveFunds src dst l).map (fun r => withStubs r ook op sok sp) := by
  intro l
  induction l with
  | nil => intro s; rfl
  | cons c rest ih =>
    intro s
    obtain ⟨d, amt⟩ := c
    simp only [Sys.moveFunds]
    rw [bankMove_stubs]
    cases h : s.bankMove src dst d amt with
    | error e => rfl
    | ok s1 => simp only [Except.map]; exact ih s1

/-- dispatcher messages other than its swap do not look at the oracle or the swap simulation -/
theorem dispExec_env (c : DispSt) (self : Addr) (env env' : DispEnv) (sender : Addr) (m : DispMsg)
    (hb : env.bal = env'.bal) (hm : ∀ a b, m ≠ .swap a b) :
    dispExec c self env sender m = dispExec c self env' sender m := by
  cases m with
  | swap a b => exact absurd rfl (hm a b)
  | dispatch => simp only [dispExec, hb]
  | _ => rfl

/-- one message: same outcome, same emitted messages, same state up to the stubs -/
theorem handle_stubs (s : Sys) (ook : Bool) (op : Nat) (sok : Bool) (sp : Nat) (m : Msg) (hc : Calm m = true) :
    (withStubs s ook op sok sp).handle m =
      (s.handle m).map (fun r => (withStubs r.1 ook op sok sp, r.2)) := by
  cases m with
  | bankSend src dst d amt =>
    simp only [Sys.handle, bind, Except.bind, pure, Except.pure]
    rw [bankMove_stubs]
    cases s.bankMove src dst d amt <;> rfl
  | delegate who v amt =>
    simp only [Sys.handle, bind, Except.bind, pure, Except.pure, throw, throwThe, MonadExceptOf.throw, withStubs,
      Sys.setBank]
    repeat' split
    all_goals (repeat (first | rfl | simp only [*, if_true, if_false, Bool.false_eq_true, not_true_eq_false, not_false_eq_true] | split))
  | undelegate who v amt =>
    simp only [Sys.handle, bind, Except.bind, pure, Except.pure, throw, throwThe, MonadExceptOf.throw, withStubs,
      Sys.setBank]
    repeat' split
    all_goals (repeat (first | rfl | simp only [*, if_true, if_false, Bool.false_eq_true, not_true_eq_false, not_false_eq_true] | split))
  | redelegate who src dst amt =>
    simp only [Sys.handle, bind, Except.bind, pure, Except.pure, throw, throwThe, MonadExceptOf.throw, withStubs,
      Sys.setBank]
    repeat' split
    all_goals (repeat (first | rfl | simp only [*, if_true, if_false, Bool.false_eq_true, not_true_eq_false, not_false_eq_true] | split))
  | withdrawReward who v =>
    simp only [Sys.handle, bind, Except.bind, pure, Except.pure, throw, throwThe, MonadExceptOf.throw, withStubs,
      Sys.setBank]
    repeat' split
    all_goals (repeat (first | rfl | simp only [*, if_true, if_false, Bool.false_eq_true, not_true_eq_false, not_false_eq_true] | split))
  | setWithdrawAddr who a =>
    simp only [Sys.handle, bind, Except.bind, pure, Except.pure, throw, throwThe, MonadExceptOf.throw, withStubs,
      Sys.setBank]
    repeat' split
    all_goals (repeat (first | rfl | simp only [*, if_true, if_false, Bool.false_eq_true, not_true_eq_false, not_false_eq_true] | split))
  | wasm sender target call funds =>
    simp only [Sys.handle, bind, Except.bind, pure, Except.pure, throw, throwThe, MonadExceptOf.throw]
    rw [moveFunds_stubs]
    cases hmv : s.moveFunds sender target funds with
    | error e => rfl
    | ok s1 =>
      simp only [Except.map]
      by_cases t1 : target = hubA
      · simp only [t1, if_true]
        cases call with
        | hub hm =>
          simp only []
          have e : hubExec (withStubs s1 ook op sok sp).hub (withStubs s1 ook op sok sp).hubEnv sender funds hm =
              hubExec s1.hub s1.hubEnv sender funds hm := rfl
          rw [e]
          cases hubExec s1.hub s1.hubEnv sender funds hm <;> rfl
        | _ => rfl
      · simp only [t1, if_false]
        by_cases t2 : target = bseiA
        · simp only [t2, if_true]
          cases call with
          | tok tm =>
            simp only []
            have e : bseiExec (withStubs s1 ook op sok sp).bsei (withStubs s1 ook op sok sp).block bseiA
                (withStubs s1 ook op sok sp).bseiRewardAddr hubA sender tm =
                bseiExec s1.bsei s1.block bseiA s1.bseiRewardAddr hubA sender tm := rfl
            rw [e]
            cases bseiExec s1.bsei s1.block bseiA s1.bseiRewardAddr hubA sender tm <;> rfl
          | _ => rfl
        · simp only [t2, if_false]
          by_cases t3 : target = stseiA
          · simp only [t3, if_true]
            cases call with
            | tok tm =>
              simp only []
              have e : stseiExec (withStubs s1 ook op sok sp).stsei (withStubs s1 ook op sok sp).block stseiA hubA sender tm =
                  stseiExec s1.stsei s1.block stseiA hubA sender tm := rfl
              rw [e]
              cases stseiExec s1.stsei s1.block stseiA hubA sender tm <;> rfl
            | _ => rfl
          · simp only [t3, if_false]
            by_cases t4 : target = rewardA
            · simp only [t4, if_true]
              cases call with
              | reward rm =>
                simp only []
                have e : rewardExec (withStubs s1 ook op sok sp).reward rewardA
                    ((withStubs s1 ook op sok sp).hubTokenOf (withStubs s1 ook op sok sp).reward.hub)
                    ((withStubs s1 ook op sok sp).hubDispatcherOf (withStubs s1 ook op sok sp).reward.hub)
                    ((withStubs s1 ook op sok sp).chain.bank rewardA) sender rm =
                    rewardExec s1.reward rewardA (s1.hubTokenOf s1.reward.hub) (s1.hubDispatcherOf s1.reward.hub)
                      (s1.chain.bank rewardA) sender rm := rfl
                rw [e]
                cases rewardExec s1.reward rewardA (s1.hubTokenOf s1.reward.hub) (s1.hubDispatcherOf s1.reward.hub)
                  (s1.chain.bank rewardA) sender rm <;> rfl
              | _ => rfl
            · simp only [t4, if_false]
              by_cases t5 : target = dispA
              · simp only [t5, if_true]
                cases call with
                | disp dm =>
                  simp only []
                  have hdm : ∀ a b, dm ≠ .swap a b := by
                    intro a b h; subst h; simp [Calm] at hc
                  have e : dispExec (withStubs s1 ook op sok sp).disp dispA (withStubs s1 ook op sok sp).dispEnv sender dm =
                      dispExec s1.disp dispA s1.dispEnv sender dm :=
                    dispExec_env s1.disp dispA (withStubs s1 ook op sok sp).dispEnv s1.dispEnv sender dm rfl hdm
                  rw [e]
                  cases dispExec s1.disp dispA s1.dispEnv sender dm <;> rfl
                | _ => rfl
              · simp only [t5, if_false]
                by_cases t6 : target = regA
                · simp only [t6, if_true]
                  cases call with
                  | reg rm =>
                    simp only []
                    have : (withStubs s1 ook op sok sp).regExec sender rm = s1.regExec sender rm := by
                      cases rm <;> rfl
                    rw [this]
                    cases s1.regExec sender rm <;> rfl
                  | _ => rfl
                · simp only [t6, if_false]
                  by_cases t7 : target = swapA
                  · simp only [t7, if_true]
                    cases call with
                    | swapDenom a b c d => simp [Calm] at hc
                    | _ => rfl
                  · simp only [t7, if_false]
                    split <;> rfl

/-- the whole queue: same outcome, same state up to the stubs -/
theorem run_stubs (ook : Bool) (op : Nat) (sok : Bool) (sp : Nat) :
    ∀ (fuel : Nat) (s : Sys) (q : List Msg), AllCalm q →
      Sys.run fuel (withStubs s ook op sok sp) q = (Sys.run fuel s q).map (fun r => withStubs r ook op sok sp) := by
  intro fuel
  induction fuel with
  | zero =>
    intro s q _
    cases q <;> rfl
  | succ n ih =>
    intro s q hq
    cases q with
    | nil => rfl
    | cons m rest =>
      have hm : Calm m = true := hq m (List.mem_cons_self ..)
      simp only [Sys.run]
      rw [handle_stubs s ook op sok sp m hm]
      cases hh : s.handle m with
      | error e => rfl
      | ok r =>
        obtain ⟨s1, subs⟩ := r
        simp only [Except.map]
        apply ih
        intro x hx
        rcases List.mem_append.mp hx with h | h
        · exact handle_calm s s1 m subs hm hh x h
        · exact hq x (List.mem_cons_of_mem _ h)

/-- **Non-interference, as whole transactions.** For every state, every behaviour of the swap and
    oracle stubs, and every calm top-level message (all user-facing exit operations are calm), the
    transaction has the same outcome — success or the same failure — and leaves every contract, bank
    account, delegation, unbonding entry and pending reward exactly as it would with any other stub
    behaviour. -/
theorem C09_noninterference (s : Sys) (m : Msg) (hc : Calm m = true) (ook : Bool) (op : Nat) (sok : Bool) (sp : Nat) :
    ((withStubs s ook op sok sp).exec m).2 = (s.exec m).2 ∧
    ((withStubs s ook op sok sp).exec m).1 = withStubs (s.exec m).1 ook op sok sp := by
  unfold Sys.exec
  rw [run_stubs ook op sok sp 400 s [m] (by intro x hx; simp at hx; subst hx; exact hc)]
  cases Sys.run 400 s [m] with
  | error e => exact ⟨rfl, rfl⟩
  | ok r => exact ⟨rfl, rfl⟩

/-- the user-facing exit operations are calm, whoever sends them and whatever they carry -/
example (u : Addr) (f : List (Denom × Nat)) (a : Nat) (hook : Hook) (rc : Option Addr) :
    Calm (.wasm u hubA (.hub .bond) f) = true ∧ Calm (.wasm u hubA (.hub .bondForStSei) f) = true ∧
    Calm (.wasm u hubA (.hub .withdrawUnbonded) f) = true ∧ Calm (.wasm u hubA (.hub .checkSlashing) f) = true ∧
    Calm (.wasm u bseiA (.tok (.send hubA a hook)) f) = true ∧ Calm (.wasm u stseiA (.tok (.send hubA a hook)) f) = true ∧
    Calm (.wasm u bseiA (.tok (.transfer 6 a)) f) = true ∧ Calm (.wasm u rewardA (.reward (.claim rc)) f) = true :=
  ⟨rfl, rfl, rfl, rfl, rfl, rfl, rfl, rfl⟩

/-! ### Liveness, as a whole transaction (stSei unbond inside an epoch)

  The hub-side lemma above composed with the token side through the message executor, for the path
  that needs no invariant about delegations: an stSei holder unbonds while the epoch period has not
  yet passed (the request is recorded, the tokens burnt, the slashing check refreshed). -/

theorem mulDec_le_self (a r : Nat) (h : r ≤ D) : mulDec a r ≤ a := by
  unfold mulDec
  apply Nat.div_le_of_le_mul
  rw [Nat.mul_comm D]
  exact Nat.mul_le_mul_left _ h

theorem fromRatio_le_one (x y : Nat) (h : x ≤ y) : fromRatio x y ≤ D := by
  unfold fromRatio
  by_cases hy : y = 0
  · subst hy; simp
  · apply Nat.div_le_of_le_mul
    exact Nat.mul_le_mul_right _ h

/-- the slashing check cannot fail once both token contracts answer the supply query -/
theorem actualState_live (h : HubSt) (e : HubEnv) (bs ss : Nat)
    (hb : h.bSupplyQ e = .ok bs) (hs : h.sSupplyQ e = .ok ss) : ∃ st, h.actualState e = .ok st := by
  unfold actualState
  split
  · exact ⟨_, rfl⟩
  · split
    · exact ⟨_, rfl⟩
    · simp only [hb, hs, bind, Except.bind, pure, Except.pure, throw, throwThe, MonadExceptOf.throw]
      split
      · have : ¬ (e.delegations.map (·.2)).sum < mulDec (e.delegations.map (·.2)).sum (fromRatio h.bBond (h.bBond + h.sBond)) := by
          have := mulDec_le_self (e.delegations.map (·.2)).sum _ (fromRatio_le_one h.bBond (h.bBond + h.sBond) (by omega))
          omega
        rw [if_neg this]
        exact ⟨_, rfl⟩
      · exact ⟨_, rfl⟩

theorem C09_stsei_unbond_tx_succeeds (s : Sys) (u : Addr) (amt : Nat)
    (hp : s.hub.isPaused = false) (hbt : s.hub.bsei = some bseiA) (hst : s.hub.stsei = some stseiA)
    (hth : s.stsei.hub = hubA) (wf : s.stsei.WF) (hpos : 0 < amt) (hbal : amt ≤ s.stsei.bal u)
    (ht1 : s.hub.lastUnbondedTime ≤ s.chain.time)
    (ht2 : ¬ s.chain.time - s.hub.lastUnbondedTime > s.hub.epoch) :
    ∃ s', s.exec (.wasm u stseiA (.tok (.send hubA amt .unbond)) []) = (s', .ok ()) ∧
      s'.hub.waitS u s.hub.batchId = s.hub.waitS u s.hub.batchId + amt ∧
      s'.hub.reqS = s.hub.reqS + amt ∧ s'.stsei.supply + amt = s.stsei.supply := by
  -- 1. the token moves the tokens to the hub and notifies it
  obtain ⟨t1, ht1'⟩ : ∃ t, s.stsei.transfer u hubA amt = .ok t := by
    unfold Token.transfer Token.move
    rw [if_neg (by omega), if_neg (by omega)]
    exact ⟨_, rfl⟩
  have st1 := Token.transfer_step s.stsei t1 wf u hubA amt ht1'
  have hub1 : t1.hub = hubA := by rw [st1.1.hub]; exact hth
  have sup1 : t1.supply = s.stsei.supply := by have := st1.1.supply; omega
  have balh : amt ≤ t1.bal hubA := by
    unfold Token.transfer Token.move at ht1'
    rw [if_neg (by omega), if_neg (by omega)] at ht1'
    injection ht1' with ht1'; subst ht1'
    simp [Token.setBal, upd]
  obtain ⟨s1, hs1⟩ : ∃ x : Sys, x = { s with stsei := t1 } := ⟨_, rfl⟩
  have H1 : s.handle (.wasm u stseiA (.tok (.send hubA amt .unbond)) []) =
      .ok (s1, [Msg.wasm stseiA hubA (.hub (.receive u amt .unbond)) []]) := by
    simp only [Sys.handle, Sys.moveFunds, bind, Except.bind, pure, Except.pure]
    rw [if_neg (by decide), if_neg (by decide), if_pos trivial]
    simp only [stseiExec, bind, Except.bind, pure, Except.pure, ht1', receiveMsg, if_true, hs1]
  -- 2. the hub records the request
  have hb1 : s1.hub.bSupplyQ s1.hubEnv = .ok s1.bsei.supply := by
    rw [hs1]; simp only [HubSt.bSupplyQ, hbt]; rfl
  have hs1q : s1.hub.sSupplyQ s1.hubEnv = .ok s1.stsei.supply := by
    rw [hs1]; simp only [HubSt.sSupplyQ, hst]; rfl
  obtain ⟨st, hact⟩ := actualState_live s1.hub s1.hubEnv _ _ hb1 hs1q
  have sb := (actualState_spec s1.hub st s1.hubEnv hact).1
  have hubeq : s1.hub = s.hub := by rw [hs1]
  have timeq : s1.hubEnv.now = s.chain.time := by rw [hs1]; rfl
  have hun : s1.hub.unbondS s1.hubEnv amt u =
      .ok (st.afterUnbondS u amt, [HubSt.tokMsg hubA stseiA (.burn amt)]) := by
    unfold HubSt.unbondS
    simp only [hact]
    rw [if_neg (by rw [sb.lastUnb, hubeq, timeq]; omega)]
    simp only [hubeq, hst]
    rw [if_neg (by rw [sb.lastUnb, sb.epoch, hubeq, timeq]; exact ht2)]
    rfl
  obtain ⟨s2, hs2⟩ : ∃ x : Sys, x = { s1 with hub := st.afterUnbondS u amt } := ⟨_, rfl⟩
  have H2 : s1.handle (Msg.wasm stseiA hubA (.hub (.receive u amt .unbond)) []) =
      .ok (s2, [HubSt.tokMsg hubA stseiA (.burn amt)]) := by
    simp only [Sys.handle, Sys.moveFunds, bind, Except.bind, pure, Except.pure]
    rw [if_pos trivial]
    simp only [hubExec, hubeq, hp, Bool.false_eq_true, if_false, hbt, hst, bind, Except.bind, pure, Except.pure]
    rw [if_neg (by decide), if_pos trivial]
    rw [← hubeq, hun, hs2]
  -- 3. the hub burns what it received
  have hub2 : s2.stsei = t1 := by rw [hs2, hs1]
  have wf1 : t1.WF := st1.1.wf
  obtain ⟨t2, hb2⟩ : ∃ t, t1.burn hubA amt = .ok t := by
    unfold Token.burn
    have := Token.bal_le_supply t1 wf1 hubA
    rw [if_neg (by omega), if_neg (by omega), if_neg (by omega)]
    exact ⟨_, rfl⟩
  have sup2 : t2.supply + amt = s.stsei.supply := by
    unfold Token.burn at hb2
    have := Token.bal_le_supply t1 wf1 hubA
    rw [if_neg (by omega), if_neg (by omega), if_neg (by omega)] at hb2
    injection hb2 with hb2; subst hb2
    simp only []; omega
  obtain ⟨s3, hs3⟩ : ∃ x : Sys, x = { s2 with stsei := t2 } := ⟨_, rfl⟩
  have H3 : s2.handle (HubSt.tokMsg hubA stseiA (.burn amt)) =
      .ok (s3, [Msg.wasm stseiA hubA (.hub .checkSlashing) []]) := by
    simp only [HubSt.tokMsg, Sys.handle, Sys.moveFunds, bind, Except.bind, pure, Except.pure]
    rw [if_neg (by decide), if_neg (by decide), if_pos trivial]
    simp only [hub2, stseiExec, bind, Except.bind, pure, Except.pure, throw, throwThe, MonadExceptOf.throw, hub1]
    rw [if_neg (by simp)]
    simp only [hb2, hs3]
  -- 4. and refreshes its rates
  have hub3 : s3.hub = st.afterUnbondS u amt := by rw [hs3, hs2]
  have cfg3 : s3.hub.bsei = some bseiA ∧ s3.hub.stsei = some stseiA ∧ s3.hub.isPaused = false := by
    rw [hub3]
    refine ⟨?_, ?_, ?_⟩
    · show st.bsei = _; rw [sb.bsei, hubeq]; exact hbt
    · show st.stsei = _; rw [sb.stsei, hubeq]; exact hst
    · show st.isPaused = _
      unfold HubSt.isPaused at hp ⊢; rw [sb.paused, hubeq]; exact hp
  have hb3 : s3.hub.bSupplyQ s3.hubEnv = .ok s3.bsei.supply := by
    simp only [HubSt.bSupplyQ, cfg3.1]; rfl
  have hs3q : s3.hub.sSupplyQ s3.hubEnv = .ok s3.stsei.supply := by
    simp only [HubSt.sSupplyQ, cfg3.2.1]; rfl
  obtain ⟨st', hact'⟩ := actualState_live s3.hub s3.hubEnv _ _ hb3 hs3q
  obtain ⟨s4, hs4⟩ : ∃ x : Sys, x = { s3 with hub := st' } := ⟨_, rfl⟩
  have H4 : s3.handle (Msg.wasm stseiA hubA (.hub .checkSlashing) []) = .ok (s4, []) := by
    simp only [Sys.handle, Sys.moveFunds, bind, Except.bind, pure, Except.pure]
    rw [if_pos trivial]
    simp only [hubExec, cfg3.2.2, Bool.false_eq_true, if_false, bind, Except.bind, pure, Except.pure, hact', hs4]
  have sb' := (actualState_spec s3.hub st' s3.hubEnv hact').1
  refine ⟨s4, ?_, ?_, ?_, ?_⟩
  · unfold Sys.exec
    simp only [Sys.run, H1, H2, H3, H4, List.nil_append, List.append_nil, List.singleton_append]
  · rw [hs4]; show st'.waitS u s.hub.batchId = _
    rw [sb'.waitS, hub3]
    show (st.addWait u st.batchId 0 amt).waitS u s.hub.batchId = _
    rw [sb.batchId, hubeq]
    simp [HubSt.addWait, upd, sb.waitS, hubeq]
  · rw [hs4]; show st'.reqS = _
    rw [sb'.reqS, hub3]; show st.reqS + amt = _; rw [sb.reqS, hubeq]
  · rw [hs4]; show s3.stsei.supply + amt = _; rw [hs3]; exact sup2


/-! ### once the unbonding period has passed, WithdrawUnbonded succeeds — as a whole transaction,
    in every state reached without slashing of the unbonding stake -/

theorem processWithdrawRate_ok (h : HubSt) (cutoff bal : Nat) (hP : h.prevHubBalance ≤ bal) :
    ∃ h1, h.processWithdrawRate cutoff bal = .ok h1 := by
  unfold HubSt.processWithdrawRate
  simp only []
  split
  · exact ⟨_, rfl⟩
  · have : (signedSub bal h.prevHubBalance).2 = false := by
      unfold signedSub; rw [if_neg (by omega)]
    rw [this]
    exact ⟨_, rfl⟩

/-- **A holder whose matured claims are worth at least one base unit can withdraw them — the whole
    transaction succeeds and pays exactly the released share.** `FullQ s []` is what
    `C01_funded_reachable_unslashed` establishes for every state reached without slashing of the
    unbonding stake (released claims funded, arrivals accounted for, history in shape); E2, E1 and
    `now ≥ unbonding_period` are the envelope. `h1` is the hub state after the release the
    withdrawal performs (`process_withdraw_rate` at the current time and balance), which always
    exists in such a state. -/
theorem C09_matured_withdraw_tx_succeeds (s : Sys) (u : Addr) (inv : FullQ s [])
    (hp : s.hub.isPaused = false) (hu : u ≠ hubA)
    (he2 : s.hub.unbonding = s.chain.unbondingTime)
    (he1 : s.chain.bank hubA 0 - s.hub.prevHubBalance ≤ D)
    (hnow : s.hub.unbonding ≤ s.chain.time) :
    ∃ h1, s.hub.processWithdrawRate (s.chain.time - s.hub.unbonding) (s.chain.bank hubA 0) = .ok h1 ∧
      (1 ≤ (h1.finished u).1 →
        ∃ s', s.exec (.wasm u hubA (.hub .withdrawUnbonded) []) = (s', .ok ()) ∧
          s'.chain.bank u 0 = s.chain.bank u 0 + (h1.finished u).1 ∧
          (s'.hub.finished u).1 = 0) := by
  -- prev_hub_balance is in the account
  obtain ⟨A, rst, hq, _, _, hle⟩ := inv.arr.split
  have hA : A = [] := by
    cases A with
    | nil => rfl
    | cons p t => simp only [List.cons_append] at hq; cases hq
  subst hA
  have hP : s.hub.prevHubBalance ≤ s.chain.bank hubA 0 := by
    have : s.hub.prevHubBalance + maturedSum s.hub s.chain.unbondingTime s.chain.time ≤ s.chain.bank hubA 0 := by
      simpa [hubOutAll] using hle
    omega
  obtain ⟨h1, hrel⟩ := processWithdrawRate_ok s.hub (s.chain.time - s.hub.unbonding) (s.chain.bank hubA 0) hP
  refine ⟨h1, hrel, fun hpos => ?_⟩
  -- the release meets the side condition (arrivals are accounted for)
  have hm : (Msg.wasm u hubA (.hub .withdrawUnbonded) []).sentFrom ≠ hubA := hu
  have inv1 := FullQ.push s _ inv hm
  have hok : WdOk s (.wasm u hubA (.hub .withdrawUnbonded) []) := by
    intro sender funds s1 heq hmv
    injection heq with e1 _ _ e4
    subst e1; subst e4
    simp only [Sys.moveFunds] at hmv
    injection hmv with hmv; subst hmv
    exact ⟨he2, he1⟩
  have hsafe := SafeTop.of_arrive s _ [] inv1.arr inv1.hist hok hm u [] s rfl rfl hnow
  -- the handler accepts …
  obtain ⟨h', ms, hw⟩ := C01_withdraw_succeeds s.hub h1 s.hubEnv u inv.fund.claims inv.fund.funded hP
    hsafe hnow hrel hpos
  -- … and the payout goes through
  obtain ⟨s', amt, hex, hms, _, _, hbu, hh, _⟩ := C01_withdraw_tx_pays s u h' ms hp hu hw
  have pr := C01_pays_recorded_share s.hub h' s.hubEnv u ms hw
  obtain ⟨h1', hrel', _, _, hms', _, _⟩ := pr
  have e1 : h1' = h1 := by
    have : (Except.ok h1' : Res HubSt) = .ok h1 := by rw [← hrel', ← hrel]; rfl
    injection this
  subst e1
  have eamt : amt = (h1'.finished u).1 := by
    rw [hms'] at hms
    injection hms with hms _
    injection hms with _ _ _ ha
    exact ha.symm
  refine ⟨s', hex, by rw [hbu, eamt], ?_⟩
  rw [hh]
  exact (C01_paid_once s.hub h' s.hubEnv u ms hw).2


/-! ### the unbond that closes the batch: the Undelegate messages go through on the chain -/

/-- the Undelegate messages of a plan that asks no validator for more than it holds are all
    accepted by the staking module; they change nothing but delegations and the unbonding queue -/
theorem run_undelegates : ∀ (vs : List (Addr × Nat)) (ps : List Nat) (s : Sys) (rest : List Msg),
    (vs.map (·.1)).Nodup → (∀ x ∈ vs, s.chain.deleg x.1 = x.2) →
    (∀ j, nth ps j ≤ nth (vs.map (·.2)) j) → (∀ v, s.chain.noUndelegate v = false) →
    ∃ k s', k ≤ vs.length ∧ SameContracts s s' ∧ s'.chain.time = s.chain.time ∧ s'.chain.height = s.chain.height ∧
      s'.chain.bank = s.chain.bank ∧
      ∀ n, Sys.run (n + k) s (zipMsgs (fun v p => Msg.undelegate hubA v p) vs ps ++ rest) = Sys.run n s' rest := by
  intro vs
  induction vs with
  | nil =>
    intro ps s rest _ _ _ _
    exact ⟨0, s, Nat.le_refl _, SameContracts.refl s, rfl, rfl, rfl, fun n => by simp [zipMsgs]⟩
  | cons x vs ih =>
    intro ps s rest hnd hd hle hnu
    obtain ⟨v, d⟩ := x
    cases ps with
    | nil => exact ⟨0, s, Nat.zero_le _, SameContracts.refl s, rfl, rfl, rfl, fun n => by simp [zipMsgs]⟩
    | cons p ps =>
      have hnd' : v ∉ vs.map (·.1) ∧ (vs.map (·.1)).Nodup := by
        have : (v :: vs.map (·.1)).Nodup := hnd
        exact List.nodup_cons.mp this
      have hle' : ∀ j, nth ps j ≤ nth (vs.map (·.2)) j := fun j => by
        have := hle (j + 1); simpa [nth] using this
      have hp : p ≤ d := by have := hle 0; simpa [nth] using this
      have hdv : s.chain.deleg v = d := hd (v, d) (List.mem_cons_self ..)
      by_cases hp0 : p = 0
      · -- nothing asked of this validator: no message
        obtain ⟨k, s', hk, sc, ht, hh, hb, hrun⟩ := ih ps s rest hnd'.2
          (fun y hy => hd y (List.mem_cons_of_mem _ hy)) hle' hnu
        refine ⟨k, s', by simp; omega, sc, ht, hh, hb, fun n => ?_⟩
        simp only [zipMsgs, hp0, if_true, List.nil_append]
        exact hrun n
      · obtain ⟨s1, hs1⟩ : ∃ y : Sys, y = { s with chain := { s.chain with
            deleg := upd s.chain.deleg v (s.chain.deleg v - p),
            delegSet := upd s.chain.delegSet v (decide (s.chain.deleg v - p > 0)),
            unbondingQ := s.chain.unbondingQ ++ [(v, p, s.chain.time + s.chain.unbondingTime)] } } := ⟨_, rfl⟩
        have H : s.handle (Msg.undelegate hubA v p) = .ok (s1, []) := by
          simp only [Sys.handle, bind, Except.bind, pure, Except.pure]
          rw [if_neg (by simp), if_neg hp0, if_neg (by omega), if_neg (by rw [hnu v]; simp), hs1]
        obtain ⟨k, s', hk, sc, ht, hh, hb, hrun⟩ := ih ps s1 rest hnd'.2
          (fun y hy => by
            have hne : y.1 ≠ v := fun e => hnd'.1 (by
              have : y.1 ∈ vs.map (·.1) := List.mem_map.mpr ⟨y, hy, rfl⟩
              rw [e] at this; exact this)
            rw [hs1]; simp only [upd, hne, if_false]
            exact hd y (List.mem_cons_of_mem _ hy)) hle' (by rw [hs1]; exact hnu)
        have sc1 : SameContracts s s1 := by rw [hs1]; exact ⟨rfl, rfl, rfl, rfl, rfl, rfl⟩
        refine ⟨k + 1, s', by simp; omega, sc1.trans sc, by rw [ht, hs1], by rw [hh, hs1], by rw [hb, hs1], fun n => ?_⟩
        simp only [zipMsgs, hp0, if_false, List.cons_append]
        have e : n + (k + 1) = (n + k) + 1 := by omega
        rw [e]
        simp only [Sys.run, H, List.nil_append]
        exact hrun n

theorem mem_insDesc (x y : Addr × Nat) (l : List (Addr × Nat)) : y ∈ insDesc x l ↔ y = x ∨ y ∈ l := by
  induction l with
  | nil => simp [insDesc]
  | cons z zs ih =>
    simp only [insDesc]
    split
    · simp
    · simp only [List.mem_cons, ih]
      constructor
      · rintro (h | h | h)
        · exact Or.inr (Or.inl h)
        · exact Or.inl h
        · exact Or.inr (Or.inr h)
      · rintro (h | h | h)
        · exact Or.inr (Or.inl h)
        · exact Or.inl h
        · exact Or.inr (Or.inr h)

theorem mem_sortDesc (y : Addr × Nat) (l : List (Addr × Nat)) : y ∈ sortDesc l ↔ y ∈ l := by
  induction l with
  | nil => simp [sortDesc]
  | cons x xs ih =>
    have : sortDesc (x :: xs) = insDesc x (sortDesc xs) := rfl
    rw [this, mem_insDesc, ih]; simp

theorem nodup_insDesc (x : Addr × Nat) (l : List (Addr × Nat)) (hx : x.1 ∉ l.map (·.1))
    (hl : (l.map (·.1)).Nodup) : ((insDesc x l).map (·.1)).Nodup := by
  induction l with
  | nil => simp [insDesc]
  | cons z zs ih =>
    simp only [insDesc]
    have hl' : z.1 ∉ zs.map (·.1) ∧ (zs.map (·.1)).Nodup := List.nodup_cons.mp hl
    have hx' : x.1 ≠ z.1 ∧ x.1 ∉ zs.map (·.1) := by
      simp only [List.map_cons, List.mem_cons, not_or] at hx; exact hx
    split
    · simp only [List.map_cons]
      exact List.nodup_cons.mpr ⟨by simp only [List.mem_cons, not_or]; exact hx', hl⟩
    · simp only [List.map_cons]
      apply List.nodup_cons.mpr
      refine ⟨?_, ih hx'.2 hl'.2⟩
      intro hm
      obtain ⟨w, hw, he⟩ := List.mem_map.mp hm
      rcases (mem_insDesc x w zs).mp hw with h | h
      · subst h; exact hx'.1 he
      · exact hl'.1 (List.mem_map.mpr ⟨w, h, he⟩)

theorem nodup_sortDesc (l : List (Addr × Nat)) (hl : (l.map (·.1)).Nodup) : ((sortDesc l).map (·.1)).Nodup := by
  induction l with
  | nil => simp [sortDesc]
  | cons x xs ih =>
    have hl' : x.1 ∉ xs.map (·.1) ∧ (xs.map (·.1)).Nodup := List.nodup_cons.mp hl
    have : sortDesc (x :: xs) = insDesc x (sortDesc xs) := rfl
    rw [this]
    apply nodup_insDesc _ _ _ (ih hl'.2)
    intro hm
    obtain ⟨w, hw, he⟩ := List.mem_map.mp hm
    exact hl'.1 (List.mem_map.mpr ⟨w, (mem_sortDesc w xs).mp hw, he⟩)

/-- the hub's delegations as the staking module reports them: one entry per validator, with the
    delegated amount -/
theorem delegationsOf_facts (s : Sys) :
    ((s.delegationsOf hubA).map (·.1)).Nodup ∧ ∀ x ∈ s.delegationsOf hubA, s.chain.deleg x.1 = x.2 := by
  unfold Sys.delegationsOf
  simp only [if_true]
  constructor
  · rw [List.map_map]
    have : ((fun x : Addr × Nat => x.1) ∘ fun v => (v, s.chain.deleg v)) = id := by funext v; rfl
    rw [this, List.map_id]
    exact List.Pairwise.sublist List.filter_sublist (by decide)
  · intro x hx
    obtain ⟨v, _, he⟩ := List.mem_map.mp hx
    subst he; rfl


/-- **The unbond that closes the batch succeeds as a whole transaction** (stSei): the hub records
    the request, values the whole batch, the staking module accepts every Undelegate message (no
    validator is asked for more than it holds — C12), the tokens are burned and the rates
    refreshed; the batch is written to the history and the next one opens. Premises on the state
    the slashing check produces (`st`): something is delegated, the books do not exceed the
    delegations (what `C02_reachable` / the check itself establish), the staking module's limit
    on unbonding entries is not reached (E2) and neither pool is
    zero-backed (D6 — with a zero-backed pool the statement is false, known finding). -/
theorem C09_stsei_unbond_closing_batch_tx_succeeds (s : Sys) (u : Addr) (amt : Nat) (st : HubSt)
    (hp : s.hub.isPaused = false) (hbt : s.hub.bsei = some bseiA) (hst : s.hub.stsei = some stseiA)
    (hth : s.stsei.hub = hubA) (wf : s.stsei.WF) (hpos : 0 < amt) (hbal : amt ≤ s.stsei.bal u)
    (ht1 : s.hub.lastUnbondedTime ≤ s.chain.time)
    (hgate : s.chain.time - s.hub.lastUnbondedTime > s.hub.epoch)
    (hact : s.hub.actualState s.hubEnv = .ok st)
    (hd : s.delegationsOf hubA ≠ []) (hr : ((s.delegationsOf hubA).map (·.2)).sum < U128)
    (hnu : ∀ v, s.chain.noUndelegate v = false)
    (hsb : st.sBond ≠ 0) (hbb : st.bBond ≠ 0 ∨ st.reqB = 0)
    (hbooks : st.bBond + st.sBond ≤ ((s.delegationsOf hubA).map (·.2)).sum) :
    ∃ s', s.exec (.wasm u stseiA (.tok (.send hubA amt .unbond)) []) = (s', .ok ()) ∧
      s'.hub.batchId = s.hub.batchId + 1 ∧
      (∃ x, s'.hub.hist s.hub.batchId = some x ∧ x.sAmt = s.hub.reqS + amt ∧ x.time = s.chain.time ∧ x.released = false) ∧
      s'.stsei.supply + amt = s.stsei.supply := by
  -- 1. the token moves the tokens to the hub and notifies it
  obtain ⟨t1, ht1'⟩ : ∃ t, s.stsei.transfer u hubA amt = .ok t := by
    unfold Token.transfer Token.move
    rw [if_neg (by omega), if_neg (by omega)]
    exact ⟨_, rfl⟩
  have st1 := Token.transfer_step s.stsei t1 wf u hubA amt ht1'
  have hub1 : t1.hub = hubA := by rw [st1.1.hub]; exact hth
  have sup1 : t1.supply = s.stsei.supply := by have := st1.1.supply; omega
  have balh : amt ≤ t1.bal hubA := by
    unfold Token.transfer Token.move at ht1'
    rw [if_neg (by omega), if_neg (by omega)] at ht1'
    injection ht1' with ht1'; subst ht1'
    simp [Token.setBal, upd]
  obtain ⟨s1, hs1⟩ : ∃ x : Sys, x = { s with stsei := t1 } := ⟨_, rfl⟩
  have H1 : s.handle (.wasm u stseiA (.tok (.send hubA amt .unbond)) []) =
      .ok (s1, [Msg.wasm stseiA hubA (.hub (.receive u amt .unbond)) []]) := by
    simp only [Sys.handle, Sys.moveFunds, bind, Except.bind, pure, Except.pure]
    rw [if_neg (by decide), if_neg (by decide), if_pos trivial]
    simp only [stseiExec, bind, Except.bind, pure, Except.pure, ht1', receiveMsg, if_true, hs1]
  -- 2. the hub sees the same environment as before the transfer (the supply is unchanged)
  have henv : s1.hubEnv = s.hubEnv := by
    rw [hs1]
    unfold Sys.hubEnv
    have : ({ s with stsei := t1 } : Sys).supplyOf = s.supplyOf := by
      funext a; unfold Sys.supplyOf; simp only [sup1]
    simp only [this]
    rfl
  have hubeq : s1.hub = s.hub := by rw [hs1]
  have spec := actualState_spec s.hub st s.hubEnv hact
  have sb := spec.1
  have hdel : s.hubEnv.delegations = s.delegationsOf hubA := rfl
  have hnow : s.hubEnv.now = s.chain.time := rfl
  -- the slashing check took its main branch: rates are true ratios
  obtain ⟨bs, ss, _, _, hbsq, hssq, hbR, hsR, _⟩ : ∃ bs ss, s.hubEnv.delegations ≠ [] ∧ s.hub.bBond + s.hub.sBond ≠ 0 ∧
      s.hub.bSupplyQ s.hubEnv = .ok bs ∧ s.hub.sSupplyQ s.hubEnv = .ok ss ∧
      st.bRate = rateOf st.bBond bs s.hub.reqB ∧ st.sRate = rateOf st.sBond ss s.hub.reqS ∧ True := by
    rcases spec.2 with ⟨hz, he⟩ | ⟨bs, ss, h1, h2, h3, h4, h5, h6, _⟩
    · subst he
      rcases hz with hz | hz
      · exact absurd hz hd
      · omega
    · exact ⟨bs, ss, h1, h2, h3, h4, h5, h6, trivial⟩
  have hss : ss = s.stsei.supply := by
    simp only [HubSt.sSupplyQ, hst] at hssq
    have : s.hubEnv.supplyOf stseiA = .ok s.stsei.supply := rfl
    rw [this] at hssq; injection hssq with h; exact h.symm
  have hsup : amt ≤ s.stsei.supply := Nat.le_trans hbal (Token.bal_le_supply s.stsei wf u)
  have hS : mulDec (st.reqS + amt) st.sRate ≤ st.sBond := by
    rw [hsR, sb.reqS]
    unfold rateOf
    have hne : ¬ (st.sBond = 0 ∨ ss + s.hub.reqS = 0) := by
      intro h; rcases h with h | h
      · exact hsb h
      · omega
    rw [if_neg hne]
    apply C09_undelegation_within_books _ _ (ss - amt) _
    have : ss - amt + (s.hub.reqS + amt) = ss + s.hub.reqS := by omega
    rw [this]
    exact Nat.div_mul_le_self _ _
  have hB : mulDec st.reqB st.bRate ≤ st.bBond := by
    rcases hbb with hb | hb
    · rw [hbR, sb.reqB]
      unfold rateOf
      by_cases hz : bs + s.hub.reqB = 0
      · have : s.hub.reqB = 0 := by omega
        rw [this]; unfold mulDec; rw [Nat.zero_mul, Nat.zero_div]; exact Nat.zero_le _
      · rw [if_neg (by intro h; rcases h with h | h; exact hb h; exact hz h)]
        apply C09_undelegation_within_books _ _ bs _
        exact Nat.div_mul_le_self _ _
    · rw [hb]; unfold mulDec; rw [Nat.zero_mul, Nat.zero_div]; exact Nat.zero_le _
  obtain ⟨h2, ms2, hun⟩ := C09_unbond_stsei_live s.hub st s.hubEnv amt u stseiA hact
    (by rw [sb.lastUnb, hnow]; exact ht1) hst
    (fun _ => ⟨by rw [hdel]; exact hd, by rw [hdel]; exact hr, hS, hB, by rw [hdel]; omega⟩)
  obtain ⟨st', tok, hact', _, htok, hcase⟩ := unbondS_spec s.hub h2 s.hubEnv amt u ms2 hun
  have est : st' = st := by
    have : (Except.ok st' : Res HubSt) = .ok st := by rw [← hact', ← hact]
    injection this
  subst est
  have etok : tok = stseiA := by rw [hst] at htok; injection htok with h; exact h.symm
  subst etok
  obtain ⟨um, hpu, hms2⟩ : ∃ um, (st'.afterUnbondS u amt).processUndelegations s.hubEnv = .ok (h2, um) ∧
      ms2 = um ++ [HubSt.tokMsg s.hubEnv.self stseiA (.burn amt)] := by
    rcases hcase with ⟨_, um, h1, h2'⟩ | ⟨hng, _, _⟩
    · exact ⟨um, h1, h2'⟩
    · exfalso; apply hng; rw [sb.lastUnb, sb.epoch, hnow]; exact hgate
  have psp := processUndelegations_spec _ _ _ _ hpu
  obtain ⟨s2, hs2⟩ : ∃ x : Sys, x = { s1 with hub := h2 } := ⟨_, rfl⟩
  have H2 : s1.handle (Msg.wasm stseiA hubA (.hub (.receive u amt .unbond)) []) = .ok (s2, ms2) := by
    simp only [Sys.handle, Sys.moveFunds, bind, Except.bind, pure, Except.pure]
    rw [if_pos trivial]
    simp only [hubExec, hubeq, hp, Bool.false_eq_true, if_false, hbt, hst, bind, Except.bind, pure, Except.pure]
    rw [if_neg (by decide), if_pos trivial, henv, hun, hs2]
  -- 3. the Undelegate messages
  obtain ⟨plan, hplan, hum⟩ : ∃ plan, calculateUndelegations 1
      (mulDec (st'.afterUnbondS u amt).reqB (st'.afterUnbondS u amt).bRate +
        mulDec (st'.afterUnbondS u amt).reqS (st'.afterUnbondS u amt).sRate)
      ((sortDesc s.hubEnv.delegations).map (·.2)) = some plan ∧
      um = zipMsgs (fun v p => Msg.undelegate hubA v p) (sortDesc s.hubEnv.delegations) plan := by
    have hpk := psp.1
    unfold pickValidator at hpk
    simp only [] at hpk
    split at hpk
    · cases hpk
    · rename_i plan hplan
      injection hpk with hpk
      exact ⟨plan, hplan, hpk.symm⟩
  have c12 := C12_undeleg_conserves 0 _ _ plan hplan
  have df := delegationsOf_facts s
  have ch2 : s2.chain = s.chain := by rw [hs2, hs1]
  obtain ⟨k, s2', hk, sc2, ht2, hh2, hb2, hrun⟩ := run_undelegates (sortDesc s.hubEnv.delegations) plan s2
    ([HubSt.tokMsg hubA stseiA (.burn amt)] ++ [])
    (nodup_sortDesc _ df.1)
    (fun x hx => by rw [ch2]; exact df.2 x ((mem_sortDesc x _).mp hx))
    (fun j => (c12.2.2 j).1) (by rw [ch2]; exact hnu)
  have hklen : k ≤ 12 := by
    have h1 : (sortDesc s.hubEnv.delegations).length = s.hubEnv.delegations.length := by
      have : ∀ l : List (Addr × Nat), (sortDesc l).length = l.length := by
        intro l
        induction l with
        | nil => rfl
        | cons x xs ih =>
          have e : sortDesc (x :: xs) = insDesc x (sortDesc xs) := rfl
          have ins : ∀ (m : List (Addr × Nat)), (insDesc x m).length = m.length + 1 := by
            intro m
            induction m with
            | nil => rfl
            | cons y ys ihy => simp only [insDesc]; split <;> simp [ihy]
          rw [e, ins, ih]; rfl
      exact this _
    have h2 : s.hubEnv.delegations.length ≤ 12 := by
      show (s.delegationsOf hubA).length ≤ 12
      unfold Sys.delegationsOf
      simp only [if_true, List.length_map]
      exact Nat.le_trans (List.length_filter_le _ _) (by decide)
    omega
  -- 4. the hub burns what it received
  have stsei2 : s2'.stsei = t1 := by rw [sc2.stsei, hs2, hs1]
  have wf1 : t1.WF := st1.1.wf
  obtain ⟨t2, hb2'⟩ : ∃ t, t1.burn hubA amt = .ok t := by
    unfold Token.burn
    have := Token.bal_le_supply t1 wf1 hubA
    rw [if_neg (by omega), if_neg (by omega), if_neg (by omega)]
    exact ⟨_, rfl⟩
  have sup2 : t2.supply + amt = s.stsei.supply := by
    unfold Token.burn at hb2'
    have := Token.bal_le_supply t1 wf1 hubA
    rw [if_neg (by omega), if_neg (by omega), if_neg (by omega)] at hb2'
    injection hb2' with hb2'; subst hb2'
    simp only []; omega
  obtain ⟨s3, hs3⟩ : ∃ x : Sys, x = { s2' with stsei := t2 } := ⟨_, rfl⟩
  have H3 : s2'.handle (HubSt.tokMsg hubA stseiA (.burn amt)) =
      .ok (s3, [Msg.wasm stseiA hubA (.hub .checkSlashing) []]) := by
    simp only [HubSt.tokMsg, Sys.handle, Sys.moveFunds, bind, Except.bind, pure, Except.pure]
    rw [if_neg (by decide), if_neg (by decide), if_pos trivial]
    simp only [stsei2, stseiExec, bind, Except.bind, pure, Except.pure, throw, throwThe, MonadExceptOf.throw, hub1]
    rw [if_neg (by simp)]
    simp only [hb2', hs3]
  -- 5. and refreshes its rates
  have hub3 : s3.hub = h2 := by rw [hs3]; show s2'.hub = h2; rw [sc2.hub, hs2]
  have fr := processUndelegations_frame _ _ _ _ hpu
  have cfg3 : s3.hub.bsei = some bseiA ∧ s3.hub.stsei = some stseiA ∧ s3.hub.isPaused = false := by
    rw [hub3]
    refine ⟨?_, ?_, ?_⟩
    · rw [fr.2.bsei]; show st'.bsei = _; rw [sb.bsei]; exact hbt
    · rw [fr.2.stsei]; show st'.stsei = _; rw [sb.stsei]; exact hst
    · unfold HubSt.isPaused at hp ⊢; rw [fr.1.paused]; show st'.paused.getD false = _; rw [sb.paused]; exact hp
  have hb3 : s3.hub.bSupplyQ s3.hubEnv = .ok s3.bsei.supply := by
    simp only [HubSt.bSupplyQ, cfg3.1]; rfl
  have hs3q : s3.hub.sSupplyQ s3.hubEnv = .ok s3.stsei.supply := by
    simp only [HubSt.sSupplyQ, cfg3.2.1]; rfl
  obtain ⟨st4, hact4⟩ := actualState_live s3.hub s3.hubEnv _ _ hb3 hs3q
  obtain ⟨s4, hs4⟩ : ∃ x : Sys, x = { s3 with hub := st4 } := ⟨_, rfl⟩
  have H4 : s3.handle (Msg.wasm stseiA hubA (.hub .checkSlashing) []) = .ok (s4, []) := by
    simp only [Sys.handle, Sys.moveFunds, bind, Except.bind, pure, Except.pure]
    rw [if_pos trivial]
    simp only [hubExec, cfg3.2.2, Bool.false_eq_true, if_false, bind, Except.bind, pure, Except.pure, hact4, hs4]
  have sb4 := (actualState_spec s3.hub st4 s3.hubEnv hact4).1
  have hself : s.hubEnv.self = hubA := rfl
  refine ⟨s4, ?_, ?_, ?_, ?_⟩
  · unfold Sys.exec
    obtain ⟨n2, hn2⟩ : ∃ n2, 398 - k = n2 + 2 := ⟨396 - k, by omega⟩
    have e398 : (398 : Nat) = (398 - k) + k := by omega
    have hr1 : Sys.run 400 s [Msg.wasm u stseiA (.tok (.send hubA amt .unbond)) []] =
        Sys.run 398 s2 (ms2 ++ []) := by
      simp only [Sys.run, H1, H2, List.nil_append, List.append_nil, List.singleton_append]
    rw [hr1, hms2, hum, hself, List.append_assoc, e398, hrun (398 - k), hn2]
    simp only [Sys.run, H3, H4, List.nil_append, List.append_nil, List.singleton_append]
  · rw [hs4]; show st4.batchId = _
    rw [sb4.batchId, hub3, psp.2.2.2.2.2.2.2.2.2.1]
    show st'.batchId + 1 = _; rw [sb.batchId]
  · rw [hs4]
    have hb0 : (st'.afterUnbondS u amt).batchId = s.hub.batchId := by show st'.batchId = _; exact sb.batchId
    have hentry : st4.hist s.hub.batchId = some
        { time := s.hubEnv.now, bAmt := (st'.afterUnbondS u amt).reqB, bApplied := (st'.afterUnbondS u amt).bRate,
          bWithdraw := (st'.afterUnbondS u amt).bRate, sAmt := (st'.afterUnbondS u amt).reqS,
          sApplied := (st'.afterUnbondS u amt).sRate, sWithdraw := (st'.afterUnbondS u amt).sRate, released := false } := by
      rw [sb4.hist, hub3, psp.2.2.2.2.2.2.2.2.2.2.2.1, hb0, upd_same]
    refine ⟨_, hentry, ?_, hnow, rfl⟩
    show st'.reqS + amt = _; rw [sb.reqS]
  · rw [hs4]; show s3.stsei.supply + amt = _; rw [hs3]; exact sup2


/-! ### the bSei unbond as a whole transaction (peg fee and reward mirror included) -/

/-- the reward contract's balance mirror accepts a decrease of a holder who holds that much -/
theorem reward_decrease_ok (r : RewardSt) (self : Addr) (dp : Res Addr) (bb : Denom → Nat) (tokA a : Addr)
    (amt : Nat) (inv : r.Inv) (hb : amt ≤ r.hBal a) (ht : amt ≤ r.totalBalance) :
    ∃ r', rewardExec r self (.ok tokA) dp bb tokA (.decrease a amt) = .ok (r', []) ∧ r'.Inv ∧
      r'.hBal a = r.hBal a - amt ∧ r'.totalBalance = r.totalBalance - amt ∧ r'.hub = r.hub ∧
      (∀ k, k ≠ a → r'.hBal k = r.hBal k) ∧ r'.owner = r.owner ∧ r'.newOwner = r.newOwner := by
  have hx : rewardExec r self (.ok tokA) dp bb tokA (.decrease a amt) =
      .ok ({ (r.setHolder a (r.hBal a - amt) r.globalIndex ((r.globalIndex - r.hIdx a) * r.hBal a + r.hPend a)) with
              totalBalance := r.totalBalance - amt }, []) := by
    simp only [rewardExec, RewardSt.accrual_ok r inv, bind, Except.bind, pure, Except.pure]
    rw [if_neg (by simp), if_neg (by omega), if_neg (by omega)]
  refine ⟨_, hx, C14_inv_step _ _ _ _ _ _ _ _ _ inv hx, ?_, rfl, rfl, ?_, rfl, rfl⟩
  · simp [RewardSt.setHolder]
  · intro k hk; simp [RewardSt.setHolder, upd, hk]

theorem reward_increase_ok (r : RewardSt) (self : Addr) (dp : Res Addr) (bb : Denom → Nat) (tokA a : Addr)
    (amt : Nat) (inv : r.Inv) :
    ∃ r', rewardExec r self (.ok tokA) dp bb tokA (.increase a amt) = .ok (r', []) ∧ r'.Inv ∧
      r'.hBal a = r.hBal a + amt ∧ r'.totalBalance = r.totalBalance + amt ∧ r'.hub = r.hub ∧
      (∀ k, k ≠ a → r'.hBal k = r.hBal k) ∧ r'.owner = r.owner ∧ r'.newOwner = r.newOwner := by
  have hx : rewardExec r self (.ok tokA) dp bb tokA (.increase a amt) =
      .ok ({ (r.setHolder a (r.hBal a + amt) r.globalIndex ((r.globalIndex - r.hIdx a) * r.hBal a + r.hPend a)) with
              totalBalance := r.totalBalance + amt }, []) := by
    simp only [rewardExec, RewardSt.accrual_ok r inv, bind, Except.bind, pure, Except.pure]
    rw [if_neg (by simp)]
  refine ⟨_, hx, C14_inv_step _ _ _ _ _ _ _ _ _ inv hx, ?_, rfl, rfl, ?_, rfl, rfl⟩
  · simp [RewardSt.setHolder]
  · intro k hk; simp [RewardSt.setHolder, upd, hk]

/-- **A bSei holder's unbond succeeds as a whole transaction** (epoch period not yet passed): token
    transfer to the hub, the two reward-mirror updates, the hub's pricing with the peg fee, the
    burn and its mirror update — from any state with the contracts wired to each other (E3), an
    unpaused hub, a consistent bSei ledger mirrored by the reward contract, fee and threshold in
    range (C20) and something delegated (or nothing booked). -/
theorem C09_bsei_unbond_tx_succeeds (s : Sys) (u : Addr) (amt : Nat)
    (w : Wired s) (hp : s.hub.isPaused = false) (hst : s.hub.stsei = some stseiA)
    (wf : s.bsei.WF) (rinv : s.reward.Inv)
    (hmu : s.reward.hBal u = s.bsei.bal u) (hmh : s.reward.hBal hubA = s.bsei.bal hubA)
    (hmt : s.reward.totalBalance = s.bsei.supply)
    (hpos : 0 < amt) (hbal : amt ≤ s.bsei.bal u) (hu : u ≠ hubA)
    (hfee : s.hub.fee ≤ D) (hthr : s.hub.thr ≤ D)
    (hd : s.delegationsOf hubA ≠ [] ∨ s.hub.bBond + s.hub.sBond = 0)
    (hstale : s.hub.bBond + s.hub.sBond = 0 → s.hub.bRate < s.hub.thr → s.hub.bBond ≤ s.bsei.supply + s.hub.reqB)
    (ht1 : s.hub.lastUnbondedTime ≤ s.chain.time)
    (ht2 : ¬ s.chain.time - s.hub.lastUnbondedTime > s.hub.epoch) :
    ∃ s', s.exec (.wasm u bseiA (.tok (.send hubA amt .unbond)) []) = (s', .ok ()) ∧
      s'.bsei.supply + amt = s.bsei.supply ∧ s'.reward.totalBalance = s'.bsei.supply ∧
      s.hub.waitB u s.hub.batchId ≤ s'.hub.waitB u s.hub.batchId ∧
      s'.hub.waitB u s.hub.batchId ≤ s.hub.waitB u s.hub.batchId + amt := by
  have hbt : s.hub.bsei = some bseiA := w.hubTok
  -- 1. the token moves the tokens to the hub, tells the reward contract and notifies the hub
  obtain ⟨t1, ht1'⟩ : ∃ t, s.bsei.transfer u hubA amt = .ok t := by
    unfold Token.transfer Token.move
    rw [if_neg (by omega), if_neg (by omega)]
    exact ⟨_, rfl⟩
  have st1 := Token.transfer_step s.bsei t1 wf u hubA amt ht1'
  have hub1 : t1.hub = hubA := by rw [st1.1.hub]; exact w.tokHub
  have sup1 : t1.supply = s.bsei.supply := by have := st1.1.supply; omega
  have balh : t1.bal hubA = s.bsei.bal hubA + amt := by
    unfold Token.transfer Token.move at ht1'
    rw [if_neg (by omega), if_neg (by omega)] at ht1'
    injection ht1' with ht1'; subst ht1'
    simp [Token.setBal, upd, Ne.symm hu]
  obtain ⟨s1, hs1⟩ : ∃ x : Sys, x = { s with bsei := t1 } := ⟨_, rfl⟩
  have hra : s.bseiRewardAddr = .ok rewardA := w.rewardAddr
  have H1 : s.handle (.wasm u bseiA (.tok (.send hubA amt .unbond)) []) =
      .ok (s1, [Msg.wasm bseiA rewardA (.reward (.decrease u amt)) [],
                Msg.wasm bseiA rewardA (.reward (.increase hubA amt)) [],
                Msg.wasm bseiA hubA (.hub (.receive u amt .unbond)) []]) := by
    simp only [Sys.handle, Sys.moveFunds, bind, Except.bind, pure, Except.pure]
    rw [if_neg (by decide), if_pos trivial]
    have : ({ s with } : Sys).bseiRewardAddr = .ok rewardA := hra
    simp only [bseiExec, bind, Except.bind, pure, Except.pure, hra, ht1', receiveMsg, if_true, hs1]
  -- 2. the reward contract lowers the sender's mirrored balance
  have tok1 : s1.hubTokenOf s1.reward.hub = .ok bseiA := by
    rw [hs1]; exact w.tokenOf
  obtain ⟨r2, hr2, inv2, hb2, htot2, hh2, hoth2, ho2, hn2⟩ := reward_decrease_ok s1.reward rewardA
    (s1.hubDispatcherOf s1.reward.hub) (s1.chain.bank rewardA) bseiA u amt (by rw [hs1]; exact rinv)
    (by rw [hs1]; show amt ≤ s.reward.hBal u; omega) (by rw [hs1]; show amt ≤ s.reward.totalBalance; rw [hmt]; exact Nat.le_trans hbal (Token.bal_le_supply s.bsei wf u))
  obtain ⟨s2, hs2⟩ : ∃ x : Sys, x = { s1 with reward := r2 } := ⟨_, rfl⟩
  have H2 : s1.handle (Msg.wasm bseiA rewardA (.reward (.decrease u amt)) []) = .ok (s2, []) := by
    simp only [Sys.handle, Sys.moveFunds, bind, Except.bind, pure, Except.pure]
    rw [if_neg (by decide), if_neg (by decide), if_neg (by decide), if_pos trivial]
    simp only [tok1, hr2, hs2]
  -- 3. … and raises the hub's
  have tok2 : s2.hubTokenOf s2.reward.hub = .ok bseiA := by
    rw [hs2]; show s1.hubTokenOf r2.hub = _; rw [hh2]; exact tok1
  obtain ⟨r3, hr3, inv3, hb3, htot3, hh3, hoth3, ho3, hn3⟩ := reward_increase_ok s2.reward rewardA
    (s2.hubDispatcherOf s2.reward.hub) (s2.chain.bank rewardA) bseiA hubA amt (by rw [hs2]; exact inv2)
  obtain ⟨s3, hs3⟩ : ∃ x : Sys, x = { s2 with reward := r3 } := ⟨_, rfl⟩
  have H3 : s2.handle (Msg.wasm bseiA rewardA (.reward (.increase hubA amt)) []) = .ok (s3, []) := by
    simp only [Sys.handle, Sys.moveFunds, bind, Except.bind, pure, Except.pure]
    rw [if_neg (by decide), if_neg (by decide), if_neg (by decide), if_pos trivial]
    simp only [tok2, hr3, hs3]
  -- 4. the hub prices the request
  have hubeq : s3.hub = s.hub := by rw [hs3, hs2, hs1]
  have hb3q : s3.hub.bSupplyQ s3.hubEnv = .ok s.bsei.supply := by
    rw [hubeq]; simp only [HubSt.bSupplyQ, hbt]
    show s3.supplyOf bseiA = _
    rw [hs3, hs2, hs1]; unfold Sys.supplyOf; simp [sup1]
  have hs3q : s3.hub.sSupplyQ s3.hubEnv = .ok s3.stsei.supply := by
    rw [hubeq]; simp only [HubSt.sSupplyQ, hst]; rfl
  obtain ⟨st, hact⟩ := actualState_live s3.hub s3.hubEnv _ _ hb3q hs3q
  have spec := actualState_spec s3.hub st s3.hubEnv hact
  have sb := spec.1
  have timeq : s3.hubEnv.now = s.chain.time := by rw [hs3, hs2, hs1]; rfl
  have hdeq : s3.hubEnv.delegations = s.delegationsOf hubA := by rw [hs3, hs2, hs1]; rfl
  have hbsq' : st.bSupplyQ s3.hubEnv = .ok s.bsei.supply := by
    simp only [HubSt.bSupplyQ, sb.bsei]; rw [hubeq] ; simp only [hbt]
    have := hb3q; rw [hubeq] at this; simp only [HubSt.bSupplyQ, hbt] at this; exact this
  -- the peg fee cannot fail
  have hsup : amt ≤ s.bsei.supply := Nat.le_trans hbal (Token.bal_le_supply s.bsei wf u)
  obtain ⟨wfee, hwf, hwle⟩ : ∃ x, st.pegFeeOnBurn s.bsei.supply amt = .ok x ∧ x ≤ amt := by
    unfold HubSt.pegFeeOnBurn
    by_cases hlt : st.bRate < st.thr
    · rw [if_pos hlt]
      have hgap : ¬ (s.bsei.supply + st.reqB < st.bBond) := by
        rcases spec.2 with ⟨hz, he⟩ | ⟨bs, ss, _, hnz, hbq, _, hbR, _, _⟩
        · subst he
          rcases hz with hz | hz
          · rcases hd with hd' | hd'
            · rw [hdeq] at hz; exact absurd hz hd'
            · rw [hubeq] at hlt ⊢
              have := hstale hd' hlt; omega
          · rw [hubeq] at hz hlt ⊢
            have := hstale hz hlt; omega
        · have ebs : bs = s.bsei.supply := by
            rw [hb3q] at hbq; injection hbq with h; exact h.symm
          rw [hbR, ebs] at hlt
          rw [sb.reqB]
          unfold rateOf at hlt
          by_cases hc : st.bBond = 0 ∨ s.bsei.supply + s3.hub.reqB = 0
          · rw [if_pos hc] at hlt
            have : st.thr ≤ D := by rw [sb.thr, hubeq]; exact hthr
            omega
          · rw [if_neg hc] at hlt
            intro hgt
            have hcl : 0 < s.bsei.supply + s3.hub.reqB := by omega
            have : D ≤ fromRatio st.bBond (s.bsei.supply + s3.hub.reqB) := by
              unfold fromRatio
              apply (Nat.le_div_iff_mul_le hcl).mpr
              rw [Nat.mul_comm]
              exact Nat.mul_le_mul_right D (by omega)
            have : st.thr ≤ D := by rw [sb.thr, hubeq]; exact hthr
            omega
      rw [if_neg hgap]
      have hm : mulDec amt st.fee ≤ amt := mulDec_le_self amt st.fee (by rw [sb.fee, hubeq]; exact hfee)
      have hmin : min (mulDec amt st.fee) (s.bsei.supply + st.reqB - st.bBond) ≤ amt := Nat.le_trans (Nat.min_le_left _ _) hm
      rw [if_neg (by omega)]
      exact ⟨_, rfl, by omega⟩
    · rw [if_neg hlt]; exact ⟨amt, rfl, Nat.le_refl _⟩
  have hun : s3.hub.unbondB s3.hubEnv amt u =
      .ok (st.afterUnbondB u s.bsei.supply amt wfee, [HubSt.tokMsg hubA bseiA (.burn amt)]) := by
    unfold HubSt.unbondB
    simp only [hact, hbsq', hwf]
    rw [if_neg (by omega), if_neg (by rw [sb.lastUnb, hubeq, timeq]; omega)]
    simp only [hubeq, hbt]
    rw [if_neg (by rw [sb.lastUnb, sb.epoch, hubeq, timeq]; exact ht2)]
    rfl
  obtain ⟨s4, hs4⟩ : ∃ x : Sys, x = { s3 with hub := st.afterUnbondB u s.bsei.supply amt wfee } := ⟨_, rfl⟩
  have H4 : s3.handle (Msg.wasm bseiA hubA (.hub (.receive u amt .unbond)) []) =
      .ok (s4, [HubSt.tokMsg hubA bseiA (.burn amt)]) := by
    simp only [Sys.handle, Sys.moveFunds, bind, Except.bind, pure, Except.pure]
    rw [if_pos trivial]
    simp only [hubExec, hubeq, hp, Bool.false_eq_true, if_false, hbt, hst, bind, Except.bind, pure, Except.pure]
    rw [if_pos trivial, ← hubeq, hun, hs4]
  -- 5. the hub burns what it received
  have bsei4 : s4.bsei = t1 := by rw [hs4, hs3, hs2, hs1]
  have wf1 : t1.WF := st1.1.wf
  obtain ⟨t2, hbn⟩ : ∃ t, t1.burn hubA amt = .ok t := by
    unfold Token.burn
    have := Token.bal_le_supply t1 wf1 hubA
    rw [if_neg (by omega), if_neg (by omega), if_neg (by omega)]
    exact ⟨_, rfl⟩
  have sup2 : t2.supply + amt = s.bsei.supply := by
    unfold Token.burn at hbn
    have := Token.bal_le_supply t1 wf1 hubA
    rw [if_neg (by omega), if_neg (by omega), if_neg (by omega)] at hbn
    injection hbn with hbn; subst hbn
    simp only []; omega
  obtain ⟨s5, hs5⟩ : ∃ x : Sys, x = { s4 with bsei := t2 } := ⟨_, rfl⟩
  have sc34 : s4.bseiRewardAddr = .ok rewardA := by
    have w4 : Wired s4 := by
      have fr := unbondB_frame s3.hub _ s3.hubEnv amt u _ hun
      refine ⟨?_, ?_, ?_, ?_, ?_, ?_, ?_, ?_, ?_, ?_, ?_⟩
      · rw [bsei4]; exact hub1
      · rw [hs4]; show (st.afterUnbondB u s.bsei.supply amt wfee).dispatcher = _; rw [fr.2.dispatcher, hubeq]; exact w.hubDisp
      · rw [hs4, hs3, hs2, hs1]; exact w.dispRw
      · rw [hs4, hs3]; show r3.hub = _; rw [hh3, hs2]; show r2.hub = _; rw [hh2, hs1]; exact w.rwHub
      · rw [hs4]; show (st.afterUnbondB u s.bsei.supply amt wfee).bsei = _; rw [fr.2.bsei, hubeq]; exact w.hubTok
      · rw [hs4]; show External (st.afterUnbondB u s.bsei.supply amt wfee).creator; rw [fr.2.creator, hubeq]; exact w.hubOwner
      · rw [hs4]; show External (st.afterUnbondB u s.bsei.supply amt wfee).newOwner; rw [fr.2.newOwner, hubeq]; exact w.hubNominee
      · rw [hs4, hs3, hs2, hs1]; exact w.dispOwner
      · rw [hs4, hs3, hs2, hs1]; exact w.dispNominee
      · rw [hs4, hs3]; show External r3.owner
        rw [ho3, hs2]; show External r2.owner
        rw [ho2, hs1]; exact w.rwOwner
      · rw [hs4, hs3]; show External r3.newOwner
        rw [hn3, hs2]; show External r2.newOwner
        rw [hn2, hs1]; exact w.rwNominee
    exact w4.rewardAddr
  have H5 : s4.handle (HubSt.tokMsg hubA bseiA (.burn amt)) =
      .ok (s5, [Msg.wasm bseiA rewardA (.reward (.decrease hubA amt)) []]) := by
    simp only [HubSt.tokMsg, Sys.handle, Sys.moveFunds, bind, Except.bind, pure, Except.pure]
    rw [if_neg (by decide), if_pos trivial]
    simp only [bsei4, bseiExec, bind, Except.bind, pure, Except.pure, throw, throwThe, MonadExceptOf.throw, hub1, sc34]
    rw [if_neg (by simp)]
    simp only [hbn, hs5]
  -- 6. … and the reward contract lowers the hub's mirrored balance again
  have rw5 : s5.reward = r3 := by rw [hs5, hs4, hs3]
  have tok5 : s5.hubTokenOf s5.reward.hub = .ok bseiA := by
    rw [rw5, hh3]
    unfold Sys.hubTokenOf
    have : s2.reward.hub = hubA := by rw [hs2]; show r2.hub = _; rw [hh2, hs1]; exact w.rwHub
    rw [this]; simp only [if_true]
    have fr := unbondB_frame s3.hub _ s3.hubEnv amt u _ hun
    have : s5.hub.bsei = some bseiA := by
      rw [hs5, hs4]; show (st.afterUnbondB u s.bsei.supply amt wfee).bsei = _; rw [fr.2.bsei, hubeq]; exact hbt
    rw [this]
  have hb3h : r3.hBal hubA = s.bsei.bal hubA + amt := by
    rw [hb3, hs2]; show r2.hBal hubA + amt = _
    rw [hoth2 hubA (Ne.symm hu), hs1]; show s.reward.hBal hubA + amt = _; rw [hmh]
  have htot3' : r3.totalBalance = s.bsei.supply := by
    rw [htot3, hs2]; show r2.totalBalance + amt = _
    rw [htot2, hs1]; show s.reward.totalBalance - amt + amt = _; rw [hmt]; omega
  obtain ⟨r6, hr6, inv6, hb6, htot6, hh6, hoth6, _, _⟩ := reward_decrease_ok s5.reward rewardA
    (s5.hubDispatcherOf s5.reward.hub) (s5.chain.bank rewardA) bseiA hubA amt (by rw [rw5]; exact inv3)
    (by rw [rw5, hb3h]; omega) (by rw [rw5, htot3']; exact hsup)
  obtain ⟨s6, hs6⟩ : ∃ x : Sys, x = { s5 with reward := r6 } := ⟨_, rfl⟩
  have H6 : s5.handle (Msg.wasm bseiA rewardA (.reward (.decrease hubA amt)) []) = .ok (s6, []) := by
    simp only [Sys.handle, Sys.moveFunds, bind, Except.bind, pure, Except.pure]
    rw [if_neg (by decide), if_neg (by decide), if_neg (by decide), if_pos trivial]
    simp only [tok5, hr6, hs6]
  refine ⟨s6, ?_, ?_, ?_, ?_, ?_⟩
  · unfold Sys.exec
    simp only [Sys.run, H1, H2, H3, H4, H5, H6, List.nil_append, List.append_nil, List.cons_append, List.singleton_append]
  · rw [hs6, hs5]; exact sup2
  · rw [hs6]; show r6.totalBalance = s5.bsei.supply
    rw [htot6, rw5, htot3', hs5]; show s.bsei.supply - amt = t2.supply; omega
  · rw [hs6, hs5, hs4]
    show s.hub.waitB u s.hub.batchId ≤ (st.afterUnbondB u s.bsei.supply amt wfee).waitB u s.hub.batchId
    have : (st.afterUnbondB u s.bsei.supply amt wfee).waitB u s.hub.batchId = st.waitB u st.batchId + wfee := by
      rw [← hubeq, ← sb.batchId]; simp [HubSt.afterUnbondB, HubSt.addWait]
    rw [this, sb.waitB, sb.batchId, hubeq]; omega
  · rw [hs6, hs5, hs4]
    show (st.afterUnbondB u s.bsei.supply amt wfee).waitB u s.hub.batchId ≤ _
    have : (st.afterUnbondB u s.bsei.supply amt wfee).waitB u s.hub.batchId = st.waitB u st.batchId + wfee := by
      rw [← hubeq, ← sb.batchId]; simp [HubSt.afterUnbondB, HubSt.addWait]
    rw [this, sb.waitB, sb.batchId, hubeq]; omega

/-- **The bSei unbond that closes the batch succeeds as a whole transaction**: as
    `C09_bsei_unbond_tx_succeeds`, with the batch valued at the rate recomputed after the request,
    every Undelegate message accepted by the staking module, and the batch written to the history.
    Premises on the state the slashing check produces: the bSei pool is backed, the stSei pool is
    backed or has no pending requests (D6 is the failure of these), the books do not exceed the
    delegations; the staking module's unbonding-entry limit is not reached (E2). -/
theorem C09_bsei_unbond_closing_batch_tx_succeeds (s : Sys) (u : Addr) (amt : Nat)
    (w : Wired s) (hp : s.hub.isPaused = false) (hst : s.hub.stsei = some stseiA)
    (wf : s.bsei.WF) (rinv : s.reward.Inv)
    (hmu : s.reward.hBal u = s.bsei.bal u) (hmh : s.reward.hBal hubA = s.bsei.bal hubA)
    (hmt : s.reward.totalBalance = s.bsei.supply)
    (hpos : 0 < amt) (hbal : amt ≤ s.bsei.bal u) (hu : u ≠ hubA)
    (hfee : s.hub.fee ≤ D) (hthr : s.hub.thr ≤ D)
    (hdl : s.delegationsOf hubA ≠ []) (hr : ((s.delegationsOf hubA).map (·.2)).sum < U128)
    (hnu : ∀ v, s.chain.noUndelegate v = false)
    (hpre : ∀ st, s.hub.actualState s.hubEnv = .ok st →
      st.bBond ≠ 0 ∧ (st.sBond ≠ 0 ∨ st.reqS = 0) ∧
      st.bBond + st.sBond ≤ ((s.delegationsOf hubA).map (·.2)).sum)
    (ht1 : s.hub.lastUnbondedTime ≤ s.chain.time)
    (hgate : s.chain.time - s.hub.lastUnbondedTime > s.hub.epoch) :
    ∃ s', s.exec (.wasm u bseiA (.tok (.send hubA amt .unbond)) []) = (s', .ok ()) ∧
      s'.bsei.supply + amt = s.bsei.supply ∧ s'.reward.totalBalance = s'.bsei.supply ∧
      s'.hub.batchId = s.hub.batchId + 1 ∧
      (∃ x, s'.hub.hist s.hub.batchId = some x ∧ x.time = s.chain.time ∧ x.released = false) := by
  have hd : s.delegationsOf hubA ≠ [] ∨ s.hub.bBond + s.hub.sBond = 0 := Or.inl hdl
  have hstale : s.hub.bBond + s.hub.sBond = 0 → s.hub.bRate < s.hub.thr → s.hub.bBond ≤ s.bsei.supply + s.hub.reqB := by
    intro h0 _; omega
  have hbt : s.hub.bsei = some bseiA := w.hubTok
  -- 1. the token moves the tokens to the hub, tells the reward contract and notifies the hub
  obtain ⟨t1, ht1'⟩ : ∃ t, s.bsei.transfer u hubA amt = .ok t := by
    unfold Token.transfer Token.move
    rw [if_neg (by omega), if_neg (by omega)]
    exact ⟨_, rfl⟩
  have st1 := Token.transfer_step s.bsei t1 wf u hubA amt ht1'
  have hub1 : t1.hub = hubA := by rw [st1.1.hub]; exact w.tokHub
  have sup1 : t1.supply = s.bsei.supply := by have := st1.1.supply; omega
  have balh : t1.bal hubA = s.bsei.bal hubA + amt := by
    unfold Token.transfer Token.move at ht1'
    rw [if_neg (by omega), if_neg (by omega)] at ht1'
    injection ht1' with ht1'; subst ht1'
    simp [Token.setBal, upd, Ne.symm hu]
  obtain ⟨s1, hs1⟩ : ∃ x : Sys, x = { s with bsei := t1 } := ⟨_, rfl⟩
  have hra : s.bseiRewardAddr = .ok rewardA := w.rewardAddr
  have H1 : s.handle (.wasm u bseiA (.tok (.send hubA amt .unbond)) []) =
      .ok (s1, [Msg.wasm bseiA rewardA (.reward (.decrease u amt)) [],
                Msg.wasm bseiA rewardA (.reward (.increase hubA amt)) [],
                Msg.wasm bseiA hubA (.hub (.receive u amt .unbond)) []]) := by
    simp only [Sys.handle, Sys.moveFunds, bind, Except.bind, pure, Except.pure]
    rw [if_neg (by decide), if_pos trivial]
    have : ({ s with } : Sys).bseiRewardAddr = .ok rewardA := hra
    simp only [bseiExec, bind, Except.bind, pure, Except.pure, hra, ht1', receiveMsg, if_true, hs1]
  -- 2. the reward contract lowers the sender's mirrored balance
  have tok1 : s1.hubTokenOf s1.reward.hub = .ok bseiA := by
    rw [hs1]; exact w.tokenOf
  obtain ⟨r2, hr2, inv2, hb2, htot2, hh2, hoth2, ho2, hn2⟩ := reward_decrease_ok s1.reward rewardA
    (s1.hubDispatcherOf s1.reward.hub) (s1.chain.bank rewardA) bseiA u amt (by rw [hs1]; exact rinv)
    (by rw [hs1]; show amt ≤ s.reward.hBal u; omega) (by rw [hs1]; show amt ≤ s.reward.totalBalance; rw [hmt]; exact Nat.le_trans hbal (Token.bal_le_supply s.bsei wf u))
  obtain ⟨s2, hs2⟩ : ∃ x : Sys, x = { s1 with reward := r2 } := ⟨_, rfl⟩
  have H2 : s1.handle (Msg.wasm bseiA rewardA (.reward (.decrease u amt)) []) = .ok (s2, []) := by
    simp only [Sys.handle, Sys.moveFunds, bind, Except.bind, pure, Except.pure]
    rw [if_neg (by decide), if_neg (by decide), if_neg (by decide), if_pos trivial]
    simp only [tok1, hr2, hs2]
  -- 3. … and raises the hub's
  have tok2 : s2.hubTokenOf s2.reward.hub = .ok bseiA := by
    rw [hs2]; show s1.hubTokenOf r2.hub = _; rw [hh2]; exact tok1
  obtain ⟨r3, hr3, inv3, hb3, htot3, hh3, hoth3, ho3, hn3⟩ := reward_increase_ok s2.reward rewardA
    (s2.hubDispatcherOf s2.reward.hub) (s2.chain.bank rewardA) bseiA hubA amt (by rw [hs2]; exact inv2)
  obtain ⟨s3, hs3⟩ : ∃ x : Sys, x = { s2 with reward := r3 } := ⟨_, rfl⟩
  have H3 : s2.handle (Msg.wasm bseiA rewardA (.reward (.increase hubA amt)) []) = .ok (s3, []) := by
    simp only [Sys.handle, Sys.moveFunds, bind, Except.bind, pure, Except.pure]
    rw [if_neg (by decide), if_neg (by decide), if_neg (by decide), if_pos trivial]
    simp only [tok2, hr3, hs3]
  -- 4. the hub prices the request
  have hubeq : s3.hub = s.hub := by rw [hs3, hs2, hs1]
  have hb3q : s3.hub.bSupplyQ s3.hubEnv = .ok s.bsei.supply := by
    rw [hubeq]; simp only [HubSt.bSupplyQ, hbt]
    show s3.supplyOf bseiA = _
    rw [hs3, hs2, hs1]; unfold Sys.supplyOf; simp [sup1]
  have hs3q : s3.hub.sSupplyQ s3.hubEnv = .ok s3.stsei.supply := by
    rw [hubeq]; simp only [HubSt.sSupplyQ, hst]; rfl
  obtain ⟨st, hact⟩ := actualState_live s3.hub s3.hubEnv _ _ hb3q hs3q
  have spec := actualState_spec s3.hub st s3.hubEnv hact
  have sb := spec.1
  have timeq : s3.hubEnv.now = s.chain.time := by rw [hs3, hs2, hs1]; rfl
  have hdeq : s3.hubEnv.delegations = s.delegationsOf hubA := by rw [hs3, hs2, hs1]; rfl
  have hbsq' : st.bSupplyQ s3.hubEnv = .ok s.bsei.supply := by
    simp only [HubSt.bSupplyQ, sb.bsei]; rw [hubeq] ; simp only [hbt]
    have := hb3q; rw [hubeq] at this; simp only [HubSt.bSupplyQ, hbt] at this; exact this
  -- the peg fee cannot fail
  have hsup : amt ≤ s.bsei.supply := Nat.le_trans hbal (Token.bal_le_supply s.bsei wf u)
  obtain ⟨wfee, hwf, hwle⟩ : ∃ x, st.pegFeeOnBurn s.bsei.supply amt = .ok x ∧ x ≤ amt := by
    unfold HubSt.pegFeeOnBurn
    by_cases hlt : st.bRate < st.thr
    · rw [if_pos hlt]
      have hgap : ¬ (s.bsei.supply + st.reqB < st.bBond) := by
        rcases spec.2 with ⟨hz, he⟩ | ⟨bs, ss, _, hnz, hbq, _, hbR, _, _⟩
        · subst he
          rcases hz with hz | hz
          · rcases hd with hd' | hd'
            · rw [hdeq] at hz; exact absurd hz hd'
            · rw [hubeq] at hlt ⊢
              have := hstale hd' hlt; omega
          · rw [hubeq] at hz hlt ⊢
            have := hstale hz hlt; omega
        · have ebs : bs = s.bsei.supply := by
            rw [hb3q] at hbq; injection hbq with h; exact h.symm
          rw [hbR, ebs] at hlt
          rw [sb.reqB]
          unfold rateOf at hlt
          by_cases hc : st.bBond = 0 ∨ s.bsei.supply + s3.hub.reqB = 0
          · rw [if_pos hc] at hlt
            have : st.thr ≤ D := by rw [sb.thr, hubeq]; exact hthr
            omega
          · rw [if_neg hc] at hlt
            intro hgt
            have hcl : 0 < s.bsei.supply + s3.hub.reqB := by omega
            have : D ≤ fromRatio st.bBond (s.bsei.supply + s3.hub.reqB) := by
              unfold fromRatio
              apply (Nat.le_div_iff_mul_le hcl).mpr
              rw [Nat.mul_comm]
              exact Nat.mul_le_mul_right D (by omega)
            have : st.thr ≤ D := by rw [sb.thr, hubeq]; exact hthr
            omega
      rw [if_neg hgap]
      have hm : mulDec amt st.fee ≤ amt := mulDec_le_self amt st.fee (by rw [sb.fee, hubeq]; exact hfee)
      have hmin : min (mulDec amt st.fee) (s.bsei.supply + st.reqB - st.bBond) ≤ amt := Nat.le_trans (Nat.min_le_left _ _) hm
      rw [if_neg (by omega)]
      exact ⟨_, rfl, by omega⟩
    · rw [if_neg hlt]; exact ⟨amt, rfl, Nat.le_refl _⟩
  -- the hub sees the environment of the start of the transaction (the supply is unchanged)
  have henv : s3.hubEnv = s.hubEnv := by
    rw [hs3, hs2, hs1]
    unfold Sys.hubEnv
    have : ({ s with bsei := t1, reward := r3 } : Sys).supplyOf = s.supplyOf := by
      funext a; unfold Sys.supplyOf; simp only [sup1]
    show ({ self := hubA, now := s.chain.time, hubBalance := s.chain.bank hubA 0, delegations := s.delegationsOf hubA,
            supplyOf := ({ s with bsei := t1, reward := r3 } : Sys).supplyOf,
            validatorsOf := ({ s with bsei := t1, reward := r3 } : Sys).validatorsOf } : HubEnv) = _
    rw [this]; rfl
  have hact0 : s.hub.actualState s.hubEnv = .ok st := by rw [← hubeq, ← henv]; exact hact
  obtain ⟨hbb, hsb, hbooks⟩ := hpre st hact0
  -- the slashing check took its main branch: the stSei rate is a true ratio
  obtain ⟨ss, hsR⟩ : ∃ ss, st.sRate = rateOf st.sBond ss s3.hub.reqS := by
    rcases spec.2 with ⟨hz, he⟩ | ⟨bs, ss, _, _, _, _, _, h6, _⟩
    · subst he
      rcases hz with hz | hz
      · rw [hdeq] at hz; exact absurd hz hdl
      · omega
    · exact ⟨ss, h6⟩
  have hS0 : mulDec st.reqS st.sRate ≤ st.sBond := by
    rcases hsb with hsb | hsb
    · rw [hsR, sb.reqS]
      unfold rateOf
      by_cases hz : ss + s3.hub.reqS = 0
      · have : s3.hub.reqS = 0 := by omega
        rw [this]; unfold mulDec; rw [Nat.zero_mul, Nat.zero_div]; exact Nat.zero_le _
      · rw [if_neg (by intro h; rcases h with h | h; exact hsb h; exact hz h)]
        apply C09_undelegation_within_books _ _ ss _
        exact Nat.div_mul_le_self _ _
    · rw [hsb]; unfold mulDec; rw [Nat.zero_mul, Nat.zero_div]; exact Nat.zero_le _
  have hB0 : mulDec (st.reqB + wfee) (rateOf st.bBond (s.bsei.supply - amt) (st.reqB + wfee)) ≤ st.bBond := by
    unfold rateOf
    by_cases hz : s.bsei.supply - amt + (st.reqB + wfee) = 0
    · have : st.reqB + wfee = 0 := by omega
      rw [this]; unfold mulDec; rw [Nat.zero_mul, Nat.zero_div]; exact Nat.zero_le _
    · rw [if_neg (by intro h; rcases h with h | h; exact hbb h; exact hz h)]
      apply C09_undelegation_within_books _ _ (s.bsei.supply - amt) _
      exact Nat.div_mul_le_self _ _
  obtain ⟨um, hpk⟩ := C09_pick_validator_live s3.hubEnv
    (mulDec (st.reqB + wfee) (rateOf st.bBond (s.bsei.supply - amt) (st.reqB + wfee)) + mulDec st.reqS st.sRate)
    (by rw [hdeq]; exact hdl) (by rw [hdeq]; omega) (by rw [hdeq]; exact hr)
  obtain ⟨h2, hdef2⟩ : ∃ x : HubSt, x = { (st.afterUnbondB u s.bsei.supply amt wfee) with
      sBond := st.sBond - mulDec st.reqS st.sRate,
      bBond := st.bBond - mulDec (st.reqB + wfee) (rateOf st.bBond (s.bsei.supply - amt) (st.reqB + wfee)),
      hist := upd st.hist st.batchId (some
        { time := s3.hubEnv.now, bAmt := st.reqB + wfee,
          bApplied := rateOf st.bBond (s.bsei.supply - amt) (st.reqB + wfee),
          bWithdraw := rateOf st.bBond (s.bsei.supply - amt) (st.reqB + wfee),
          sAmt := st.reqS, sApplied := st.sRate, sWithdraw := st.sRate, released := false }),
      batchId := st.batchId + 1, reqB := 0, reqS := 0, lastUnbondedTime := s3.hubEnv.now } := ⟨_, rfl⟩
  have hpu : (st.afterUnbondB u s.bsei.supply amt wfee).processUndelegations s3.hubEnv = .ok (h2, um) := by
    unfold HubSt.processUndelegations
    have e1 : (st.afterUnbondB u s.bsei.supply amt wfee).reqB = st.reqB + wfee := rfl
    have e2 : (st.afterUnbondB u s.bsei.supply amt wfee).reqS = st.reqS := rfl
    have e3 : (st.afterUnbondB u s.bsei.supply amt wfee).bRate = rateOf st.bBond (s.bsei.supply - amt) (st.reqB + wfee) := rfl
    have e4 : (st.afterUnbondB u s.bsei.supply amt wfee).sRate = st.sRate := rfl
    have e5 : (st.afterUnbondB u s.bsei.supply amt wfee).sBond = st.sBond := rfl
    have e6 : (st.afterUnbondB u s.bsei.supply amt wfee).bBond = st.bBond := rfl
    simp only [e1, e2, e3, e4, e5, e6, hpk]
    rw [if_neg (by omega), if_neg (by omega), hdef2]
    rfl
  have hun : s3.hub.unbondB s3.hubEnv amt u = .ok (h2, um ++ [HubSt.tokMsg hubA bseiA (.burn amt)]) := by
    unfold HubSt.unbondB
    simp only [hact, hbsq', hwf]
    rw [if_neg (by omega), if_neg (by rw [sb.lastUnb, hubeq, timeq]; omega)]
    simp only [hubeq, hbt]
    rw [if_pos (by rw [sb.lastUnb, sb.epoch, hubeq, timeq]; exact hgate), hpu]
    rfl
  obtain ⟨s4, hs4⟩ : ∃ x : Sys, x = { s3 with hub := h2 } := ⟨_, rfl⟩
  have H4 : s3.handle (Msg.wasm bseiA hubA (.hub (.receive u amt .unbond)) []) =
      .ok (s4, um ++ [HubSt.tokMsg hubA bseiA (.burn amt)]) := by
    simp only [Sys.handle, Sys.moveFunds, bind, Except.bind, pure, Except.pure]
    rw [if_pos trivial]
    simp only [hubExec, hubeq, hp, Bool.false_eq_true, if_false, hbt, hst, bind, Except.bind, pure, Except.pure]
    rw [if_pos trivial, ← hubeq, hun, hs4]
  -- 4b. the Undelegate messages
  obtain ⟨plan, hplan, hum⟩ : ∃ plan, calculateUndelegations 1
      (mulDec (st.reqB + wfee) (rateOf st.bBond (s.bsei.supply - amt) (st.reqB + wfee)) + mulDec st.reqS st.sRate)
      ((sortDesc s3.hubEnv.delegations).map (·.2)) = some plan ∧
      um = zipMsgs (fun v p => Msg.undelegate hubA v p) (sortDesc s3.hubEnv.delegations) plan := by
    have hpk' := hpk
    unfold pickValidator at hpk'
    simp only [] at hpk'
    split at hpk'
    · cases hpk'
    · rename_i plan hplan
      injection hpk' with hpk'
      exact ⟨plan, hplan, hpk'.symm⟩
  have c12 := C12_undeleg_conserves 0 _ _ plan hplan
  have df := delegationsOf_facts s
  have ch4 : s4.chain = s.chain := by rw [hs4, hs3, hs2, hs1]
  rw [hdeq] at hum c12
  obtain ⟨k, s4', hk, sc4, _, _, _, hrun⟩ := run_undelegates (sortDesc (s.delegationsOf hubA)) plan s4
    ([HubSt.tokMsg hubA bseiA (.burn amt)] ++ [])
    (nodup_sortDesc _ df.1)
    (fun x hx => by rw [ch4]; exact df.2 x ((mem_sortDesc x _).mp hx))
    (fun j => (c12.2.2 j).1) (by rw [ch4]; exact hnu)
  have hklen : k ≤ 12 := by
    have h1 : (sortDesc (s.delegationsOf hubA)).length = (s.delegationsOf hubA).length := by
      have : ∀ l : List (Addr × Nat), (sortDesc l).length = l.length := by
        intro l
        induction l with
        | nil => rfl
        | cons x xs ih =>
          have e : sortDesc (x :: xs) = insDesc x (sortDesc xs) := rfl
          have ins : ∀ (m : List (Addr × Nat)), (insDesc x m).length = m.length + 1 := by
            intro m
            induction m with
            | nil => rfl
            | cons y ys ihy => simp only [insDesc]; split <;> simp [ihy]
          rw [e, ins, ih]; rfl
      exact this _
    have h2' : (s.delegationsOf hubA).length ≤ 12 := by
      unfold Sys.delegationsOf
      simp only [if_true, List.length_map]
      exact Nat.le_trans (List.length_filter_le _ _) (by decide)
    omega
  -- 5. the hub burns what it received
  have bsei4 : s4'.bsei = t1 := by rw [sc4.bsei, hs4, hs3, hs2, hs1]
  have wf1 : t1.WF := st1.1.wf
  obtain ⟨t2, hbn⟩ : ∃ t, t1.burn hubA amt = .ok t := by
    unfold Token.burn
    have := Token.bal_le_supply t1 wf1 hubA
    rw [if_neg (by omega), if_neg (by omega), if_neg (by omega)]
    exact ⟨_, rfl⟩
  have sup2 : t2.supply + amt = s.bsei.supply := by
    unfold Token.burn at hbn
    have := Token.bal_le_supply t1 wf1 hubA
    rw [if_neg (by omega), if_neg (by omega), if_neg (by omega)] at hbn
    injection hbn with hbn; subst hbn
    simp only []; omega
  obtain ⟨s5, hs5⟩ : ∃ x : Sys, x = { s4' with bsei := t2 } := ⟨_, rfl⟩
  have sc34 : s4'.bseiRewardAddr = .ok rewardA := by
    have w4 : Wired s4' := by
      have fr := unbondB_frame s3.hub _ s3.hubEnv amt u _ hun
      refine ⟨?_, ?_, ?_, ?_, ?_, ?_, ?_, ?_, ?_, ?_, ?_⟩
      · rw [bsei4]; exact hub1
      · rw [sc4.hub, hs4]; show h2.dispatcher = _; rw [fr.2.dispatcher, hubeq]; exact w.hubDisp
      · rw [sc4.disp, hs4, hs3, hs2, hs1]; exact w.dispRw
      · rw [sc4.reward, hs4, hs3]; show r3.hub = _; rw [hh3, hs2]; show r2.hub = _; rw [hh2, hs1]; exact w.rwHub
      · rw [sc4.hub, hs4]; show h2.bsei = _; rw [fr.2.bsei, hubeq]; exact w.hubTok
      · rw [sc4.hub, hs4]; show External h2.creator; rw [fr.2.creator, hubeq]; exact w.hubOwner
      · rw [sc4.hub, hs4]; show External h2.newOwner; rw [fr.2.newOwner, hubeq]; exact w.hubNominee
      · rw [sc4.disp, hs4, hs3, hs2, hs1]; exact w.dispOwner
      · rw [sc4.disp, hs4, hs3, hs2, hs1]; exact w.dispNominee
      · rw [sc4.reward, hs4, hs3]; show External r3.owner
        rw [ho3, hs2]; show External r2.owner
        rw [ho2, hs1]; exact w.rwOwner
      · rw [sc4.reward, hs4, hs3]; show External r3.newOwner
        rw [hn3, hs2]; show External r2.newOwner
        rw [hn2, hs1]; exact w.rwNominee
    exact w4.rewardAddr
  have H5 : s4'.handle (HubSt.tokMsg hubA bseiA (.burn amt)) =
      .ok (s5, [Msg.wasm bseiA rewardA (.reward (.decrease hubA amt)) []]) := by
    simp only [HubSt.tokMsg, Sys.handle, Sys.moveFunds, bind, Except.bind, pure, Except.pure]
    rw [if_neg (by decide), if_pos trivial]
    simp only [bsei4, bseiExec, bind, Except.bind, pure, Except.pure, throw, throwThe, MonadExceptOf.throw, hub1, sc34]
    rw [if_neg (by simp)]
    simp only [hbn, hs5]
  -- 6. … and the reward contract lowers the hub's mirrored balance again
  have rw5 : s5.reward = r3 := by rw [hs5]; show s4'.reward = r3; rw [sc4.reward, hs4, hs3]
  have tok5 : s5.hubTokenOf s5.reward.hub = .ok bseiA := by
    rw [rw5, hh3]
    unfold Sys.hubTokenOf
    have : s2.reward.hub = hubA := by rw [hs2]; show r2.hub = _; rw [hh2, hs1]; exact w.rwHub
    rw [this]; simp only [if_true]
    have fr := unbondB_frame s3.hub _ s3.hubEnv amt u _ hun
    have : s5.hub.bsei = some bseiA := by
      rw [hs5]; show s4'.hub.bsei = _; rw [sc4.hub, hs4]; show h2.bsei = _; rw [fr.2.bsei, hubeq]; exact hbt
    rw [this]
  have hb3h : r3.hBal hubA = s.bsei.bal hubA + amt := by
    rw [hb3, hs2]; show r2.hBal hubA + amt = _
    rw [hoth2 hubA (Ne.symm hu), hs1]; show s.reward.hBal hubA + amt = _; rw [hmh]
  have htot3' : r3.totalBalance = s.bsei.supply := by
    rw [htot3, hs2]; show r2.totalBalance + amt = _
    rw [htot2, hs1]; show s.reward.totalBalance - amt + amt = _; rw [hmt]; omega
  obtain ⟨r6, hr6, inv6, hb6, htot6, hh6, hoth6, _, _⟩ := reward_decrease_ok s5.reward rewardA
    (s5.hubDispatcherOf s5.reward.hub) (s5.chain.bank rewardA) bseiA hubA amt (by rw [rw5]; exact inv3)
    (by rw [rw5, hb3h]; omega) (by rw [rw5, htot3']; exact hsup)
  obtain ⟨s6, hs6⟩ : ∃ x : Sys, x = { s5 with reward := r6 } := ⟨_, rfl⟩
  have H6 : s5.handle (Msg.wasm bseiA rewardA (.reward (.decrease hubA amt)) []) = .ok (s6, []) := by
    simp only [Sys.handle, Sys.moveFunds, bind, Except.bind, pure, Except.pure]
    rw [if_neg (by decide), if_neg (by decide), if_neg (by decide), if_pos trivial]
    simp only [tok5, hr6, hs6]
  have psp := processUndelegations_spec _ _ _ _ hpu
  refine ⟨s6, ?_, ?_, ?_, ?_, ?_⟩
  · unfold Sys.exec
    obtain ⟨n2, hn2⟩ : ∃ n2, 396 - k = n2 + 2 := ⟨394 - k, by omega⟩
    have e396 : (396 : Nat) = (396 - k) + k := by omega
    have hr1 : Sys.run 400 s [Msg.wasm u bseiA (.tok (.send hubA amt .unbond)) []] =
        Sys.run 396 s4 ((um ++ [HubSt.tokMsg hubA bseiA (.burn amt)]) ++ []) := by
      simp only [Sys.run, H1, H2, H3, H4, List.nil_append, List.append_nil, List.cons_append, List.singleton_append]
    rw [hr1, hum, List.append_assoc, e396, hrun (396 - k), hn2]
    simp only [Sys.run, H5, H6, List.nil_append, List.append_nil, List.singleton_append]
  · rw [hs6, hs5]; exact sup2
  · rw [hs6]; show r6.totalBalance = s5.bsei.supply
    rw [htot6, rw5, htot3', hs5]; show s.bsei.supply - amt = t2.supply; omega
  · rw [hs6, hs5]; show s4'.hub.batchId = _
    rw [sc4.hub, hs4]; show h2.batchId = _
    rw [hdef2]; show st.batchId + 1 = _; rw [sb.batchId, hubeq]
  · rw [hs6, hs5]
    have hent : s4'.hub.hist s.hub.batchId = some
        { time := s3.hubEnv.now, bAmt := st.reqB + wfee,
          bApplied := rateOf st.bBond (s.bsei.supply - amt) (st.reqB + wfee),
          bWithdraw := rateOf st.bBond (s.bsei.supply - amt) (st.reqB + wfee),
          sAmt := st.reqS, sApplied := st.sRate, sWithdraw := st.sRate, released := false } := by
      rw [sc4.hub, hs4]; show h2.hist s.hub.batchId = _
      rw [hdef2]; show upd st.hist st.batchId _ s.hub.batchId = _
      rw [sb.batchId, hubeq, upd_same]
    exact ⟨_, hent, timeq, rfl⟩

end Krp
