/-
  C12 — Stake distribution conserves amounts and never worsens validator imbalance.

  Property theorems only (helper lemmas live in Krp/Lemmas/Registry.lean).
  Quantified over every list (any length, any order, ties, zeros) and every amount; the only
  side conditions are the ones the Rust itself enforces (non-empty list, u128 range,
  amount ≤ total for undelegation).
-/
import Krp.Lemmas.Registry
namespace Krp

/-- `calculate_delegations` fails exactly for an empty list (or when the totals leave u128). -/
theorem C12_deleg_fails_iff (amount : Nat) (ds : List Nat) :
    calculateDelegations amount ds = none ↔ ds = [] ∨ U128 ≤ ds.sum + amount := by
  unfold calculateDelegations
  by_cases h1 : ds = []
  · simp [h1]
  · by_cases h2 : ds.sum + amount ≥ U128
    · simp [h1, h2]
    · simp [h1, h2]

private theorem deleg_cap_ge (amount : Nat) (ds : List Nat) (hne : ds ≠ []) :
    amount ≤ capSum ((ds.sum + amount) / ds.length) ((ds.sum + amount) % ds.length) 0 ds := by
  have hlen : 0 < ds.length := List.length_pos_iff.mpr hne
  have h1 := targetSum_le_cap ((ds.sum + amount) / ds.length) ((ds.sum + amount) % ds.length) 0 ds
  have h2 := targetSum_eq ((ds.sum + amount) / ds.length) ((ds.sum + amount) % ds.length) 0 ds
  have h3 := Nat.mod_lt (ds.sum + amount) hlen
  have h4 := Nat.div_add_mod (ds.sum + amount) ds.length
  rw [Nat.sub_zero, Nat.min_eq_left (Nat.le_of_lt h3)] at h2
  omega

/-- The whole amount is placed: nothing is left over and the plan sums to the amount. -/
theorem C12_deleg_conserves (amount : Nat) (ds : List Nat) (r : Nat) (plan : List Nat)
    (h : calculateDelegations amount ds = some (r, plan)) :
    r = 0 ∧ plan.sum = amount ∧ plan.length = ds.length := by
  unfold calculateDelegations at h
  by_cases h1 : ds = []
  · simp [h1] at h
  · by_cases h2 : ds.sum + amount ≥ U128
    · simp [h1, h2] at h
    · simp only [h1, h2, if_false] at h
      have hs := delegPass_spec ((ds.sum + amount) / ds.length) ((ds.sum + amount) % ds.length) ds 0 amount
      have hc := deleg_cap_ge amount ds h1
      injection h with h
      rw [h] at hs
      simp only at hs
      omega

/-- Nothing goes to a validator already above its even share, and nobody is lifted above the
    even share rounded up. -/
theorem C12_deleg_balanced (amount : Nat) (ds : List Nat) (r : Nat) (plan : List Nat)
    (h : calculateDelegations amount ds = some (r, plan)) (j : Nat) :
    (nth ds j > (ds.sum + amount) / ds.length + extraCoin j ((ds.sum + amount) % ds.length) →
        nth plan j = 0) ∧
    (0 < nth plan j → nth ds j + nth plan j ≤ (ds.sum + amount + ds.length - 1) / ds.length) := by
  unfold calculateDelegations at h
  by_cases h1 : ds = []
  · simp [h1] at h
  · by_cases h2 : ds.sum + amount ≥ U128
    · simp [h1, h2] at h
    · simp only [h1, h2, if_false] at h
      have hlen : 0 < ds.length := List.length_pos_iff.mpr h1
      have hj := delegPass_le_cap ((ds.sum + amount) / ds.length) ((ds.sum + amount) % ds.length) ds 0 amount j
      injection h with h
      rw [h] at hj
      simp only [Nat.zero_add] at hj
      constructor
      · intro hgt; omega
      · intro hpos
        have hle : nth ds j + nth plan j ≤
            (ds.sum + amount) / ds.length + extraCoin j ((ds.sum + amount) % ds.length) := by omega
        refine Nat.le_trans hle ?_
        rw [Nat.le_div_iff_mul_le hlen]
        have h4 := Nat.div_add_mod (ds.sum + amount) ds.length
        unfold extraCoin
        split
        · rw [Nat.add_mul, Nat.mul_comm _ ds.length]; omega
        · rw [Nat.add_zero, Nat.mul_comm _ ds.length]; omega

private theorem undeleg_take_ge (amount : Nat) (ds : List Nat) (hne : ds ≠ [])
    (hle : amount ≤ ds.sum) :
    amount ≤ takeSum ((ds.sum - amount) / ds.length) ((ds.sum - amount) % ds.length) 0 ds := by
  have hlen : 0 < ds.length := List.length_pos_iff.mpr hne
  have h1 := sum_le_take ((ds.sum - amount) / ds.length) ((ds.sum - amount) % ds.length) 0 ds
  have h2 := targetSum_eq ((ds.sum - amount) / ds.length) ((ds.sum - amount) % ds.length) 0 ds
  have h3 := Nat.mod_lt (ds.sum - amount) hlen
  have h4 := Nat.div_add_mod (ds.sum - amount) ds.length
  rw [Nat.sub_zero, Nat.min_eq_left (Nat.le_of_lt h3)] at h2
  omega

private theorem undelegLoop_zero (fuel : Nat) (ds acc : List Nat) :
    undelegLoop fuel 0 ds acc = some acc := by
  cases fuel <;> rfl

/-- The `while` loop needs exactly one pass: with any fuel ≥ 1 the result is the first pass. -/
private theorem undeleg_first_pass (fuel amount : Nat) (ds : List Nat) (hne : ds ≠ [])
    (hle : amount ≤ ds.sum) :
    undelegLoop (fuel + 1) amount ds (List.replicate ds.length 0) =
      some (if amount = 0 then List.replicate ds.length 0 else
        (undelegPass ((ds.sum - amount) / ds.length) ((ds.sum - amount) % ds.length) 0 amount ds).2) := by
  cases amount with
  | zero => simp [undelegLoop]
  | succ a =>
    have hs := undelegPass_spec ((ds.sum - (a + 1)) / ds.length) ((ds.sum - (a + 1)) % ds.length) ds 0 (a + 1)
    have ht := undeleg_take_ge (a + 1) ds hne hle
    have h0 : (undelegPass ((ds.sum - (a + 1)) / ds.length) ((ds.sum - (a + 1)) % ds.length) 0 (a + 1) ds).1 = 0 := by
      omega
    simp only [undelegLoop, h0, undelegLoop_zero, Nat.add_one_ne_zero, if_false]
    rw [zipAdd_zero _ _ hs.2.2]

/-- `calculate_undelegations` terminates (one pass of the `while`), and fails exactly when the
    list is empty or the request exceeds the total (or the total leaves u128). -/
theorem C12_undeleg_fails_iff (fuel amount : Nat) (ds : List Nat) :
    calculateUndelegations (fuel + 1) amount ds = none ↔
      ds = [] ∨ U128 ≤ ds.sum ∨ ds.sum < amount := by
  unfold calculateUndelegations
  by_cases h1 : ds = []
  · simp [h1]
  · by_cases h2 : ds.sum ≥ U128
    · simp [h1, h2]
    · by_cases h3 : amount > ds.sum
      · simp [h1, h2, h3]
      · simp only [h1, h2, h3, if_false]
        rw [undeleg_first_pass fuel amount ds h1 (by omega)]
        simp

/-- More fuel changes nothing: the loop has already exited after the first pass. -/
theorem C12_undeleg_terminates (fuel amount : Nat) (ds : List Nat) :
    calculateUndelegations (fuel + 1) amount ds = calculateUndelegations 1 amount ds := by
  unfold calculateUndelegations
  by_cases h1 : ds = []
  · simp [h1]
  · by_cases h2 : ds.sum ≥ U128
    · simp [h1, h2]
    · by_cases h3 : amount > ds.sum
      · simp [h1, h2, h3]
      · simp only [h1, h2, h3, if_false]
        rw [undeleg_first_pass fuel amount ds h1 (by omega),
            undeleg_first_pass 0 amount ds h1 (by omega)]

/-- Exactly the requested amount is removed, never more from a validator than it holds, and a
    validator that gives something keeps at least the even share rounded down. -/
theorem C12_undeleg_conserves (fuel amount : Nat) (ds plan : List Nat)
    (h : calculateUndelegations (fuel + 1) amount ds = some plan) :
    plan.sum = amount ∧ plan.length = ds.length ∧
    ∀ j, nth plan j ≤ nth ds j ∧
      (0 < nth plan j → (ds.sum - amount) / ds.length ≤ nth ds j - nth plan j) := by
  unfold calculateUndelegations at h
  by_cases h1 : ds = []
  · simp [h1] at h
  · by_cases h2 : ds.sum ≥ U128
    · simp [h1, h2] at h
    · by_cases h3 : amount > ds.sum
      · simp [h1, h2, h3] at h
      · simp only [h1, h2, h3, if_false] at h
        rw [undeleg_first_pass fuel amount ds h1 (by omega)] at h
        injection h with h
        by_cases h0 : amount = 0
        · simp only [h0, if_true] at h
          subst h
          simp [h0, nth_replicate_zero]
        · simp only [h0, if_false] at h
          have hs := undelegPass_spec ((ds.sum - amount) / ds.length) ((ds.sum - amount) % ds.length) ds 0 amount
          have ht := undeleg_take_ge amount ds h1 (by omega)
          rw [h] at hs
          refine ⟨by omega, hs.2.2, ?_⟩
          intro j
          have hj := undelegPass_le ((ds.sum - amount) / ds.length) ((ds.sum - amount) % ds.length) ds 0 amount j
          rw [h] at hj
          simp only [Nat.zero_add] at hj
          generalize (ds.sum - amount) / ds.length = cpv at hj ⊢
          constructor
          · omega
          · intro hpos; omega

/-! Non-vacuity: concrete inputs meeting the hypotheses (the unit-test vectors of the repo). -/
example : calculateDelegations 100 [0, 0, 0] = some (0, [34, 33, 33]) := by decide
example : calculateDelegations 7 [10, 2, 0] = some (0, [0, 4, 3]) := by decide
example : calculateUndelegations 1 10 [100, 10, 10] = some [10, 0, 0] := by decide
example : calculateUndelegations 1 121 [100, 10, 11] = some [100, 10, 11] := by decide

end Krp
