/-
  C02 — Hub never books more stake than is delegated; bonds are delegated in full.
  `Δ` = Σ of the hub's delegations as the staking module reports them.
-/
import Krp.Props.C03
import Krp.Props.C07
import Krp.Lemmas.Wiring
import Krp.Lemmas.Bank
namespace Krp
open HubSt

def delegatedBy : List Msg → Nat
  | [] => 0
  | Msg.delegate _ _ a :: ms => a + delegatedBy ms
  | _ :: ms => delegatedBy ms

private theorem delegatedBy_zip (self : Addr) (vs : List (Addr × Nat)) (plan : List Nat)
    (hl : plan.length = vs.length) :
    delegatedBy (zipMsgs (fun v p => Msg.delegate self v p) vs plan) = plan.sum ∧
    ∀ m ∈ zipMsgs (fun v p => Msg.delegate self v p) vs plan, ∃ v a, m = Msg.delegate self v a ∧ v ∈ vs.map (·.1) ∧ 0 < a := by
  induction vs generalizing plan with
  | nil => cases plan <;> simp_all [zipMsgs, delegatedBy]
  | cons v vs ih =>
    cases plan with
    | nil => simp at hl
    | cons p ps =>
      have := ih ps (by simpa using hl)
      simp only [zipMsgs, List.sum_cons]
      constructor
      · split
        · rename_i hp; simp only [List.nil_append, this.1, hp]; omega
        · simp only [List.singleton_append, delegatedBy, this.1]
      · intro m hm
        simp only [List.mem_append] at hm
        rcases hm with hm | hm
        · split at hm
          · simp at hm
          · rename_i hp
            simp at hm
            exact ⟨v.1, p, hm, by simp, Nat.pos_of_ne_zero hp⟩
        · obtain ⟨w, a, e1, e2, e3⟩ := this.2 m hm
          exact ⟨w, a, e1, by simp only [List.map_cons, List.mem_cons]; exact Or.inr e2, e3⟩

/-- Every coin sent with Bond / BondForStSei / BondRewards is delegated in the same transaction:
    the Delegate messages sum to exactly the payment, go only to validators the registry returned,
    and none is empty. -/
theorem C02_bond_delegated_in_full (h : HubSt) (e : HubEnv) (p : Nat) (ms : List Msg)
    (hx : h.delegMsgs e p = .ok ms) :
    delegatedBy ms = p ∧
    ∃ reg vs, h.registry = some reg ∧ e.validatorsOf reg = .ok vs ∧
      ∀ m ∈ ms, ∃ v a, m = Msg.delegate e.self v a ∧ v ∈ vs.map (·.1) ∧ 0 < a := by
  unfold delegMsgs at hx
  split at hx
  · cases hx
  · rename_i reg hreg
    split at hx
    · cases hx
    · rename_i vs hvs
      split at hx
      · cases hx
      · split at hx
        · cases hx
        · rename_i plan hplan
          injection hx with hx; subst hx
          have hc := C12_deleg_conserves p _ plan.1 plan.2 (by rw [hplan])
          have hz := delegatedBy_zip e.self vs plan.2 (by simpa using hc.2.2)
          exact ⟨by rw [hz.1]; exact hc.2.1, reg, vs, hreg, hvs, hz.2⟩

/-- After every slashing check (explicit, or the one that opens bond / unbond / convert) the booked
    stake does not exceed the delegated stake. -/
theorem C02_books_le_delegated (h st : HubSt) (e : HubEnv) (hx : h.actualState e = .ok st)
    (hd : e.delegations ≠ [] ∨ h.bBond + h.sBond = 0) :
    st.bBond + st.sBond ≤ (e.delegations.map (·.2)).sum := by
  have hs := actualState_spec h st e hx
  rcases hs.2 with ⟨hc, he⟩ | ⟨bs, ss, _, _, _, _, _, _, hcase⟩
  · subst he
    rcases hc with hc | hc
    · rcases hd with hd | hd
      · exact absurd hc hd
      · omega
    · omega
  · rcases hcase with ⟨hle, hb, hsb⟩ | ⟨_, _, hsum⟩ <;> omega

/-- A bond raises the books by exactly the payment — the same amount its Delegate messages add to
    the delegations — so `delegated − booked` is unchanged by bonding. -/
theorem C02_bond_keeps_gap (h h' : HubSt) (e : HubEnv) (sender : Addr) (funds : List (Denom × Nat))
    (ms : List Msg) :
    (h.bondB e sender funds = .ok (h', ms) → ∃ st p, h.actualState e = .ok st ∧
        h'.bBond + h'.sBond = st.bBond + st.sBond + p ∧ delegatedBy ms = p) ∧
    (h.bondS e sender funds = .ok (h', ms) → ∃ st p, h.actualState e = .ok st ∧
        h'.bBond + h'.sBond = st.bBond + st.sBond + p ∧ delegatedBy ms = p) ∧
    (h.bondR e sender funds = .ok (h', ms) → ∃ st p, h.actualState e = .ok st ∧
        h'.bBond + h'.sBond = st.bBond + st.sBond + p ∧ delegatedBy ms = p) := by
  have tail : ∀ (ds : List Msg) (x : Msg), (∀ d v a, x ≠ Msg.delegate d v a) →
      delegatedBy (ds ++ [x]) = delegatedBy ds := by
    intro ds x hx
    induction ds with
    | nil => cases x <;> simp_all [delegatedBy]
    | cons d ds ih => cases d <;> simp_all [delegatedBy]
  refine ⟨fun hx => ?_, fun hx => ?_, fun hx => ?_⟩
  · obtain ⟨p, st, mint, delegs, tok, _, hst, _, _, hd, _, hh, hms⟩ := bondB_spec h h' e sender funds ms hx
    refine ⟨st, p, hst, by rw [hh]; simp only []; omega, ?_⟩
    rw [hms, tail _ _ (by intro d v a; simp [tokMsg])]
    exact (C02_bond_delegated_in_full h e p delegs hd).1
  · obtain ⟨p, st, delegs, tok, _, hst, _, hd, _, hh, hms⟩ := bondS_spec h h' e sender funds ms hx
    refine ⟨st, p, hst, by rw [hh]; simp only []; omega, ?_⟩
    rw [hms, tail _ _ (by intro d v a; simp [tokMsg])]
    exact (C02_bond_delegated_in_full h e p delegs hd).1
  · obtain ⟨p, st, _, _, hst, hd, hh⟩ := bondR_spec h h' e sender funds ms hx
    exact ⟨st, p, hst, by rw [hh]; simp only []; omega, (C02_bond_delegated_in_full h e p ms hd).1⟩

/-- Each batch undelegation removes from the books exactly the amount its Undelegate messages
    undelegate. -/
theorem C02_undelegation_exact (h h' : HubSt) (e : HubEnv) (ms : List Msg)
    (hx : h.processUndelegations e = .ok (h', ms)) :
    h'.bBond + h'.sBond + undelegatedBy ms = h.bBond + h.sBond := by
  have sp := processUndelegations_spec h h' e ms hx
  have hu := C03_undelegate_messages_sum e _ ms sp.1
  omega

/-- Conversion moves value between the pools and leaves their sum, hence the gap, unchanged. -/
theorem C02_convert_keeps_sum (h h' : HubSt) (e : HubEnv) (amount : Nat) (user : Addr) (ms : List Msg) :
    (h.convertSB e amount user = .ok (h', ms) → ∃ st, h.actualState e = .ok st ∧
        h'.bBond + h'.sBond = st.bBond + st.sBond) ∧
    (h.convertBS e amount user = .ok (h', ms) → ∃ st, h.actualState e = .ok st ∧
        h'.bBond + h'.sBond = st.bBond + st.sBond) := by
  constructor
  · intro hx
    obtain ⟨st, _, _, _, _, _, hst, _, _, _, _, _, _, hle, _, hh, _⟩ := convertSB_spec h h' e amount user ms hx
    exact ⟨st, hst, by rw [hh]; simp only []; omega⟩
  · intro hx
    obtain ⟨st, _, _, _, _, _, hst, _, _, _, _, _, _, hle, _, hh, _⟩ := convertBS_spec h h' e amount user ms hx
    exact ⟨st, hst, by rw [hh]; simp only []; omega⟩

example : calculateDelegations 1000 [0, 0, 0] = some (0, [334, 333, 333]) := by decide

/-! ### Over whole transactions and histories

  Staking messages of the hub (`Delegate` / `Undelegate` with the hub as delegator) are emitted at
  the front of a handler's message list and therefore executed before anything else.  The
  invariant carried through the message queue is

      booked stake + pending hub undelegations ≤ delegated stake + pending hub delegations

  with the pending staking messages forming a prefix of the queue. -/

def isStake : Msg → Bool
  | .delegate d _ _ => d == hubA
  | .undelegate d _ _ => d == hubA
  | _ => false

def delSum : List Msg → Nat
  | [] => 0
  | m :: ms => (match m with | .delegate d _ a => if d = hubA then a else 0 | _ => 0) + delSum ms

def undelSum : List Msg → Nat
  | [] => 0
  | m :: ms => (match m with | .undelegate d _ a => if d = hubA then a else 0 | _ => 0) + undelSum ms

theorem delSum_append (x y : List Msg) : delSum (x ++ y) = delSum x + delSum y := by
  induction x with
  | nil => simp [delSum]
  | cons m ms ih => simp only [List.cons_append, delSum, ih]; omega

theorem undelSum_append (x y : List Msg) : undelSum (x ++ y) = undelSum x + undelSum y := by
  induction x with
  | nil => simp [undelSum]
  | cons m ms ih => simp only [List.cons_append, undelSum, ih]; omega

theorem noStake_sums (q : List Msg) (h : ∀ m ∈ q, isStake m = false) : delSum q = 0 ∧ undelSum q = 0 := by
  induction q with
  | nil => exact ⟨rfl, rfl⟩
  | cons m ms ih =>
    have hm := h m (List.mem_cons_self ..)
    have hr := ih (fun x hx => h x (List.mem_cons_of_mem _ hx))
    cases m <;> simp_all [delSum, undelSum, isStake]

theorem sentBy_noStake (a : Addr) (ha : a ≠ hubA) (ms : List Msg) (h : SentBy a ms) :
    ∀ m ∈ ms, isStake m = false := by
  intro m hm
  have := h m hm
  cases m <;> simp_all [isStake, Msg.sentFrom]

/-- the hub's own Delegate messages: all staking, and `delSum` is their total -/
theorem delegs_stake (h : HubSt) (e : HubEnv) (p : Nat) (ms : List Msg) (he : e.self = hubA)
    (hx : h.delegMsgs e p = .ok ms) :
    (∀ m ∈ ms, isStake m = true) ∧ delSum ms = p ∧ undelSum ms = 0 := by
  obtain ⟨hsum, reg, vs, _, _, hall⟩ := C02_bond_delegated_in_full h e p ms hx
  have key : ∀ (l : List Msg), (∀ m ∈ l, ∃ v a, m = Msg.delegate e.self v a ∧ v ∈ vs.map (·.1) ∧ 0 < a) →
      (∀ m ∈ l, isStake m = true) ∧ delSum l = delegatedBy l ∧ undelSum l = 0 := by
    intro l
    induction l with
    | nil => intro _; exact ⟨(fun _ h => by cases h), rfl, rfl⟩
    | cons m ms ih =>
      intro hl
      obtain ⟨v, a, hm, _, _⟩ := hl m (List.mem_cons_self ..)
      have r := ih (fun x hx => hl x (List.mem_cons_of_mem _ hx))
      subst hm
      refine ⟨fun x hx => ?_, ?_, ?_⟩
      · rcases List.mem_cons.mp hx with rfl | hx
        · simp [isStake, he]
        · exact r.1 x hx
      · simp only [delSum, delegatedBy, he, if_true, r.2.1]
      · simp only [undelSum, r.2.2]
  have k := key ms hall
  exact ⟨k.1, by rw [k.2.1, hsum], k.2.2⟩

/-- the hub's own Undelegate messages -/
theorem undelegs_stake (e : HubEnv) (claim : Nat) (ms : List Msg) (he : e.self = hubA)
    (hx : pickValidator e claim = .ok ms) :
    (∀ m ∈ ms, isStake m = true) ∧ undelSum ms = claim ∧ delSum ms = 0 := by
  have hsum := C03_undelegate_messages_sum e claim ms hx
  unfold pickValidator at hx
  simp only [] at hx
  split at hx
  · cases hx
  · rename_i plan hplan
    injection hx with hx
    have key : ∀ (vs : List (Addr × Nat)) (ps : List Nat),
        (∀ m ∈ zipMsgs (fun v p => Msg.undelegate hubA v p) vs ps, isStake m = true) ∧
        undelSum (zipMsgs (fun v p => Msg.undelegate hubA v p) vs ps) =
          undelegatedBy (zipMsgs (fun v p => Msg.undelegate hubA v p) vs ps) ∧
        delSum (zipMsgs (fun v p => Msg.undelegate hubA v p) vs ps) = 0 := by
      intro vs
      induction vs with
      | nil => intro ps; simp [zipMsgs, undelSum, delSum, undelegatedBy]
      | cons v vs ih =>
        intro ps
        cases ps with
        | nil => simp [zipMsgs, undelSum, delSum, undelegatedBy]
        | cons p ps =>
          obtain ⟨v1, v2⟩ := v
          have r := ih ps
          simp only [zipMsgs]
          by_cases hp : p = 0
          · simp only [hp, if_true, List.nil_append]; exact r
          · simp only [hp, if_false, List.singleton_append]
            refine ⟨fun x hx' => ?_, ?_, ?_⟩
            · rcases List.mem_cons.mp hx' with rfl | hx'
              · simp [isStake]
              · exact r.1 x hx'
            · simp only [undelSum, undelegatedBy, if_true, r.2.1]
            · simp only [delSum, r.2.2]
    subst hx
    rw [he] at hsum ⊢
    have k := key (sortDesc e.delegations) plan
    exact ⟨k.1, by rw [k.2.1]; exact hsum, k.2.2⟩

/-- **One hub message, on the books.** If the booked stake is at most `T` = the delegated stake the
    hub sees, then after any accepted hub message the emitted list is (staking messages) ++ (others)
    and  booked' + undelegations emitted ≤ T + delegations emitted. -/
theorem hub_books_stepG (h h' : HubSt) (e : HubEnv) (sender : Addr) (funds : List (Denom × Nat))
    (m : HubMsg) (ms : List Msg) (T : Nat) (he : e.self = hubA)
    (hT : (e.delegations.map (·.2)).sum = T)
    (hinv : h.bBond + h.sBond ≤ T ∨ ((m = .bond ∨ m = .bondForStSei ∨ (∃ u a k, m = .receive u a k) ∨ m = .bondRewards) ∧
      e.delegations ≠ [] ∧ h.bBond + h.sBond ≠ 0))
    (hx : hubExec h e sender funds m = .ok (h', ms)) :
    ∃ pre rest, ms = pre ++ rest ∧ (∀ x ∈ pre, isStake x = true) ∧ (∀ x ∈ rest, isStake x = false) ∧
      h'.bBond + h'.sBond + undelSum pre ≤ T + delSum pre := by
  -- the slashing check keeps or lowers the books
  have act : ∀ st, h.actualState e = .ok st → st.bBond + st.sBond ≤ T := by
    intro st hst
    have hs := actualState_spec h st e hst
    rcases hs.2 with ⟨hdeg, heq⟩ | ⟨bs, ss, _, _, _, _, _, _, hcase⟩
    · subst heq
      rcases hinv with h1 | ⟨_, h2, h3⟩
      · exact h1
      · rcases hdeg with hdeg | hdeg
        · exact absurd hdeg h2
        · exact absurd hdeg h3
    · rcases hcase with ⟨_, hb, hsb⟩ | ⟨_, _, hsum⟩ <;> omega
  have plain : ∀ {x : HubSt} (rest : List Msg), x.bBond + x.sBond ≤ T → (∀ y ∈ rest, isStake y = false) →
      ∃ pre rest', rest = pre ++ rest' ∧ (∀ y ∈ pre, isStake y = true) ∧ (∀ y ∈ rest', isStake y = false) ∧
        x.bBond + x.sBond + undelSum pre ≤ T + delSum pre :=
    fun rest hb hr => ⟨[], rest, rfl, (fun _ hm => by cases hm), hr, (by simp [undelSum, delSum]; exact hb)⟩
  have nt : (m ≠ .bond ∧ m ≠ .bondForStSei ∧ (∀ u a k, m ≠ .receive u a k) ∧ m ≠ .bondRewards) → h.bBond + h.sBond ≤ T := by
    intro hn
    rcases hinv with h1 | ⟨ht, _⟩
    · exact h1
    · rcases ht with r | r | ⟨u, a, k, r⟩ | r
      · exact absurd r hn.1
      · exact absurd r hn.2.1
      · exact absurd r (hn.2.2.1 u a k)
      · exact absurd r hn.2.2.2
  cases m with
  | migrateWaitList limit =>
    simp only [hubExec] at hx
    split at hx
    · injection hx with hx; injection hx with h1 h2; subst h1; subst h2
      refine plain [] ?_ (fun _ hm => by cases hm)
      have f := migrate_frame h limit
      unfold migrate
      simp only []
      split
      · exact (nt ⟨nofun, nofun, fun _ _ _ => nofun, nofun⟩)
      · show (List.foldl migrateOne h _).bBond + (List.foldl migrateOne h _).sBond ≤ T
        have : ∀ (l : List (Addr × Nat × Nat)) (x : HubSt), (l.foldl migrateOne x).bBond = x.bBond ∧
            (l.foldl migrateOne x).sBond = x.sBond := by
          intro l
          induction l with
          | nil => intro x; exact ⟨rfl, rfl⟩
          | cons a l ih => intro x; simp only [List.foldl_cons]; rw [(ih _).1, (ih _).2]; exact ⟨rfl, rfl⟩
        rw [(this _ h).1, (this _ h).2]; exact (nt ⟨nofun, nofun, fun _ _ _ => nofun, nofun⟩)
    · cases hx
  | updateParams a b c d p r =>
    simp only [hubExec] at hx
    exc_norm at hx
    split at hx
    · cases hx
    · rename_i h1 hp
      injection hx with hx; injection hx with e1 e2; subst e1; subst e2
      unfold updateParams at hp
      exc_norm at hp
      exc_split at hp
      all_goals exact plain [] (nt ⟨nofun, nofun, fun _ _ _ => nofun, nofun⟩) (fun _ hm => by cases hm)
  | receive user amt hook =>
    simp only [hubExec] at hx
    split at hx
    · cases hx
    · exc_norm at hx
      split at hx
      · cases hx
      · split at hx
        · cases hx
        · cases hook with
          | other => simp only [] at hx; cases hx
          | convert =>
            simp only [] at hx
            split at hx
            · obtain ⟨st, hst, hsum⟩ := (C02_convert_keeps_sum h h' e amt user ms).2 hx
              obtain ⟨_, _, _, _, _, _, _, _, _, _, _, _, _, _, _, _, hm⟩ := convertBS_spec _ _ _ _ _ _ hx
              subst hm
              exact plain _ (by rw [hsum]; exact act st hst) (by intro y hy; simp at hy; rcases hy with rfl | rfl <;> rfl)
            · split at hx
              · obtain ⟨st, hst, hsum⟩ := (C02_convert_keeps_sum h h' e amt user ms).1 hx
                obtain ⟨_, _, _, _, _, _, _, _, _, _, _, _, _, _, _, _, hm⟩ := convertSB_spec _ _ _ _ _ _ hx
                subst hm
                exact plain _ (by rw [hsum]; exact act st hst) (by intro y hy; simp at hy; rcases hy with rfl | rfl <;> rfl)
              · cases hx
          | unbond =>
            simp only [] at hx
            split at hx
            · obtain ⟨st, supply, wf, tok, hst, _, _, _, _, _, hcase⟩ := unbondB_spec _ _ _ _ _ _ hx
              have hb : (st.afterUnbondB user supply amt wf).bBond + (st.afterUnbondB user supply amt wf).sBond ≤ T :=
                act st hst
              rcases hcase with ⟨_, um, hp, hm⟩ | ⟨_, hh, hm⟩
              · have ex := C02_undelegation_exact _ _ _ _ hp
                have sp := processUndelegations_spec _ _ _ _ hp
                have us := undelegs_stake e _ um he sp.1
                have hu := C03_undelegate_messages_sum e _ um sp.1
                refine ⟨um, [tokMsg e.self tok (.burn amt)], hm, us.1, by intro y hy; simp at hy; subst hy; rfl, ?_⟩
                rw [us.2.1, us.2.2]; omega
              · subst hh; subst hm
                exact plain _ hb (by intro y hy; simp at hy; subst hy; rfl)
            · split at hx
              · obtain ⟨st, tok, hst, _, _, hcase⟩ := unbondS_spec _ _ _ _ _ _ hx
                have hb : (st.afterUnbondS user amt).bBond + (st.afterUnbondS user amt).sBond ≤ T := act st hst
                rcases hcase with ⟨_, um, hp, hm⟩ | ⟨_, hh, hm⟩
                · have ex := C02_undelegation_exact _ _ _ _ hp
                  have sp := processUndelegations_spec _ _ _ _ hp
                  have us := undelegs_stake e _ um he sp.1
                  have hu := C03_undelegate_messages_sum e _ um sp.1
                  refine ⟨um, [tokMsg e.self tok (.burn amt)], hm, us.1, by intro y hy; simp at hy; subst hy; rfl, ?_⟩
                  rw [us.2.1, us.2.2]; omega
                · subst hh; subst hm
                  exact plain _ hb (by intro y hy; simp at hy; subst hy; rfl)
              · cases hx
  | bond =>
    simp only [hubExec] at hx; split at hx
    · cases hx
    · obtain ⟨p, st, mint, dl, tok, _, hst, _, _, hd, _, hh, hm⟩ := bondB_spec _ _ _ _ _ _ hx
      have ds := delegs_stake h e p dl he hd
      refine ⟨dl, [tokMsg e.self tok (.mint sender mint)], hm, ds.1, by intro y hy; simp at hy; subst hy; rfl, ?_⟩
      have := act st hst
      rw [hh, ds.2.1, ds.2.2]; simp only []; omega
  | bondForStSei =>
    simp only [hubExec] at hx; split at hx
    · cases hx
    · obtain ⟨p, st, dl, tok, _, hst, _, hd, _, hh, hm⟩ := bondS_spec _ _ _ _ _ _ hx
      have ds := delegs_stake h e p dl he hd
      refine ⟨dl, [tokMsg e.self tok (.mint sender (decDiv p st.sRate))], hm, ds.1, by intro y hy; simp at hy; subst hy; rfl, ?_⟩
      have := act st hst
      rw [hh, ds.2.1, ds.2.2]; simp only []; omega
  | bondRewards =>
    simp only [hubExec] at hx; split at hx
    · cases hx
    · obtain ⟨p, st, _, _, hst, hd, hh⟩ := bondR_spec _ _ _ _ _ _ hx
      have ds := delegs_stake h e p ms he hd
      refine ⟨ms, [], by simp, ds.1, (fun _ hm => by cases hm), ?_⟩
      have := act st hst
      rw [hh, ds.2.1, ds.2.2]; simp only []; omega
  | updateGlobalIndex =>
    simp only [hubExec] at hx; split at hx
    · cases hx
    · unfold updateGlobal at hx
      exc_norm at hx
      exc_split at hx
      all_goals
        refine plain _ (nt ⟨nofun, nofun, fun _ _ _ => nofun, nofun⟩) ?_
        intro y hy
        simp only [List.mem_append, List.mem_map, List.mem_cons, List.mem_nil_iff, or_false] at hy
        rcases hy with ⟨d, _, rfl⟩ | rfl | rfl <;> rfl
  | withdrawUnbonded =>
    simp only [hubExec] at hx; split at hx
    · cases hx
    · obtain ⟨_, h1, hp, _, _, hh, hm⟩ := withdraw_spec _ _ _ _ _ hx
      have sp := processWithdrawRate_spec h h1 _ _ hp
      have fs := delWait_fold_spec (h1.finished sender).2 sender h1
      subst hm
      refine plain _ ?_ (by intro y hy; simp at hy; subst hy; rfl)
      subst hh
      show (List.foldl (fun hh i => hh.delWait sender i) h1 (h1.finished sender).2).bBond +
        (List.foldl (fun hh i => hh.delWait sender i) h1 (h1.finished sender).2).sBond ≤ T
      rw [fs.2.2.2.2.2.1, fs.2.2.2.2.2.2.1, sp.2.2.2.2.2.2.2.2.1, sp.2.2.2.2.2.2.2.2.2.1]; exact (nt ⟨nofun, nofun, fun _ _ _ => nofun, nofun⟩)
  | checkSlashing =>
    simp only [hubExec] at hx; split at hx
    · cases hx
    · exc_norm at hx
      split at hx
      · cases hx
      · rename_i st hst
        injection hx with hx; injection hx with e1 e2; subst e1; subst e2
        exact plain [] (act st hst) (fun _ hm => by cases hm)
  | updateConfig a b c d f g u =>
    simp only [hubExec] at hx; split at hx
    · cases hx
    · unfold updateConfig at hx
      exc_norm at hx
      exc_split at hx
      refine plain _ (nt ⟨nofun, nofun, fun _ _ _ => nofun, nofun⟩) ?_
      intro y hy
      cases a with
      | none => cases hy
      | some dd => simp at hy; subst hy; rfl
  | setOwner a =>
    simp only [hubExec] at hx; exc_norm at hx; exc_split at hx
    exact plain [] (nt ⟨nofun, nofun, fun _ _ _ => nofun, nofun⟩) (fun _ hm => by cases hm)
  | acceptOwnership =>
    simp only [hubExec] at hx; exc_norm at hx; exc_split at hx
    exact plain [] (nt ⟨nofun, nofun, fun _ _ _ => nofun, nofun⟩) (fun _ hm => by cases hm)
  | swapHook =>
    simp only [hubExec] at hx; exc_norm at hx; exc_split at hx
    exact plain _ (nt ⟨nofun, nofun, fun _ _ _ => nofun, nofun⟩) (by intro y hy; simp at hy; subst hy; rfl)
  | claimAirdrop =>
    simp only [hubExec] at hx; exc_norm at hx; exc_split at hx
    exact plain _ (nt ⟨nofun, nofun, fun _ _ _ => nofun, nofun⟩) (by intro y hy; simp at hy; rcases hy with rfl | rfl <;> rfl)
  | redelegateProxy src plan =>
    simp only [hubExec] at hx; exc_norm at hx; exc_split at hx
    refine plain _ (nt ⟨nofun, nofun, fun _ _ _ => nofun, nofun⟩) ?_
    intro y hy
    simp only [List.mem_map] at hy
    obtain ⟨pp, _, rfl⟩ := hy
    rfl

/-! #### the chain side -/

def totalDelegated (s : Sys) : Nat := (valUniverse.map s.chain.deleg).sum


/-- the step from books within `T` (the form the reachability proofs use) -/
theorem hub_books_step (h h' : HubSt) (e : HubEnv) (sender : Addr) (funds : List (Denom × Nat))
    (m : HubMsg) (ms : List Msg) (T : Nat) (he : e.self = hubA)
    (hT : (e.delegations.map (·.2)).sum = T) (hinv : h.bBond + h.sBond ≤ T)
    (hx : hubExec h e sender funds m = .ok (h', ms)) :
    ∃ pre rest, ms = pre ++ rest ∧ (∀ x ∈ pre, isStake x = true) ∧ (∀ x ∈ rest, isStake x = false) ∧
      h'.bBond + h'.sBond + undelSum pre ≤ T + delSum pre :=
  hub_books_stepG h h' e sender funds m ms T he hT (Or.inl hinv) hx

/-- staking-module facts: stake sits only on known validators, and where no delegation object
    exists there is no stake -/
structure ChainOK (s : Sys) : Prop where
  outside : ∀ v, v ∉ valUniverse → s.chain.deleg v = 0
  unset : ∀ v, s.chain.delegSet v = false → s.chain.deleg v = 0

theorem sum_filter_zero (l : List Addr) (p : Addr → Bool) (f : Addr → Nat)
    (h : ∀ v, p v = false → f v = 0) : ((l.filter p).map f).sum = (l.map f).sum := by
  induction l with
  | nil => rfl
  | cons a l ih =>
    simp only [List.filter_cons]
    cases hp : p a
    · simp only [Bool.false_eq_true, if_false, List.map_cons, List.sum_cons, h a hp, Nat.zero_add]; exact ih
    · simp only [if_true, List.map_cons, List.sum_cons, ih]

/-- what the hub sees as its delegations sums to the delegated stake -/
theorem delegations_sum (s : Sys) (c : ChainOK s) :
    ((s.hubEnv.delegations).map (·.2)).sum = totalDelegated s := by
  show (((s.delegationsOf hubA)).map (·.2)).sum = _
  unfold Sys.delegationsOf totalDelegated
  simp only [if_true, List.map_map]
  exact sum_filter_zero valUniverse _ _ c.unset

theorem sum_upd (l : List Addr) (f : Addr → Nat) (v : Addr) (x : Nat) (hn : l.Nodup) :
    (l.map (upd f v x)).sum + (if v ∈ l then f v else 0) = (l.map f).sum + (if v ∈ l then x else 0) := by
  induction l with
  | nil => simp
  | cons a l ih =>
    have hn' := (List.nodup_cons.mp hn)
    have r := ih hn'.2
    simp only [List.map_cons, List.sum_cons, List.mem_cons]
    by_cases hav : v = a
    · subst hav
      have hnot : v ∉ l := hn'.1
      simp only [hnot, if_false, Nat.add_zero] at r
      simp only [upd_same, true_or, if_true]
      omega
    · have hne : a ≠ v := fun h => hav h.symm
      simp only [upd_other _ _ _ _ hne, hav, false_or]
      omega

theorem valUniverse_nodup : valUniverse.Nodup := by decide

/-- everything carried from message to message -/
structure BookInv (s : Sys) (q : List Msg) : Prop where
  chain : ChainOK s
  split : ∃ pre rest, q = pre ++ rest ∧ (∀ x ∈ pre, isStake x = true) ∧ (∀ x ∈ rest, isStake x = false) ∧
    s.hub.bBond + s.hub.sBond + undelSum pre ≤ totalDelegated s + delSum pre

theorem BookInv.drained {s : Sys} (h : BookInv s []) : s.hub.bBond + s.hub.sBond ≤ totalDelegated s := by
  obtain ⟨pre, rest, hq, _, _, hle⟩ := h.split
  have : pre = [] := by
    cases pre with
    | nil => rfl
    | cons p t => simp only [List.cons_append] at hq; cases hq
  subst this
  simpa [undelSum, delSum] using hle

/-- moving funds and calling a contract other than the hub leaves stake and books alone -/
theorem handle_wasm_chain (s s' : Sys) (a b : Addr) (c : Call) (d : List (Denom × Nat)) (ms : List Msg)
    (hx : s.handle (.wasm a b c d) = .ok (s', ms)) :
    s'.chain.deleg = s.chain.deleg ∧ s'.chain.delegSet = s.chain.delegSet := by
  simp only [Sys.handle] at hx
  exc_norm at hx
  split at hx
  · cases hx
  · rename_i s1 h1
    have sk := moveFunds_staking a b d s s1 h1
    have : s'.chain = s1.chain := by
      exc_split at hx
      all_goals rfl
    rw [this]; exact sk

set_option maxHeartbeats 2000000 in
theorem BookInv.step (s s' : Sys) (m : Msg) (rest0 subs : List Msg)
    (inv : BookInv s (m :: rest0)) (hx : s.handle m = .ok (s', subs)) : BookInv s' (subs ++ rest0) := by
  obtain ⟨pre, rest, hq, hpre, hrest, hle⟩ := inv.split
  have c := inv.chain
  by_cases hst : isStake m = true
  · -- the head is one of the hub's pending staking messages
    have hpre' : ∃ pre', pre = m :: pre' ∧ rest0 = pre' ++ rest := by
      cases pre with
      | nil =>
        simp only [List.nil_append] at hq
        have := hrest m (by rw [← hq]; exact List.mem_cons_self ..)
        rw [hst] at this; cases this
      | cons p pre' =>
        simp only [List.cons_append] at hq
        injection hq with h1 h2
        exact ⟨pre', by rw [h1], h2⟩
    obtain ⟨pre', hp, hr0⟩ := hpre'
    subst hp
    cases m with
    | delegate who v amt =>
      have hw : who = hubA := by simpa [isStake] using hst
      subst hw
      simp only [Sys.handle] at hx
      exc_norm at hx
      exc_split at hx
      rename_i hin _
      have hv : v ∈ valUniverse := by simpa using hin
      have hs := sum_upd valUniverse s.chain.deleg v (s.chain.deleg v + amt) valUniverse_nodup
      simp only [hv, if_true] at hs
      refine ⟨⟨fun w hw => ?_, fun w hw => ?_⟩, pre', rest, by simp [hr0], fun x hx' => hpre x (List.mem_cons_of_mem _ hx'), hrest, ?_⟩
      · have hne : w ≠ v := fun h => hw (h ▸ hv)
        show upd (s.setBank hubA 0 _).chain.deleg v _ w = 0
        simp only [Sys.setBank, upd_other _ _ _ _ hne]; exact c.outside w hw
      · by_cases hwv : w = v
        · subst hwv; simp [Sys.setBank, upd] at hw
        · have : s.chain.delegSet w = false := by simpa [Sys.setBank, upd, hwv] using hw
          show upd (s.setBank hubA 0 _).chain.deleg v _ w = 0
          simp only [Sys.setBank, upd_other _ _ _ _ hwv]; exact c.unset w this
      · show s.hub.bBond + s.hub.sBond + undelSum pre' ≤ (valUniverse.map (upd s.chain.deleg v (s.chain.deleg v + amt))).sum + delSum pre'
        simp only [undelSum, delSum, if_true] at hle
        unfold totalDelegated at hle
        omega
    | undelegate who v amt =>
      have hw : who = hubA := by simpa [isStake] using hst
      subst hw
      simp only [Sys.handle] at hx
      exc_norm at hx
      exc_split at hx
      rename_i hz hge
      have hv : v ∈ valUniverse := by
        by_cases hv : v ∈ valUniverse
        · exact hv
        · have := c.outside v hv; omega
      have hs := sum_upd valUniverse s.chain.deleg v (s.chain.deleg v - amt) valUniverse_nodup
      simp only [hv, if_true] at hs
      refine ⟨⟨fun w hw => ?_, fun w hw => ?_⟩, pre', rest, by simp [hr0], fun x hx' => hpre x (List.mem_cons_of_mem _ hx'), hrest, ?_⟩
      · have hne : w ≠ v := fun h => hw (h ▸ hv)
        show upd s.chain.deleg v _ w = 0
        rw [upd_other _ _ _ _ hne]; exact c.outside w hw
      · by_cases hwv : w = v
        · subst hwv
          show upd s.chain.deleg w _ w = 0
          rw [upd_same]
          have : decide (s.chain.deleg w - amt > 0) = false := by simpa [upd] using hw
          simpa using this
        · have : s.chain.delegSet w = false := by simpa [upd, hwv] using hw
          show upd s.chain.deleg v _ w = 0
          rw [upd_other _ _ _ _ hwv]; exact c.unset w this
      · show s.hub.bBond + s.hub.sBond + undelSum pre' ≤ (valUniverse.map (upd s.chain.deleg v (s.chain.deleg v - amt))).sum + delSum pre'
        simp only [undelSum, delSum, if_true] at hle
        unfold totalDelegated at hle
        omega
    | _ => simp [isStake] at hst
  · -- the head is not a staking message: nothing is pending
    have hst' : isStake m = false := by simpa using hst
    have hpre0 : pre = [] := by
      cases pre with
      | nil => rfl
      | cons p pre' =>
        simp only [List.cons_append] at hq
        injection hq with h1 _
        have := hpre p (List.mem_cons_self ..)
        rw [← h1, hst'] at this; cases this
    subst hpre0
    simp only [List.nil_append] at hq
    have hr0 : ∀ x ∈ rest0, isStake x = false := fun x hx' => hrest x (by rw [← hq]; exact List.mem_cons_of_mem _ hx')
    have hb : s.hub.bBond + s.hub.sBond ≤ totalDelegated s := by simpa [undelSum, delSum] using hle
    -- generic conclusion when stake and books are untouched and nothing staking is emitted
    have same : s'.hub = s.hub → s'.chain.deleg = s.chain.deleg → s'.chain.delegSet = s.chain.delegSet →
        (∀ x ∈ subs, isStake x = false) → BookInv s' (subs ++ rest0) := by
      intro hh hd hds hsub
      refine ⟨⟨fun w hw => by rw [hd]; exact c.outside w hw, fun w hw => by rw [hd]; rw [hds] at hw; exact c.unset w hw⟩,
        [], subs ++ rest0, rfl, (fun _ hm => by cases hm), ?_, ?_⟩
      · intro x hx'
        rcases List.mem_append.mp hx' with h | h
        · exact hsub x h
        · exact hr0 x h
      · simp only [undelSum, delSum, Nat.add_zero]
        unfold totalDelegated; rw [hh, hd]; exact hb
    cases m with
    | bankSend src dst d amt =>
      simp only [Sys.handle] at hx
      exc_norm at hx
      split at hx
      · cases hx
      · rename_i s1 h1
        unfold Sys.bankMove at h1
        exc_split at h1
        cases hx
        exact same rfl rfl rfl (fun _ hm => by cases hm)
    | delegate who v amt =>
      simp only [Sys.handle] at hx
      exc_norm at hx
      exc_split at hx
      rename_i hw _ _ _
      have : who = hubA := Classical.not_not.mp hw
      subst this
      simp [isStake] at hst'
    | undelegate who v amt =>
      simp only [Sys.handle] at hx
      exc_norm at hx
      exc_split at hx
      rename_i hw _ _ _
      have : who = hubA := Classical.not_not.mp hw
      subst this
      simp [isStake] at hst'
    | redelegate who src dst amt =>
      simp only [Sys.handle] at hx
      exc_norm at hx
      exc_split at hx
      rename_i hw hz hin hsd hnr hge
      have hdst : dst ∈ valUniverse := by simpa using hin
      have hsrc : src ∈ valUniverse := by
        by_cases hv : src ∈ valUniverse
        · exact hv
        · have := c.outside src hv; omega
      have hne : src ≠ dst := hsd
      have h1 := sum_upd valUniverse s.chain.deleg src (s.chain.deleg src - amt) valUniverse_nodup
      have h2 := sum_upd valUniverse (upd s.chain.deleg src (s.chain.deleg src - amt)) dst
        (upd s.chain.deleg src (s.chain.deleg src - amt) dst + amt) valUniverse_nodup
      simp only [hsrc, hdst, if_true] at h1 h2
      rw [upd_other _ _ _ _ (fun h => hne h.symm)] at h2
      refine ⟨⟨fun w hw => ?_, fun w hw => ?_⟩, [], rest0, rfl, (fun _ hm => by cases hm), hr0, ?_⟩
      · have n1 : w ≠ src := fun h => hw (h ▸ hsrc)
        have n2 : w ≠ dst := fun h => hw (h ▸ hdst)
        show upd (upd s.chain.deleg src _) dst _ w = 0
        rw [upd_other _ _ _ _ n2, upd_other _ _ _ _ n1]; exact c.outside w hw
      · show upd (upd s.chain.deleg src _) dst _ w = 0
        by_cases n2 : w = dst
        · subst n2; simp [upd] at hw
        · rw [upd_other _ _ _ _ n2]
          by_cases n1 : w = src
          · subst n1
            rw [upd_same]
            have : decide (s.chain.deleg w - amt > 0) = false := by simpa [upd, n2] using hw
            simpa using this
          · rw [upd_other _ _ _ _ n1]
            have : s.chain.delegSet w = false := by simpa [upd, n1, n2] using hw
            exact c.unset w this
      · simp only [undelSum, delSum, Nat.add_zero]
        show s.hub.bBond + s.hub.sBond ≤ (valUniverse.map (upd (upd s.chain.deleg src (s.chain.deleg src - amt)) dst
          (upd s.chain.deleg src (s.chain.deleg src - amt) dst + amt))).sum
        rw [upd_other _ _ _ _ (fun h => hne h.symm)]
        unfold totalDelegated at hb
        omega
    | withdrawReward who v =>
      simp only [Sys.handle] at hx
      exc_norm at hx
      exc_split at hx
      exact same rfl rfl rfl (fun _ hm => by cases hm)
    | setWithdrawAddr who a =>
      simp only [Sys.handle] at hx
      exc_norm at hx
      exc_split at hx
      exact same rfl rfl rfl (fun _ hm => by cases hm)
    | wasm a b cl d =>
      have ch := handle_wasm_chain s s' a b cl d subs hx
      have sent := (handle_sentBy s s' _ subs hx).1 a b cl d rfl
      cases handle_touch s s' _ subs hx with
      | none h _ hs _ => exact same h.hub ch.1 ch.2 (sentBy_noStake swapA (by decide) subs hs)
      | hub s1 sender funds hm heq h1 _ hc hx' bb t r dd g =>
        have c1 : ChainOK s1 := ⟨fun w hw => by rw [hc.1]; exact c.outside w hw,
          fun w hw => by rw [hc.1]; rw [hc.2.1] at hw; exact c.unset w hw⟩
        have hT : ((s1.hubEnv.delegations).map (·.2)).sum = totalDelegated s := by
          rw [delegations_sum s1 c1]; unfold totalDelegated; rw [hc.1]
        obtain ⟨pre, rest', hms, hp, hr, hle'⟩ := hub_books_step _ _ _ _ _ _ _ _ rfl hT hb hx'
        refine ⟨⟨fun w hw => by rw [ch.1]; exact c.outside w hw,
          fun w hw => by rw [ch.1]; rw [ch.2] at hw; exact c.unset w hw⟩,
          pre, rest' ++ rest0, by rw [hms, List.append_assoc], hp, ?_, ?_⟩
        · intro x hx''
          rcases List.mem_append.mp hx'' with h | h
          · exact hr x h
          · exact hr0 x h
        · unfold totalDelegated; rw [ch.1]; exact hle'
      | bsei s1 sender funds tm heq h1 hx' h t r dd g =>
        injection heq with _ e2 _ _
        exact same h ch.1 ch.2 (sentBy_noStake b (by rw [e2]; decide) subs sent)
      | stsei blk sender funds tm heq hx' h bb r dd g =>
        injection heq with _ e2 _ _
        exact same h ch.1 ch.2 (sentBy_noStake b (by rw [e2]; decide) subs sent)
      | reward s1 sender funds rm heq h1 _ _ hx' h bb t dd g =>
        injection heq with _ e2 _ _
        exact same h ch.1 ch.2 (sentBy_noStake b (by rw [e2]; decide) subs sent)
      | disp env sender funds dm heq _ _ hx' h bb t r g =>
        injection heq with _ e2 _ _
        exact same h ch.1 ch.2 (sentBy_noStake b (by rw [e2]; decide) subs sent)
      | reg s1 sender funds rm heq h1 _ _ hx' h bb t r dd =>
        injection heq with _ e2 _ _
        exact same h ch.1 ch.2 (sentBy_noStake b (by rw [e2]; decide) subs sent)

/-- history steps other than a validator slash (which lowers the delegated stake without the hub
    knowing until its next slashing check — see `C02_direct_call_recognises`) -/
def NoSlash : Step → Prop
  | .env (.slash _ _ _) => False
  | .env _ => True
  | .tx m => isStake m = false      -- staking messages in the hub's name are only ever emitted by the hub

theorem ChainOK.env (s : Sys) (e : EnvOp) (c : ChainOK s) : ChainOK (s.env e) := by
  cases e with
  | slash v n d =>
    simp only [Sys.env]
    split
    · exact c
    · refine ⟨fun w hw => ?_, fun w hw => ?_⟩
      · show upd s.chain.deleg v _ w = 0
        by_cases h : w = v
        · subst h; rw [upd_same, c.outside w hw]; simp
        · rw [upd_other _ _ _ _ h]; exact c.outside w hw
      · show upd s.chain.deleg v _ w = 0
        have hw' : s.chain.delegSet w = false := hw
        by_cases h : w = v
        · subst h; rw [upd_same, c.unset w hw']; simp
        · rw [upd_other _ _ _ _ h]; exact c.unset w hw'
  | slashUnbonding v n d => simp only [Sys.env]; split <;> exact ⟨c.outside, c.unset⟩
  | _ => exact ⟨c.outside, c.unset⟩

/-- **Every reachable state (no unrecognised slash).** From any state in which the hub books at
    most what is delegated, after any history of any length that contains no validator slash —
    any senders, any contracts, failed transactions, time, unbonding-stake slashing, reward
    accrual — the hub still books at most what is delegated. Bonds add to both sides (their
    Delegate messages run before anything else of the transaction), undelegations remove from both,
    redelegations and conversions keep both, nothing else touches either. -/
theorem C02_reachable (s : Sys) (l : List Step) (c : ChainOK s)
    (hb : s.hub.bBond + s.hub.sBond ≤ totalDelegated s) (hns : ∀ st ∈ l, NoSlash st) :
    (s.steps l).hub.bBond + (s.steps l).hub.sBond ≤ totalDelegated (s.steps l) ∧ ChainOK (s.steps l) := by
  have start : ∀ (x : Sys), ChainOK x → x.hub.bBond + x.hub.sBond ≤ totalDelegated x → ∀ q,
      (∀ m ∈ q, isStake m = false) → BookInv x q :=
    fun x cx hx q hq => ⟨cx, [], q, rfl, (fun _ hm => by cases hm), hq, by simpa [undelSum, delSum] using hx⟩
  induction l generalizing s with
  | nil => exact ⟨hb, c⟩
  | cons st rest ih =>
    show (((s.step st).steps rest).hub.bBond + ((s.step st).steps rest).hub.sBond ≤ _) ∧ _
    have hst := hns st (List.mem_cons_self ..)
    have one : (s.step st).hub.bBond + (s.step st).hub.sBond ≤ totalDelegated (s.step st) ∧ ChainOK (s.step st) := by
      cases st with
      | env e =>
        refine ⟨?_, ChainOK.env s e c⟩
        show (s.env e).hub.bBond + (s.env e).hub.sBond ≤ totalDelegated (s.env e)
        cases e with
        | slash v n d => exact absurd hst (by simp [NoSlash])
        | slashUnbonding v n d => simp only [Sys.env]; split <;> exact hb
        | _ => exact hb
      | tx m =>
        show (s.exec m).1.hub.bBond + (s.exec m).1.hub.sBond ≤ totalDelegated (s.exec m).1 ∧ ChainOK (s.exec m).1
        unfold Sys.exec
        split
        · rename_i s' hrun
          have hm : isStake m = false := hst
          have inv0 := start s c hb [m] (by intro x hx; simp at hx; subst hx; exact hm)
          have fin := run_inv2 BookInv (fun a b r a' sb => BookInv.step a a' b r sb) 400 s [m] s' inv0 hrun
          exact ⟨fin.drained, fin.chain⟩
        · exact ⟨hb, c⟩
    exact ih (s.step st) one.2 one.1 (fun st' h' => hns st' (List.mem_cons_of_mem _ h'))

/-- **Recognition after a slash.** From *any* state (however stale the books are after slashing), a
    successful transaction whose top-level message is a hub pricing entry point that starts with the
    slashing check — Bond, BondForStSei, BondRewards, CheckSlashing — ends with the booked stake at
    most the delegated stake, provided a delegation object still exists (or nothing is booked). -/
theorem C02_direct_call_recognises (s s' : Sys) (sender : Addr) (funds : List (Denom × Nat)) (hm : HubMsg)
    (c : ChainOK s) (hp : hm = .bond ∨ hm = .bondForStSei ∨ hm = .bondRewards ∨ hm = .checkSlashing)
    (hd : s.delegationsOf hubA ≠ [] ∨ s.hub.bBond + s.hub.sBond = 0)
    (hx : Sys.run 400 s [.wasm sender hubA (.hub hm) funds] = .ok s') :
    s'.hub.bBond + s'.hub.sBond ≤ totalDelegated s' := by
  simp only [Sys.run] at hx
  split at hx
  · cases hx
  · rename_i s1' subs h1
    have ch := handle_wasm_chain s s1' _ _ _ _ subs h1
    cases handle_touch s s1' _ subs h1 with
    | none h hm' _ _ =>
      rcases hm' with hm' | ⟨a, b, c', d, heq, ht⟩
      · exact absurd rfl (hm' _ _ _ _)
      · injection heq with _ e2 _ _
        rcases ht with ht | ht <;> (rw [ht] at e2; cases e2)
    | hub s1 sender' funds' hm' heq h1' _ hc hx' bb t r dd g =>
      injection heq with e1 _ e3 e4
      injection e3 with e3
      subst e1; subst e3; subst e4
      have c1 : ChainOK s1 := ⟨fun w hw => by rw [hc.1]; exact c.outside w hw,
        fun w hw => by rw [hc.1]; rw [hc.2.1] at hw; exact c.unset w hw⟩
      have hT : ((s1.hubEnv.delegations).map (·.2)).sum = totalDelegated s := by
        rw [delegations_sum s1 c1]; unfold totalDelegated; rw [hc.1]
      have hd1 : s1.hubEnv.delegations ≠ [] ∨ s.hub.bBond + s.hub.sBond = 0 := by
        rcases hd with hd | hd
        · left
          show s1.delegationsOf hubA ≠ []
          unfold Sys.delegationsOf at hd ⊢
          rw [hc.1, hc.2.1]; exact hd
        · exact Or.inr hd
      -- the slashing check that opens each of the four handlers
      have act : ∀ st, s.hub.actualState s1.hubEnv = .ok st → st.bBond + st.sBond ≤ totalDelegated s := by
        intro st hst
        have := C02_books_le_delegated s.hub st s1.hubEnv hst hd1
        rw [hT] at this; exact this
      have inv1 : BookInv s1' (subs ++ []) := by
        have cok : ChainOK s1' := ⟨fun w hw => by rw [ch.1]; exact c.outside w hw,
          fun w hw => by rw [ch.1]; rw [ch.2] at hw; exact c.unset w hw⟩
        have tot : totalDelegated s1' = totalDelegated s := by unfold totalDelegated; rw [ch.1]
        refine ⟨cok, ?_⟩
        rw [tot]
        rcases hp with hp | hp | hp | hp <;> subst hp
        · simp only [hubExec] at hx'; split at hx'
          · cases hx'
          · obtain ⟨p, st, mint, dl, tok, _, hst, _, _, hdl, _, hh, hms⟩ := bondB_spec _ _ _ _ _ _ hx'
            have ds := delegs_stake s.hub s1.hubEnv p dl rfl hdl
            refine ⟨dl, [tokMsg s1.hubEnv.self tok (.mint sender mint)] ++ [], by rw [hms]; simp, ds.1,
              (by intro y hy; simp at hy; subst hy; rfl), ?_⟩
            have := act st hst
            rw [hh, ds.2.1, ds.2.2]; simp only []; omega
        · simp only [hubExec] at hx'; split at hx'
          · cases hx'
          · obtain ⟨p, st, dl, tok, _, hst, _, hdl, _, hh, hms⟩ := bondS_spec _ _ _ _ _ _ hx'
            have ds := delegs_stake s.hub s1.hubEnv p dl rfl hdl
            refine ⟨dl, [tokMsg s1.hubEnv.self tok (.mint sender (decDiv p st.sRate))] ++ [], by rw [hms]; simp, ds.1,
              (by intro y hy; simp at hy; subst hy; rfl), ?_⟩
            have := act st hst
            rw [hh, ds.2.1, ds.2.2]; simp only []; omega
        · simp only [hubExec] at hx'; split at hx'
          · cases hx'
          · obtain ⟨p, st, _, _, hst, hdl, hh⟩ := bondR_spec _ _ _ _ _ _ hx'
            have ds := delegs_stake s.hub s1.hubEnv p subs rfl hdl
            refine ⟨subs, [], by simp, ds.1, (fun _ hm => by cases hm), ?_⟩
            have := act st hst
            rw [hh, ds.2.1, ds.2.2]; simp only []; omega
        · simp only [hubExec] at hx'; split at hx'
          · cases hx'
          · exc_norm at hx'
            split at hx'
            · cases hx'
            · rename_i st hst
              injection hx' with hx'; injection hx' with e1 e2
              refine ⟨[], [], by rw [← e2], (fun _ hm => by cases hm), (fun _ hm => by cases hm), ?_⟩
              have := act st hst
              rw [← e1]; simpa [undelSum, delSum] using this
      have fin := run_inv2 BookInv (fun a b r a' sb => BookInv.step a a' b r sb) 399 s1' _ s' inv1 hx
      exact fin.drained
    | bsei s1 sender' funds' tm heq _ _ _ _ _ _ _ => injection heq with _ e2 _ _; cases e2
    | stsei blk sender' funds' tm heq _ _ _ _ _ _ => injection heq with _ e2 _ _; cases e2
    | reward s1 sender' funds' rm heq _ _ _ _ _ _ _ _ _ => injection heq with _ e2 _ _; cases e2
    | disp env sender' funds' dm heq _ _ _ _ _ _ _ _ => injection heq with _ e2 _ _; cases e2
    | reg s1 sender' funds' rm heq _ _ _ _ _ _ _ _ _ => injection heq with _ e2 _ _; cases e2

/-! Non-vacuity: the genesis state of the corpus satisfies the premises. -/
example : ChainOK genesisSys ∧ genesisSys.hub.bBond + genesisSys.hub.sBond ≤ totalDelegated genesisSys :=
  ⟨⟨fun _ _ => rfl, fun _ _ => rfl⟩, by decide⟩

/-! ### The coins reserved for unbonders are never consumed

  `prev_hub_balance` is the part of the hub's liquid balance that belongs to released unbonding
  claims.  Carried through the queue:

      prev_hub_balance + staking-denom coins about to leave the hub (its pending Delegate messages
        and claim payouts)  ≤  the hub's bank balance in the staking denom. -/

/-- staking-denom coins message `m` takes out of the hub's account -/
def hubOut : Msg → Nat
  | .bankSend src _ d amt => if src = hubA ∧ d = 0 then amt else 0
  | .delegate who _ amt => if who = hubA then amt else 0
  | .wasm s _ _ f => if s = hubA then fundsOf 0 f else 0
  | _ => 0

def hubOutAll (q : List Msg) : Nat := (q.map hubOut).sum

/-- messages that move coins out of the hub's account -/
def isOut : Msg → Bool
  | .bankSend src _ _ _ => src == hubA
  | .delegate who _ _ => who == hubA
  | .wasm s _ _ f => s == hubA && !f.isEmpty
  | _ => false

/-- the two kinds of outflow the hub emits: claim payouts and delegations -/
def isLeaf : Msg → Bool
  | .bankSend src _ _ _ => src == hubA
  | .delegate who _ _ => who == hubA
  | _ => false

theorem hubOutAll_append (x y : List Msg) : hubOutAll (x ++ y) = hubOutAll x + hubOutAll y := by simp [hubOutAll]

theorem hubOut_noOut (m : Msg) (h : isOut m = false) : hubOut m = 0 := by
  cases m with
  | wasm s t c f =>
    simp only [isOut, Bool.and_eq_false_iff, beq_eq_false_iff_ne, Bool.not_eq_false'] at h
    rcases h with h | h
    · simp [hubOut, h]
    · have : f = [] := by simpa using h
      simp [hubOut, this, fundsOf]
  | _ => simp_all [hubOut, isOut]

theorem hubOutAll_noOut (q : List Msg) (h : ∀ x ∈ q, isOut x = false) : hubOutAll q = 0 := by
  induction q with
  | nil => rfl
  | cons m ms ih =>
    have h1 := hubOut_noOut m (h m (List.mem_cons_self ..))
    have h2 := ih (fun x hx => h x (List.mem_cons_of_mem _ hx))
    simp only [hubOutAll, List.map_cons, List.sum_cons] at h2 ⊢
    omega

theorem sentBy_noOut (a : Addr) (ha : a ≠ hubA) (ms : List Msg) (h : SentBy a ms) : ∀ m ∈ ms, isOut m = false := by
  intro m hm
  have := h m hm
  cases m <;> simp_all [isOut, Msg.sentFrom]

theorem paymentOf_funds (funds : List (Denom × Nat)) (p : Nat) (hx : paymentOf funds = .ok p) :
    fundsOf 0 funds = p := by
  unfold paymentOf at hx
  split at hx
  · cases hx
  · rename_i hl
    split at hx
    · cases hx
    · rename_i c hf
      injection hx with hx
      have hc := List.find?_some hf
      cases funds with
      | nil => simp at hf
      | cons a rest =>
        cases rest with
        | nil =>
          simp only [List.find?_cons] at hf
          split at hf
          · injection hf with hf; subst hf
            simp only [decide_eq_true_eq] at hc
            simp [fundsOf, hc.1, hx]
          · cases hf
        | cons b rest' => simp at hl

/-- the hub's own Delegate messages take out exactly their total, and are all outflows -/
theorem delegs_out (h : HubSt) (e : HubEnv) (p : Nat) (ms : List Msg) (he : e.self = hubA)
    (hx : h.delegMsgs e p = .ok ms) : (∀ m ∈ ms, isLeaf m = true) ∧ hubOutAll ms = p := by
  have ds := delegs_stake h e p ms he hx
  obtain ⟨_, reg, vs, _, _, hall⟩ := C02_bond_delegated_in_full h e p ms hx
  have key : ∀ (l : List Msg), (∀ m ∈ l, ∃ v a, m = Msg.delegate e.self v a ∧ v ∈ vs.map (·.1) ∧ 0 < a) →
      (∀ m ∈ l, isLeaf m = true) ∧ hubOutAll l = delSum l := by
    intro l
    induction l with
    | nil => intro _; exact ⟨(fun _ h => by cases h), rfl⟩
    | cons m ms ih =>
      intro hl
      obtain ⟨v, a, hm, _, _⟩ := hl m (List.mem_cons_self ..)
      have r := ih (fun x hx => hl x (List.mem_cons_of_mem _ hx))
      subst hm
      refine ⟨fun x hx => ?_, ?_⟩
      · rcases List.mem_cons.mp hx with rfl | hx
        · simp [isLeaf, he]
        · exact r.1 x hx
      · have := r.2
        simp only [hubOutAll, List.map_cons, List.sum_cons, hubOut, delSum, he, if_true] at this ⊢
        omega
  have k := key ms hall
  exact ⟨k.1, by rw [k.2, ds.2.1]⟩

theorem undelegs_noOut (e : HubEnv) (claim : Nat) (ms : List Msg)
    (hx : pickValidator e claim = .ok ms) : ∀ m ∈ ms, isOut m = false := by
  unfold pickValidator at hx
  simp only [] at hx
  split at hx
  · cases hx
  · injection hx with hx; subst hx
    have key : ∀ (vs : List (Addr × Nat)) (ps : List Nat),
        ∀ m ∈ zipMsgs (fun v p => Msg.undelegate e.self v p) vs ps, isOut m = false := by
      intro vs
      induction vs with
      | nil => intro ps m hm; simp [zipMsgs] at hm
      | cons v vs ih =>
        intro ps
        cases ps with
        | nil => intro m hm; simp [zipMsgs] at hm
        | cons p ps =>
          obtain ⟨v1, v2⟩ := v
          intro m hm
          simp only [zipMsgs] at hm
          rcases List.mem_append.mp hm with h | h
          · split at h
            · cases h
            · simp at h; subst h; rfl
          · exact ih ps m h
    exact key _ _

/-- **One hub message, on the reserved coins.** `B` = the hub's staking-denom bank balance as the
    handler sees it (attached funds already arrived), `B0` the balance before they arrived. -/
theorem hub_fund_step (h h' : HubSt) (e : HubEnv) (sender : Addr) (funds : List (Denom × Nat))
    (m : HubMsg) (ms : List Msg) (B0 : Nat) (he : e.self = hubA)
    (hB : e.hubBalance ≥ B0 + fundsOf 0 funds) (hinv : h.prevHubBalance ≤ B0)
    (hx : hubExec h e sender funds m = .ok (h', ms)) :
    ∃ pre rest, ms = pre ++ rest ∧ (∀ x ∈ pre, isLeaf x = true) ∧ (∀ x ∈ rest, isOut x = false) ∧
      h'.prevHubBalance + hubOutAll pre ≤ e.hubBalance := by
  have sb := hubExec_sentBy h h' e sender funds m ms hx
  have plain : ∀ (rest : List Msg), h'.prevHubBalance = h.prevHubBalance → (∀ y ∈ rest, isOut y = false) → ms = rest →
      ∃ pre rest', ms = pre ++ rest' ∧ (∀ y ∈ pre, isLeaf y = true) ∧ (∀ y ∈ rest', isOut y = false) ∧
        h'.prevHubBalance + hubOutAll pre ≤ e.hubBalance :=
    fun rest hp hr hm => ⟨[], rest, by simp [hm], (fun _ h => by cases h), hr,
      (by rw [hp]; simp only [hubOutAll, List.map_nil, List.sum_nil, Nat.add_zero]; omega)⟩
  have tokNo : ∀ (tok : Addr) (tm : TokMsg), isOut (tokMsg e.self tok tm) = false := by
    intro tok tm; simp [tokMsg, isOut]
  cases m with
  | migrateWaitList limit =>
    simp only [hubExec] at hx
    split at hx
    · injection hx with hx; injection hx with h1 h2; subst h1; subst h2
      refine plain [] ?_ (fun _ h => by cases h) rfl
      unfold migrate
      simp only []
      split
      · rfl
      · have : ∀ (l : List (Addr × Nat × Nat)) (x : HubSt), (l.foldl migrateOne x).prevHubBalance = x.prevHubBalance := by
          intro l
          induction l with
          | nil => intro x; rfl
          | cons a l ih => intro x; simp only [List.foldl_cons]; rw [ih]; rfl
        exact this _ h
    · cases hx
  | updateParams a b c d p r =>
    simp only [hubExec] at hx
    exc_norm at hx
    split at hx
    · cases hx
    · rename_i h1 hp
      injection hx with hx; injection hx with e1 e2; subst e1; subst e2
      unfold updateParams at hp
      exc_norm at hp
      exc_split at hp
      all_goals exact plain [] rfl (fun _ h => by cases h) rfl
  | receive user amt hook =>
    simp only [hubExec] at hx
    split at hx
    · cases hx
    · exc_norm at hx
      split at hx
      · cases hx
      · split at hx
        · cases hx
        · cases hook with
          | other => simp only [] at hx; cases hx
          | convert =>
            simp only [] at hx
            split at hx
            · obtain ⟨st, _, _, _, _, _, hst, _, _, _, _, _, _, _, _, hh, hms⟩ := convertBS_spec _ _ _ _ _ _ hx
              have sbk := (actualState_spec h st e hst).1
              refine plain ms (by rw [hh]; exact sbk.prev) ?_ rfl
              subst hms; intro y hy; simp at hy; rcases hy with rfl | rfl <;> exact tokNo _ _
            · split at hx
              · obtain ⟨st, _, _, _, _, _, hst, _, _, _, _, _, _, _, _, hh, hms⟩ := convertSB_spec _ _ _ _ _ _ hx
                have sbk := (actualState_spec h st e hst).1
                refine plain ms (by rw [hh]; exact sbk.prev) ?_ rfl
                subst hms; intro y hy; simp at hy; rcases hy with rfl | rfl <;> exact tokNo _ _
              · cases hx
          | unbond =>
            -- Undelegate messages move no coins; the burn carries no funds
            simp only [] at hx
            split at hx
            · obtain ⟨st, supply, wf, tok, hst, _, _, _, _, _, hcase⟩ := unbondB_spec _ _ _ _ _ _ hx
              have sbk := (actualState_spec h st e hst).1
              rcases hcase with ⟨_, um, hp, hms⟩ | ⟨_, hh, hms⟩
              · have sp := processUndelegations_spec _ _ _ _ hp
                refine plain ms (by rw [sp.2.2.2.2.2.2.2.2.2.2.2.2.2.2.2.1]; exact sbk.prev) ?_ rfl
                subst hms
                intro y hy
                rcases List.mem_append.mp hy with h1 | h1
                · exact undelegs_noOut e _ um sp.1 y h1
                · simp at h1; subst h1; exact tokNo _ _
              · subst hh
                refine plain ms sbk.prev ?_ rfl
                subst hms; intro y hy; simp at hy; subst hy; exact tokNo _ _
            · split at hx
              · obtain ⟨st, tok, hst, _, _, hcase⟩ := unbondS_spec _ _ _ _ _ _ hx
                have sbk := (actualState_spec h st e hst).1
                rcases hcase with ⟨_, um, hp, hms⟩ | ⟨_, hh, hms⟩
                · have sp := processUndelegations_spec _ _ _ _ hp
                  refine plain ms (by rw [sp.2.2.2.2.2.2.2.2.2.2.2.2.2.2.2.1]; exact sbk.prev) ?_ rfl
                  subst hms
                  intro y hy
                  rcases List.mem_append.mp hy with h1 | h1
                  · exact undelegs_noOut e _ um sp.1 y h1
                  · simp at h1; subst h1; exact tokNo _ _
                · subst hh
                  refine plain ms sbk.prev ?_ rfl
                  subst hms; intro y hy; simp at hy; subst hy; exact tokNo _ _
              · cases hx
  | bond =>
    simp only [hubExec] at hx; split at hx
    · cases hx
    · obtain ⟨p, st, mint, dl, tok, hpay, hst, _, _, hd, _, hh, hms⟩ := bondB_spec _ _ _ _ _ _ hx
      have d := delegs_out h e p dl he hd
      have sbk := (actualState_spec h st e hst).1
      have hp := paymentOf_funds funds p hpay
      refine ⟨dl, [tokMsg e.self tok (.mint sender mint)], hms, d.1, by intro y hy; simp at hy; subst hy; exact tokNo _ _, ?_⟩
      rw [hh, d.2]; simp only []; rw [sbk.prev]; omega
  | bondForStSei =>
    simp only [hubExec] at hx; split at hx
    · cases hx
    · obtain ⟨p, st, dl, tok, hpay, hst, _, hd, _, hh, hms⟩ := bondS_spec _ _ _ _ _ _ hx
      have d := delegs_out h e p dl he hd
      have sbk := (actualState_spec h st e hst).1
      have hp := paymentOf_funds funds p hpay
      refine ⟨dl, [tokMsg e.self tok (.mint sender (decDiv p st.sRate))], hms, d.1, by intro y hy; simp at hy; subst hy; exact tokNo _ _, ?_⟩
      rw [hh, d.2]; simp only []; rw [sbk.prev]; omega
  | bondRewards =>
    simp only [hubExec] at hx; split at hx
    · cases hx
    · obtain ⟨p, st, _, hpay, hst, hd, hh⟩ := bondR_spec _ _ _ _ _ _ hx
      have d := delegs_out h e p ms he hd
      have sbk := (actualState_spec h st e hst).1
      have hp := paymentOf_funds funds p hpay
      refine ⟨ms, [], by simp, d.1, (fun _ h => by cases h), ?_⟩
      rw [hh, d.2]; simp only []; rw [sbk.prev]; omega
  | updateGlobalIndex =>
    simp only [hubExec] at hx; split at hx
    · cases hx
    · unfold updateGlobal at hx
      exc_norm at hx
      exc_split at hx
      all_goals
        refine plain _ rfl ?_ rfl
        intro y hy
        simp only [List.mem_append, List.mem_map, List.mem_cons, List.mem_nil_iff, or_false] at hy
        rcases hy with ⟨d, _, rfl⟩ | rfl | rfl <;> simp [isOut]
  | withdrawUnbonded =>
    simp only [hubExec] at hx; split at hx
    · cases hx
    · obtain ⟨_, h1, hp, _, hle, hh, hms⟩ := withdraw_spec _ _ _ _ _ hx
      refine ⟨ms, [], by simp, ?_, (fun _ h => by cases h), ?_⟩
      · subst hms; intro y hy; simp at hy; subst hy; simp [isLeaf, he]
      · subst hms; subst hh
        simp only [hubOutAll, List.map_cons, List.map_nil, List.sum_cons, List.sum_nil, hubOut, he, and_self, if_true]
        omega
  | checkSlashing =>
    simp only [hubExec] at hx; split at hx
    · cases hx
    · exc_norm at hx
      split at hx
      · cases hx
      · rename_i st hst
        injection hx with hx; injection hx with e1 e2; subst e1; subst e2
        exact plain [] (actualState_spec h _ e hst).1.prev (fun _ h => by cases h) rfl
  | updateConfig a b c d f g u =>
    simp only [hubExec] at hx; split at hx
    · cases hx
    · unfold updateConfig at hx
      exc_norm at hx
      exc_split at hx
      refine plain _ rfl ?_ rfl
      intro y hy
      cases a with
      | none => cases hy
      | some dd => simp at hy; subst hy; rfl
  | setOwner a =>
    simp only [hubExec] at hx; exc_norm at hx; exc_split at hx
    exact plain [] rfl (fun _ h => by cases h) rfl
  | acceptOwnership =>
    simp only [hubExec] at hx; exc_norm at hx; exc_split at hx
    exact plain [] rfl (fun _ h => by cases h) rfl
  | swapHook =>
    simp only [hubExec] at hx; exc_norm at hx; exc_split at hx
    exact plain _ rfl (by intro y hy; simp at hy; subst hy; simp [isOut]) rfl
  | claimAirdrop =>
    simp only [hubExec] at hx; exc_norm at hx; exc_split at hx
    exact plain _ rfl (by intro y hy; simp at hy; rcases hy with rfl | rfl <;> simp [isOut]) rfl
  | redelegateProxy src plan =>
    simp only [hubExec] at hx; exc_norm at hx; exc_split at hx
    refine plain _ rfl ?_ rfl
    intro y hy
    simp only [List.mem_map] at hy
    obtain ⟨pp, _, rfl⟩ := hy
    rfl

theorem isLeaf_out (m : Msg) (h : isLeaf m = true) : isOut m = true := by
  cases m <;> simp_all [isLeaf, isOut]

/-- a message that is not an outflow of the hub does not lower the hub's staking-denom balance -/
theorem handle_bank_noOut (s s' : Sys) (m : Msg) (ms : List Msg) (hx : s.handle m = .ok (s', ms))
    (hno : isOut m = false) : s'.chain.bank hubA 0 ≥ s.chain.bank hubA 0 := by
  by_cases hs : m.sentFrom = hubA
  · cases m with
    | bankSend src dst d amt => simp [isOut, Msg.sentFrom] at hno hs; exact absurd hs hno
    | delegate who v amt => simp [isOut, Msg.sentFrom] at hno hs; exact absurd hs hno
    | undelegate who v amt => simp only [Sys.handle] at hx; exc_norm at hx; exc_split at hx; exact Nat.le_refl _
    | redelegate who src dst amt => simp only [Sys.handle] at hx; exc_norm at hx; exc_split at hx; exact Nat.le_refl _
    | setWithdrawAddr who a => simp only [Sys.handle] at hx; exc_norm at hx; exc_split at hx; exact Nat.le_refl _
    | withdrawReward who v =>
      simp only [Sys.handle] at hx; exc_norm at hx; exc_split at hx
      simp only [List.foldl, Sys.setBank]
      by_cases h : hubA = s.chain.withdrawAddr
      · rw [← h]; simp [upd]
      · simp [upd, h]
    | wasm a t c f =>
      have ha : a = hubA := hs
      have hf : f = [] := by
        simp only [isOut, ha, beq_self_eq_true, Bool.true_and, Bool.not_eq_false'] at hno
        simpa using hno
      subst hf
      obtain ⟨s1, h1, hc⟩ := handle_wasm_chain_eq s s' _ _ _ _ ms hx
      simp only [Sys.moveFunds] at h1
      injection h1 with h1; subst h1
      rw [hc]; exact Nat.le_refl _
  · exact handle_bank_ge s s' m ms hx hubA 0 hs

/-- everything carried from message to message -/
structure HubFund (s : Sys) (q : List Msg) : Prop where
  split : ∃ A rest, q = A ++ rest ∧ (∀ x ∈ A, isLeaf x = true) ∧ (∀ x ∈ rest, isOut x = false) ∧
    s.hub.prevHubBalance + hubOutAll A ≤ s.chain.bank hubA 0

theorem HubFund.drained {s : Sys} (h : HubFund s []) : s.hub.prevHubBalance ≤ s.chain.bank hubA 0 := by
  obtain ⟨A, rest, hq, _, _, hle⟩ := h.split
  have : A = [] := by
    cases A with
    | nil => rfl
    | cons p t => simp only [List.cons_append] at hq; cases hq
  subst this
  simpa [hubOutAll] using hle

theorem HubFund.step (s s' : Sys) (m : Msg) (rest0 subs : List Msg)
    (inv : HubFund s (m :: rest0)) (hx : s.handle m = .ok (s', subs)) : HubFund s' (subs ++ rest0) := by
  obtain ⟨A, rest, hq, hA, hrest, hle⟩ := inv.split
  have sent := handle_sentBy s s' m subs hx
  cases A with
  | cons p A' =>
    -- the head is one of the hub's pending payouts / delegations
    simp only [List.cons_append] at hq
    injection hq with h1 h2
    subst h1
    have hm := hA m (List.mem_cons_self ..)
    have hA' : ∀ x ∈ A', isLeaf x = true := fun x hx' => hA x (List.mem_cons_of_mem _ hx')
    simp only [hubOutAll, List.map_cons, List.sum_cons] at hle
    have hsub : subs = [] := by
      cases m with
      | wasm a b c d => simp [isLeaf] at hm
      | _ => exact sent.2 (fun _ _ _ _ h => by cases h)
    have hhub : s'.hub = s.hub := by
      cases handle_touch s s' m subs hx with
      | none h _ _ _ => exact h.hub
      | hub _ _ _ _ heq _ _ _ _ _ _ _ _ _ => subst heq; simp [isLeaf] at hm
      | bsei _ _ _ _ heq _ _ h _ _ _ _ => exact h
      | stsei _ _ _ _ heq _ h _ _ _ _ => exact h
      | reward _ _ _ _ heq _ _ _ _ h _ _ _ _ => exact h
      | disp _ _ _ _ heq _ _ _ h _ _ _ _ => exact h
      | reg _ _ _ _ heq _ _ _ _ h _ _ _ _ => exact h
    subst hsub
    refine ⟨A', rest, by simp [h2], hA', hrest, ?_⟩
    rw [hhub]
    cases m with
    | bankSend src dst d amt =>
      have hs : src = hubA := by simpa [isLeaf] using hm
      subst hs
      by_cases hd : d = 0
      · subst hd
        have := (handle_bank_out s s' _ [] hx hubA 0).1 dst amt rfl
        simp only [hubOut, and_self, if_true] at hle
        simp only [hubOutAll] at hle ⊢; omega
      · have := (handle_bank_out s s' _ [] hx hubA 0).2.1 dst d amt rfl hd
        simp only [hubOut, hd, and_false, if_false] at hle
        simp only [hubOutAll] at hle ⊢; omega
    | delegate who v amt =>
      have hs : who = hubA := by simpa [isLeaf] using hm
      subst hs
      simp only [Sys.handle] at hx
      exc_norm at hx
      exc_split at hx
      rename_i hge
      simp only [hubOut, if_true] at hle
      simp only [Sys.setBank, upd_same]
      simp only [hubOutAll] at hle ⊢
      omega
    | _ => simp [isLeaf] at hm
  | nil =>
    simp only [List.nil_append] at hq
    have hmo : isOut m = false := hrest m (by rw [← hq]; exact List.mem_cons_self ..)
    have hr0 : ∀ x ∈ rest0, isOut x = false := fun x hx' => hrest x (by rw [← hq]; exact List.mem_cons_of_mem _ hx')
    have hB : s.hub.prevHubBalance ≤ s.chain.bank hubA 0 := by simpa [hubOutAll] using hle
    have bank' := handle_bank_noOut s s' m subs hx hmo
    have other : s'.hub = s.hub → (∀ x ∈ subs, isOut x = false) → HubFund s' (subs ++ rest0) := by
      intro hh hsub
      refine ⟨[], subs ++ rest0, rfl, (fun _ h => by cases h), ?_, ?_⟩
      · intro x hx'
        rcases List.mem_append.mp hx' with h | h
        · exact hsub x h
        · exact hr0 x h
      · rw [hh]; simp only [hubOutAll, List.map_nil, List.sum_nil, Nat.add_zero]; omega
    cases handle_touch s s' m subs hx with
    | none h _ hs _ => exact other h.hub (sentBy_noOut swapA (by decide) subs hs)
    | bsei s1 sender funds tm heq _ _ h _ _ _ _ =>
      exact other h (sentBy_noOut bseiA (by decide) subs (sent.1 _ _ _ _ heq))
    | stsei blk sender funds tm heq _ h _ _ _ _ =>
      exact other h (sentBy_noOut stseiA (by decide) subs (sent.1 _ _ _ _ heq))
    | reward s1 sender funds rm heq _ _ _ _ h _ _ _ _ =>
      exact other h (sentBy_noOut rewardA (by decide) subs (sent.1 _ _ _ _ heq))
    | disp env sender funds dm heq _ _ _ h _ _ _ _ =>
      exact other h (sentBy_noOut dispA (by decide) subs (sent.1 _ _ _ _ heq))
    | reg s1 sender funds rm heq _ _ _ _ h _ _ _ _ =>
      exact other h (sentBy_noOut regA (by decide) subs (sent.1 _ _ _ _ heq))
    | hub s1 sender funds hm' heq h1 _ hc hx' _ _ _ _ _ =>
      -- what the handler sees: the balance after the attached funds arrived
      obtain ⟨s1', hmv, hch⟩ := handle_wasm_chain_eq s s' sender hubA (.hub hm') funds subs (heq ▸ hx)
      have hB1 : s1'.chain.bank hubA 0 ≥ s.chain.bank hubA 0 + fundsOf 0 funds := by
        by_cases hsd : sender = hubA
        · -- a self-call: it carries no funds
          have hf : funds = [] := by
            subst heq
            simp only [isOut, hsd, beq_self_eq_true, Bool.true_and, Bool.not_eq_false'] at hmo
            simpa using hmo
          subst hf
          simp only [Sys.moveFunds] at hmv
          injection hmv with hmv; subst hmv
          simp [fundsOf]
        · exact moveFunds_bank_in sender hubA hsd funds s s1' hmv 0
      have same1 : s1.chain.bank hubA 0 = s1'.chain.bank hubA 0 := by
        have : s'.chain = s1.chain := hc.2.2
        rw [← this, hch]
      obtain ⟨pre, rest', hms, hp, hr, hle'⟩ := hub_fund_step _ _ s1.hubEnv _ _ _ _ (s.chain.bank hubA 0) rfl
        (by show s1.chain.bank hubA 0 ≥ _; rw [same1]; exact hB1) hB hx'
      refine ⟨pre, rest' ++ rest0, by rw [hms, List.append_assoc], hp, ?_, ?_⟩
      · intro x hx''
        rcases List.mem_append.mp hx'' with h | h
        · exact hr x h
        · exact hr0 x h
      · have : s'.chain.bank hubA 0 = s1.chain.bank hubA 0 := by rw [hc.2.2]
        rw [this]; exact hle'

/-- **Every reachable state: the coins reserved for unbonders are in the hub's account.** From any
    state with `prev_hub_balance` at most the hub's liquid staking-denom balance, after any history
    of any length whose top-level messages are not sent in the hub's name — bonds, re-bonded
    rewards, conversions, index updates, withdrawals, validator removal, failed transactions,
    slashing, time — it still is: bonding delegates exactly what was paid in, nothing else spends
    the hub's coins, so `WithdrawUnbonded` never finds less than it set aside. -/
theorem C02_reserved (s : Sys) (l : List Step) (hB : s.hub.prevHubBalance ≤ s.chain.bank hubA 0)
    (hq : ∀ m, Step.tx m ∈ l → m.sentFrom ≠ hubA) :
    (s.steps l).hub.prevHubBalance ≤ (s.steps l).chain.bank hubA 0 := by
  induction l generalizing s with
  | nil => exact hB
  | cons st rest ih =>
    show ((s.step st).steps rest).hub.prevHubBalance ≤ _
    apply ih _ _ (fun m hm => hq m (List.mem_cons_of_mem _ hm))
    cases st with
    | env e =>
      show (s.env e).hub.prevHubBalance ≤ (s.env e).chain.bank hubA 0
      cases e with
      | advance dt => simp only [Sys.env, Sys.setBank, upd_same]; omega
      | slash v n d => simp only [Sys.env]; split <;> exact hB
      | slashUnbonding v n d => simp only [Sys.env]; split <;> exact hB
      | donate a d amt =>
        simp only [Sys.env, Sys.setBank, upd]
        by_cases h1 : hubA = a <;> by_cases h2 : (0 : Denom) = d <;> simp_all <;> omega
      | seedLegacy u b a => exact hB
      | _ => exact hB
    | tx m =>
      have hm := hq m (List.mem_cons_self ..)
      show (s.exec m).1.hub.prevHubBalance ≤ (s.exec m).1.chain.bank hubA 0
      unfold Sys.exec
      split
      · rename_i s' hrun
        have hno : isOut m = false := by cases m <;> simp_all [isOut, Msg.sentFrom]
        have inv0 : HubFund s [m] := ⟨[], [m], rfl, (fun _ h => by cases h),
          (by intro x hx; simp at hx; subst hx; exact hno), by simpa [hubOutAll] using hB⟩
        exact (run_inv2 HubFund (fun a b r a' sb => HubFund.step a a' b r sb) 400 s [m] s' inv0 hrun).drained
      · exact hB

example : genesisSys.hub.prevHubBalance ≤ genesisSys.chain.bank hubA 0 := by decide

end Krp
