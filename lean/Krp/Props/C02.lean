/-
  C02 — Hub never books more stake than is delegated; bonds are delegated in full.
  `Δ` = Σ of the hub's delegations as the staking module reports them.
-/
import Krp.Props.C03
namespace Krp
open HubSt

def delegatedBy : List Msg → Nat
  | [] => 0
  | Msg.delegate _ _ a :: ms => a + delegatedBy ms
  | _ :: ms => delegatedBy ms

private theorem delegatedBy_zip (self : Addr) (vs : List (Addr × Nat)) (plan : List Nat)
    (hl : plan.length = vs.length) :
    delegatedBy (zipMsgs (fun v p => Msg.delegate self v p) vs plan) = plan.sum ∧
    ∀ m ∈ zipMsgs (fun v p => Msg.delegate self v p) vs plan, ∃ v a, m = Msg.delegate self v a ∧ v ∈ vs.map (·.1) ∧ 0 < a := by
  induction vs generalizing plan with
  | nil => cases plan <;> simp_all [zipMsgs, delegatedBy]
  | cons v vs ih =>
    cases plan with
    | nil => simp at hl
    | cons p ps =>
      have := ih ps (by simpa using hl)
      simp only [zipMsgs, List.sum_cons]
      constructor
      · split
        · rename_i hp; simp only [List.nil_append, this.1, hp]; omega
        · simp only [List.singleton_append, delegatedBy, this.1]
      · intro m hm
        simp only [List.mem_append] at hm
        rcases hm with hm | hm
        · split at hm
          · simp at hm
          · rename_i hp
            simp at hm
            exact ⟨v.1, p, hm, by simp, Nat.pos_of_ne_zero hp⟩
        · obtain ⟨w, a, e1, e2, e3⟩ := this.2 m hm
          exact ⟨w, a, e1, by simp only [List.map_cons, List.mem_cons]; exact Or.inr e2, e3⟩

/-- Every coin sent with Bond / BondForStSei / BondRewards is delegated in the same transaction:
    the Delegate messages sum to exactly the payment, go only to validators the registry returned,
    and none is empty. -/
theorem C02_bond_delegated_in_full (h : HubSt) (e : HubEnv) (p : Nat) (ms : List Msg)
    (hx : h.delegMsgs e p = .ok ms) :
    delegatedBy ms = p ∧
    ∃ reg vs, h.registry = some reg ∧ e.validatorsOf reg = .ok vs ∧
      ∀ m ∈ ms, ∃ v a, m = Msg.delegate e.self v a ∧ v ∈ vs.map (·.1) ∧ 0 < a := by
  unfold delegMsgs at hx
  split at hx
  · cases hx
  · rename_i reg hreg
    split at hx
    · cases hx
    · rename_i vs hvs
      split at hx
      · cases hx
      · split at hx
        · cases hx
        · rename_i plan hplan
          injection hx with hx; subst hx
          have hc := C12_deleg_conserves p _ plan.1 plan.2 (by rw [hplan])
          have hz := delegatedBy_zip e.self vs plan.2 (by simpa using hc.2.2)
          exact ⟨by rw [hz.1]; exact hc.2.1, reg, vs, hreg, hvs, hz.2⟩

/-- After every slashing check (explicit, or the one that opens bond / unbond / convert) the booked
    stake does not exceed the delegated stake. -/
theorem C02_books_le_delegated (h st : HubSt) (e : HubEnv) (hx : h.actualState e = .ok st)
    (hd : e.delegations ≠ [] ∨ h.bBond + h.sBond = 0) :
    st.bBond + st.sBond ≤ (e.delegations.map (·.2)).sum := by
  have hs := actualState_spec h st e hx
  rcases hs.2 with ⟨hc, he⟩ | ⟨bs, ss, _, _, _, _, _, _, hcase⟩
  · subst he
    rcases hc with hc | hc
    · rcases hd with hd | hd
      · exact absurd hc hd
      · omega
    · omega
  · rcases hcase with ⟨hle, hb, hsb⟩ | ⟨_, _, hsum⟩ <;> omega

/-- A bond raises the books by exactly the payment — the same amount its Delegate messages add to
    the delegations — so `delegated − booked` is unchanged by bonding. -/
theorem C02_bond_keeps_gap (h h' : HubSt) (e : HubEnv) (sender : Addr) (funds : List (Denom × Nat))
    (ms : List Msg) :
    (h.bondB e sender funds = .ok (h', ms) → ∃ st p, h.actualState e = .ok st ∧
        h'.bBond + h'.sBond = st.bBond + st.sBond + p ∧ delegatedBy ms = p) ∧
    (h.bondS e sender funds = .ok (h', ms) → ∃ st p, h.actualState e = .ok st ∧
        h'.bBond + h'.sBond = st.bBond + st.sBond + p ∧ delegatedBy ms = p) ∧
    (h.bondR e sender funds = .ok (h', ms) → ∃ st p, h.actualState e = .ok st ∧
        h'.bBond + h'.sBond = st.bBond + st.sBond + p ∧ delegatedBy ms = p) := by
  have tail : ∀ (ds : List Msg) (x : Msg), (∀ d v a, x ≠ Msg.delegate d v a) →
      delegatedBy (ds ++ [x]) = delegatedBy ds := by
    intro ds x hx
    induction ds with
    | nil => cases x <;> simp_all [delegatedBy]
    | cons d ds ih => cases d <;> simp_all [delegatedBy]
  refine ⟨fun hx => ?_, fun hx => ?_, fun hx => ?_⟩
  · obtain ⟨p, st, mint, delegs, tok, _, hst, _, _, hd, _, hh, hms⟩ := bondB_spec h h' e sender funds ms hx
    refine ⟨st, p, hst, by rw [hh]; simp only []; omega, ?_⟩
    rw [hms, tail _ _ (by intro d v a; simp [tokMsg])]
    exact (C02_bond_delegated_in_full h e p delegs hd).1
  · obtain ⟨p, st, delegs, tok, _, hst, _, hd, _, hh, hms⟩ := bondS_spec h h' e sender funds ms hx
    refine ⟨st, p, hst, by rw [hh]; simp only []; omega, ?_⟩
    rw [hms, tail _ _ (by intro d v a; simp [tokMsg])]
    exact (C02_bond_delegated_in_full h e p delegs hd).1
  · obtain ⟨p, st, _, _, hst, hd, hh⟩ := bondR_spec h h' e sender funds ms hx
    exact ⟨st, p, hst, by rw [hh]; simp only []; omega, (C02_bond_delegated_in_full h e p ms hd).1⟩

/-- Each batch undelegation removes from the books exactly the amount its Undelegate messages
    undelegate. -/
theorem C02_undelegation_exact (h h' : HubSt) (e : HubEnv) (ms : List Msg)
    (hx : h.processUndelegations e = .ok (h', ms)) :
    h'.bBond + h'.sBond + undelegatedBy ms = h.bBond + h.sBond := by
  have sp := processUndelegations_spec h h' e ms hx
  have hu := C03_undelegate_messages_sum e _ ms sp.1
  omega

/-- Conversion moves value between the pools and leaves their sum, hence the gap, unchanged. -/
theorem C02_convert_keeps_sum (h h' : HubSt) (e : HubEnv) (amount : Nat) (user : Addr) (ms : List Msg) :
    (h.convertSB e amount user = .ok (h', ms) → ∃ st, h.actualState e = .ok st ∧
        h'.bBond + h'.sBond = st.bBond + st.sBond) ∧
    (h.convertBS e amount user = .ok (h', ms) → ∃ st, h.actualState e = .ok st ∧
        h'.bBond + h'.sBond = st.bBond + st.sBond) := by
  constructor
  · intro hx
    obtain ⟨st, _, _, _, _, _, hst, _, _, _, _, _, _, hle, _, hh, _⟩ := convertSB_spec h h' e amount user ms hx
    exact ⟨st, hst, by rw [hh]; simp only []; omega⟩
  · intro hx
    obtain ⟨st, _, _, _, _, _, hst, _, _, _, _, _, _, hle, _, hh, _⟩ := convertBS_spec h h' e amount user ms hx
    exact ⟨st, hst, by rw [hh]; simp only []; omega⟩

example : calculateDelegations 1000 [0, 0, 0] = some (0, [334, 333, 333]) := by decide

end Krp
