/-
  C16 — Reward-contract balances mirror bSei token balances at all times.

  Two halves, composed through the message queue:
  (1) every successful bSei handler emits, for the reward contract, Decrease/Increase messages whose
      net effect on every address equals that address's balance change in the token ledger
      (and whose net total equals the supply change);
  (2) the reward contract applies an Increase/Decrease from the registered token exactly
      (that holder's mirrored balance and the total move by the amount, nobody else's).
  C16_queue_step states the invariant "token balance + pending decreases = mirrored balance +
  pending increases" and proves it is preserved by executing the head of the queue when that is a
  bSei message or a mirror message; when the queue has drained the two ledgers agree.
-/
import Krp.Lemmas.Cw20
import Krp.Lemmas.Reward
import Krp.System
import Krp.Init
import Krp.Lemmas.Wiring
namespace Krp
open Token

/-- what one message adds to the pending Increase / Decrease of address `a` (only messages the
    token `tok` sends to the reward contract `r` count) -/
def incAmt (tok r a : Addr) : Msg → Nat
  | Msg.wasm s t (.reward (.increase x amt)) _ => if s = tok ∧ t = r ∧ x = a then amt else 0
  | _ => 0
def decAmt (tok r a : Addr) : Msg → Nat
  | Msg.wasm s t (.reward (.decrease x amt)) _ => if s = tok ∧ t = r ∧ x = a then amt else 0
  | _ => 0
def incAmtAll (tok r : Addr) : Msg → Nat
  | Msg.wasm s t (.reward (.increase _ amt)) _ => if s = tok ∧ t = r then amt else 0
  | _ => 0
def decAmtAll (tok r : Addr) : Msg → Nat
  | Msg.wasm s t (.reward (.decrease _ amt)) _ => if s = tok ∧ t = r then amt else 0
  | _ => 0

/-- pending Increase / Decrease totals of a message queue -/
def incOf (tok r a : Addr) (q : List Msg) : Nat := (q.map (incAmt tok r a)).sum
def decOf (tok r a : Addr) (q : List Msg) : Nat := (q.map (decAmt tok r a)).sum
def incAll (tok r : Addr) (q : List Msg) : Nat := (q.map (incAmtAll tok r)).sum
def decAll (tok r : Addr) (q : List Msg) : Nat := (q.map (decAmtAll tok r)).sum

@[simp] theorem incOf_nil (tok r a : Addr) : incOf tok r a [] = 0 := rfl
@[simp] theorem decOf_nil (tok r a : Addr) : decOf tok r a [] = 0 := rfl
@[simp] theorem incAll_nil (tok r : Addr) : incAll tok r [] = 0 := rfl
@[simp] theorem decAll_nil (tok r : Addr) : decAll tok r [] = 0 := rfl
@[simp] theorem incOf_cons (tok r a : Addr) (m : Msg) (q : List Msg) :
    incOf tok r a (m :: q) = incAmt tok r a m + incOf tok r a q := by simp [incOf]
@[simp] theorem decOf_cons (tok r a : Addr) (m : Msg) (q : List Msg) :
    decOf tok r a (m :: q) = decAmt tok r a m + decOf tok r a q := by simp [decOf]
@[simp] theorem incAll_cons (tok r : Addr) (m : Msg) (q : List Msg) :
    incAll tok r (m :: q) = incAmtAll tok r m + incAll tok r q := by simp [incAll]
@[simp] theorem decAll_cons (tok r : Addr) (m : Msg) (q : List Msg) :
    decAll tok r (m :: q) = decAmtAll tok r m + decAll tok r q := by simp [decAll]
theorem incOf_append (tok r a : Addr) (x y : List Msg) :
    incOf tok r a (x ++ y) = incOf tok r a x + incOf tok r a y := by simp [incOf]
theorem decOf_append (tok r a : Addr) (x y : List Msg) :
    decOf tok r a (x ++ y) = decOf tok r a x + decOf tok r a y := by simp [decOf]
theorem incAll_append (tok r : Addr) (x y : List Msg) :
    incAll tok r (x ++ y) = incAll tok r x + incAll tok r y := by simp [incAll]
theorem decAll_append (tok r : Addr) (x y : List Msg) :
    decAll tok r (x ++ y) = decAll tok r x + decAll tok r y := by simp [decAll]

private theorem move_bal (t t' : Token) (src dst : Addr) (amt : Nat) (hx : t.move src dst amt = .ok t')
    (a : Addr) :
    t'.bal a + (if a = src then amt else 0) = t.bal a + (if a = dst then amt else 0) ∧ amt ≤ t.bal src := by
  unfold Token.move at hx
  split at hx
  · cases hx
  · rename_i hge
    injection hx with hx; subst hx
    refine ⟨?_, by omega⟩
    simp only [Token.setBal, upd]
    by_cases h1 : a = src
    · subst h1
      by_cases h2 : a = dst
      · subst h2; simp; omega
      · have h2' : dst ≠ a := fun e => h2 e.symm
        simp [h2, h2']; omega
    · by_cases h2 : a = dst
      · subst h2
        have h1' : src ≠ a := fun e => h1 e.symm
        simp [h1, h1']
      · simp [h1, h2]

private theorem deduct_bal (t t1 : Token) (b : Block) (o s : Addr) (amt : Nat)
    (hx : t.deduct b o s amt = .ok t1) : t1.bal = t.bal ∧ t1.supply = t.supply := by
  have := (deduct_spec t t1 b o s amt hx).2.2.2.2
  rw [this]; exact ⟨rfl, rfl⟩

/-- (1) every successful bSei message: for every address the ledger change equals the net of the
    mirror messages it emits to the reward contract, and the supply change equals their net total.
    Covers Transfer, Send, Mint, Burn, TransferFrom, SendFrom, BurnFrom and the allowance messages. -/
theorem C16_token_emits_exact_mirror (t t' : Token) (b : Block) (self r hubc sender : Addr)
    (m : TokMsg) (ms : List Msg) (hx : bseiExec t b self (.ok r) hubc sender m = .ok (t', ms))
    (hne : self ≠ r ∨ True) (a : Addr) :
    t'.bal a + decOf self r a ms = t.bal a + incOf self r a ms ∧
    t'.supply + decAll self r ms = t.supply + incAll self r ms := by
  cases m with
  | transfer to amt =>
    simp only [bseiExec] at hx; exc_norm at hx; exc_split at hx
    rename_i hh
    unfold Token.transfer at hh; split at hh
    · cases hh
    · have := move_bal _ _ _ _ _ hh a
      have hs := (move_wf_supply t t' _ _ _ hh)
      simp only [decOf_cons, incOf_cons, decAll_cons, incAll_cons, decOf_nil, incOf_nil, decAll_nil, incAll_nil, incAmt, decAmt, incAmtAll, decAmtAll, and_self, true_and, if_true, Nat.add_zero, Nat.zero_add]
      constructor
      · by_cases h1 : sender = a <;> by_cases h2 : to = a <;> simp_all [eq_comm] <;> omega
      · omega
  | burn amt =>
    simp only [bseiExec] at hx; exc_norm at hx; exc_split at hx
    rename_i hh
    unfold Token.burn at hh; exc_split at hh
    simp only [decOf_cons, incOf_cons, decAll_cons, incAll_cons, decOf_nil, incOf_nil, decAll_nil, incAll_nil, incAmt, decAmt, incAmtAll, decAmtAll, Token.setBal, upd, and_self, true_and, if_true, Nat.add_zero, Nat.zero_add]
    constructor
    · by_cases h1 : sender = a <;> simp_all [eq_comm] <;> omega
    · omega
  | send c amt hook =>
    simp only [bseiExec] at hx; exc_norm at hx; exc_split at hx
    rename_i hh
    unfold Token.transfer at hh; split at hh
    · cases hh
    · have := move_bal _ _ _ _ _ hh a
      have hs := (move_wf_supply t t' _ _ _ hh)
      unfold receiveMsg
      split <;> simp only [decOf_cons, incOf_cons, decAll_cons, incAll_cons, decOf_nil, incOf_nil, decAll_nil, incAll_nil, incAmt, decAmt, incAmtAll, decAmtAll, and_self, true_and, if_true, Nat.add_zero, Nat.zero_add] <;>
      · constructor
        · by_cases h1 : sender = a <;> by_cases h2 : c = a <;> simp_all [eq_comm] <;> omega
        · omega
  | mint to amt =>
    simp only [bseiExec] at hx; exc_norm at hx; exc_split at hx
    rename_i hh
    unfold Token.mint at hh; exc_split at hh
    simp only [decOf_cons, incOf_cons, decAll_cons, incAll_cons, decOf_nil, incOf_nil, decAll_nil, incAll_nil, incAmt, decAmt, incAmtAll, decAmtAll, Token.setBal, upd, and_self, true_and, if_true, Nat.add_zero, Nat.zero_add]
    constructor
    · by_cases h2 : to = a <;> simp_all [eq_comm]
    · first | omega | rfl | (simp; try omega)
  | incAllow s amt e =>
    simp only [bseiExec] at hx; exc_norm at hx; exc_split at hx
    rename_i hh
    unfold Token.incAllow at hh; exc_split at hh <;> simp [Token.setAllow]
  | decAllow s amt e =>
    simp only [bseiExec] at hx; exc_norm at hx; exc_split at hx
    rename_i hh
    unfold Token.decAllow at hh; exc_split at hh <;>
      simp [Token.setAllow, Token.delAllow]
  | transferFrom o to amt =>
    simp only [bseiExec] at hx; exc_norm at hx; exc_split at hx
    rename_i hh
    unfold Token.transferFrom at hh; split at hh
    · cases hh
    · rename_i t1 hd
      have hb := deduct_bal _ _ _ _ _ _ hd
      have := move_bal _ _ _ _ _ hh a
      have hs := (move_wf_supply t1 t' _ _ _ hh)
      rw [hb.1] at this; rw [hb.2] at hs
      simp only [decOf_cons, incOf_cons, decAll_cons, incAll_cons, decOf_nil, incOf_nil, decAll_nil, incAll_nil, incAmt, decAmt, incAmtAll, decAmtAll, and_self, true_and, if_true, Nat.add_zero, Nat.zero_add]
      constructor
      · by_cases h1 : o = a <;> by_cases h2 : to = a <;> simp_all [eq_comm] <;> omega
      · omega
  | burnFrom o amt =>
    simp only [bseiExec] at hx; exc_norm at hx; exc_split at hx
    rename_i hh
    unfold Token.burnFrom at hh; split at hh
    · cases hh
    · rename_i t1 hd
      have hb := deduct_bal _ _ _ _ _ _ hd
      exc_split at hh
      simp only [decOf_cons, incOf_cons, decAll_cons, incAll_cons, decOf_nil, incOf_nil, decAll_nil, incAll_nil, incAmt, decAmt, incAmtAll, decAmtAll, Token.setBal, upd, and_self, true_and, if_true, Nat.add_zero, Nat.zero_add, hb.1, hb.2]
      constructor
      · by_cases h1 : o = a <;> simp_all [eq_comm] <;> omega
      · rw [← hb.2]; omega
  | sendFrom o c amt hook =>
    simp only [bseiExec] at hx; exc_norm at hx; exc_split at hx
    rename_i hh
    unfold Token.transferFrom at hh; split at hh
    · cases hh
    · rename_i t1 hd
      have hb := deduct_bal _ _ _ _ _ _ hd
      have := move_bal _ _ _ _ _ hh a
      have hs := (move_wf_supply t1 t' _ _ _ hh)
      rw [hb.1] at this; rw [hb.2] at hs
      unfold receiveMsg
      split <;> simp only [decOf_cons, incOf_cons, decAll_cons, incAll_cons, decOf_nil, incOf_nil, decAll_nil, incAll_nil, incAmt, decAmt, incAmtAll, decAmtAll, and_self, true_and, if_true, Nat.add_zero, Nat.zero_add] <;>
      · constructor
        · by_cases h1 : o = a <;> by_cases h2 : c = a <;> simp_all [eq_comm] <;> omega
        · omega
  | updateMinter n => simp only [bseiExec] at hx; exc_norm at hx; cases hx
  | updateMarketing => simp only [bseiExec] at hx; exc_norm at hx; cases hx

/-- (2) the reward contract applies a mirror message from the registered token exactly -/
theorem C16_reward_applies (rw rw' : RewardSt) (self tok : Addr) (dp : Res Addr) (bb : Denom → Nat)
    (a amt : Nat) (ms : List Msg) (inc : Bool)
    (hx : rewardExec rw self (.ok tok) dp bb tok (if inc then .increase a amt else .decrease a amt) = .ok (rw', ms)) :
    ms = [] ∧ (∀ x, x ≠ a → rw'.hBal x = rw.hBal x) ∧
    (if inc then rw'.hBal a = rw.hBal a + amt ∧ rw'.totalBalance = rw.totalBalance + amt
     else rw'.hBal a + amt = rw.hBal a ∧ rw'.totalBalance + amt = rw.totalBalance) := by
  cases inc <;> simp only [Bool.false_eq_true, if_false, if_true] at hx ⊢ <;>
    simp only [rewardExec] at hx <;> exc_norm at hx <;> exc_split at hx
  · refine ⟨rfl, fun x hx' => by simp [RewardSt.setHolder, upd, hx'], ?_, ?_⟩
    · simp only [RewardSt.setHolder, upd_same]; omega
    · show rw.totalBalance - amt + amt = rw.totalBalance; omega
  · exact ⟨rfl, fun x hx' => by simp [RewardSt.setHolder, upd, hx'], by simp [RewardSt.setHolder], rfl⟩

/-- the invariant that links the two ledgers through the pending message queue -/
def Mirror (t : Token) (rw : RewardSt) (tok r : Addr) (q : List Msg) : Prop :=
  (∀ a, t.bal a + decOf tok r a q = rw.hBal a + incOf tok r a q) ∧
  t.supply + decAll tok r q = rw.totalBalance + incAll tok r q

/-- queue step (i): executing a bSei token message at the head of the queue (CosmWasm puts the
    messages it emits in front of the rest) keeps the two ledgers linked -/
theorem C16_queue_step_token (t t' : Token) (rw : RewardSt) (b : Block) (self r hubc sender : Addr)
    (m : TokMsg) (f : List (Denom × Nat)) (ms rest : List Msg)
    (hinv : Mirror t rw self r (Msg.wasm sender self (.tok m) f :: rest))
    (hx : bseiExec t b self (.ok r) hubc sender m = .ok (t', ms)) :
    Mirror t' rw self r (ms ++ rest) := by
  unfold Mirror at *
  simp only [decOf_cons, incOf_cons, decAll_cons, incAll_cons, incAmt, decAmt, incAmtAll, decAmtAll, Nat.zero_add] at hinv
  constructor
  · intro a
    have h1 := (C16_token_emits_exact_mirror t t' b self r hubc sender m ms hx (Or.inr trivial) a).1
    have h2 := hinv.1 a
    rw [incOf_append, decOf_append]; omega
  · have h1 := (C16_token_emits_exact_mirror t t' b self r hubc sender m ms hx (Or.inr trivial) 0).2
    have h2 := hinv.2
    rw [incAll_append, decAll_append]; omega

/-- queue step (ii): executing a pending Increase/Decrease on the reward contract -/
theorem C16_queue_step_reward (t : Token) (rw rw' : RewardSt) (self tok : Addr) (dp : Res Addr)
    (bb : Denom → Nat) (a amt : Nat) (inc : Bool) (f : List (Denom × Nat)) (ms rest : List Msg)
    (hinv : Mirror t rw tok self
      (Msg.wasm tok self (.reward (if inc then .increase a amt else .decrease a amt)) f :: rest))
    (hx : rewardExec rw self (.ok tok) dp bb tok (if inc then .increase a amt else .decrease a amt) = .ok (rw', ms)) :
    Mirror t rw' tok self (ms ++ rest) := by
  have hs := C16_reward_applies rw rw' self tok dp bb a amt ms inc hx
  rw [hs.1]
  unfold Mirror at *
  cases inc <;> simp only [Bool.false_eq_true, if_false, if_true, decOf_cons, incOf_cons, decAll_cons,
    incAll_cons, incAmt, decAmt, incAmtAll, decAmtAll, and_self, true_and, List.nil_append, Nat.zero_add] at hinv hs ⊢
  · constructor
    · intro x
      have := hinv.1 x
      by_cases hxa : x = a
      · subst hxa; simp only [if_true] at this; omega
      · have e := hs.2.1 x hxa
        have : ¬ a = x := fun e => hxa e.symm
        simp_all
    · omega
  · constructor
    · intro x
      have := hinv.1 x
      by_cases hxa : x = a
      · subst hxa; simp only [if_true] at this; omega
      · have e := hs.2.1 x hxa
        have : ¬ a = x := fun e => hxa e.symm
        simp_all
    · omega

/-- when the queue has drained the reward contract mirrors the token exactly: every address and
    the total -/
theorem C16_drained (t : Token) (rw : RewardSt) (tok r : Addr) (h : Mirror t rw tok r []) :
    (∀ a, rw.hBal a = t.bal a) ∧ rw.totalBalance = t.supply := by
  unfold Mirror at h
  simp only [decOf_nil, incOf_nil, decAll_nil, incAll_nil, Nat.add_zero] at h
  exact ⟨fun a => (h.1 a).symm, h.2.symm⟩

/-- start: a token instantiated without initial balances and a fresh reward contract mirror each other -/
theorem C16_init (hub sender rh : Addr) (d : Denom) (sw : Addr) (ds : List Denom) (tok r : Addr) :
    Mirror (emptyToken true hub) (rewardInit sender rh d sw ds) tok r [] := by
  unfold Mirror; simp [emptyToken, rewardInit]

/-! ### Every reachable state of the composed system

  The queue steps above are now run through the real message executor.  Hypotheses, all of them
  E3 ("trusted owner configuration"): the six contracts are wired to each other, owners and
  nominees are outside accounts, and the top-level messages of the history come from outside
  accounts other than those owners / nominees (so nobody reconfigures).  Conclusion: after every
  transaction of every such history — whatever else happens: bonds, unbonds, converts, transfers
  through allowances, failed transactions, slashing, index updates, validator removal — the reward
  contract's per-holder balances and total are exactly the bSei ledger's balances and supply. -/

theorem incAmt_from (tok r a : Addr) (m : Msg) (h : m.sentFrom ≠ tok) :
    incAmt tok r a m = 0 ∧ decAmt tok r a m = 0 ∧ incAmtAll tok r m = 0 ∧ decAmtAll tok r m = 0 := by
  cases m with
  | wasm s t c f =>
    have hs : s ≠ tok := h
    cases c with
    | reward rm =>
      cases rm <;> simp [incAmt, decAmt, incAmtAll, decAmtAll, hs]
    | _ => simp [incAmt, decAmt, incAmtAll, decAmtAll]
  | _ => simp [incAmt, decAmt, incAmtAll, decAmtAll]

theorem incAmt_target (tok r a s t : Addr) (c : Call) (f : List (Denom × Nat)) (h : t ≠ r) :
    incAmt tok r a (.wasm s t c f) = 0 ∧ decAmt tok r a (.wasm s t c f) = 0 ∧
    incAmtAll tok r (.wasm s t c f) = 0 ∧ decAmtAll tok r (.wasm s t c f) = 0 := by
  cases c with
  | reward rm => cases rm <;> simp [incAmt, decAmt, incAmtAll, decAmtAll, h]
  | _ => simp [incAmt, decAmt, incAmtAll, decAmtAll]

theorem incOf_from (tok r : Addr) (q : List Msg) (h : ∀ x ∈ q, x.sentFrom ≠ tok) :
    (∀ a, incOf tok r a q = 0 ∧ decOf tok r a q = 0) ∧ incAll tok r q = 0 ∧ decAll tok r q = 0 := by
  induction q with
  | nil => simp
  | cons m rest ih =>
    have hm := fun a => incAmt_from tok r a m (h m (List.mem_cons_self ..))
    have hr := ih (fun x hx => h x (List.mem_cons_of_mem _ hx))
    refine ⟨fun a => ?_, ?_, ?_⟩
    · simp only [incOf_cons, decOf_cons, (hm a).1, (hm a).2.1, (hr.1 a).1, (hr.1 a).2]; simp
    · simp only [incAll_cons, (hm 0).2.2.1, hr.2.1]
    · simp only [decAll_cons, (hm 0).2.2.2, hr.2.2]

/-- a step that touches neither ledger, handles a head message that is not a mirror message, and
    emits only messages not sent by the token, keeps the link -/
theorem Mirror.frame {t : Token} {rw rw' : RewardSt} {tok r : Addr} {m : Msg} {subs rest : List Msg}
    (hb : ∀ a, rw'.hBal a = rw.hBal a) (htot : rw'.totalBalance = rw.totalBalance)
    (hm : ∀ a, incAmt tok r a m = 0 ∧ decAmt tok r a m = 0 ∧ incAmtAll tok r m = 0 ∧ decAmtAll tok r m = 0)
    (hs : ∀ x ∈ subs, x.sentFrom ≠ tok) (h : Mirror t rw tok r (m :: rest)) :
    Mirror t rw' tok r (subs ++ rest) := by
  have z := incOf_from tok r subs hs
  unfold Mirror at *
  simp only [decOf_cons, incOf_cons, decAll_cons, incAll_cons] at h
  refine ⟨fun a => ?_, ?_⟩
  · have := h.1 a
    rw [decOf_append, incOf_append, (z.1 a).1, (z.1 a).2, hb a]
    rw [(hm a).1, (hm a).2.1] at this
    omega
  · have := h.2
    rw [decAll_append, incAll_append, z.2.1, z.2.2, htot]
    rw [(hm 0).2.2.1, (hm 0).2.2.2] at this
    omega

/-- reward-contract messages other than Increase / Decrease leave every mirrored balance alone -/
theorem reward_other_keeps (r r' : RewardSt) (self : Addr) (tok dsp : Res Addr) (bal : Denom → Nat)
    (sender : Addr) (m : RewMsg) (ms : List Msg)
    (hne : (∀ a amt, m ≠ .increase a amt) ∧ (∀ a amt, m ≠ .decrease a amt))
    (hx : rewardExec r self tok dsp bal sender m = .ok (r', ms)) :
    (∀ a, r'.hBal a = r.hBal a) ∧ r'.totalBalance = r.totalBalance := by
  cases m with
  | increase a amt => exact absurd rfl (hne.1 a amt)
  | decrease a amt => exact absurd rfl (hne.2 a amt)
  | claim rcp =>
    simp only [rewardExec] at hx; exc_norm at hx; exc_split at hx
    refine ⟨fun a => ?_, rfl⟩
    simp only [RewardSt.setHolder, upd]
    split
    · rename_i h; rw [h]
    · rfl
  | _ => simp only [rewardExec] at hx <;> exc_norm at hx <;> exc_split at hx <;> exact ⟨fun _ => rfl, rfl⟩

/-- the six owner / nominee addresses of a state -/
def ownersOf (s : Sys) : List Addr :=
  [s.hub.creator, s.hub.newOwner, s.disp.owner, s.disp.newOwner, s.reward.owner, s.reward.newOwner]

/-- everything the lift carries from message to message -/
structure MirrorInv (o : List Addr) (s : Sys) (q : List Msg) : Prop where
  wired : Wired s
  wf : s.bsei.WF
  owners : ownersOf s = o
  mirror : Mirror s.bsei s.reward bseiA rewardA q
  senders : ∀ m ∈ q, ∀ a b c d, m = .wasm a b c d → a ∉ o

theorem internal_not_owner {s : Sys} (w : Wired s) (a : Addr) (ha : a ∈ internal) : a ∉ ownersOf s := by
  intro hm
  simp only [ownersOf, List.mem_cons, List.mem_nil_iff, or_false] at hm
  rcases hm with h | h | h | h | h | h
  · exact w.hubOwner (h ▸ ha)
  · exact w.hubNominee (h ▸ ha)
  · exact w.dispOwner (h ▸ ha)
  · exact w.dispNominee (h ▸ ha)
  · exact w.rwOwner (h ▸ ha)
  · exact w.rwNominee (h ▸ ha)

theorem MirrorInv.step (o : List Addr) (s s' : Sys) (m : Msg) (rest subs : List Msg)
    (inv : MirrorInv o s (m :: rest)) (hx : s.handle m = .ok (s', subs)) :
    MirrorInv o s' (subs ++ rest) := by
  have w := inv.wired
  -- the head's sender is none of the owners
  have hsender : ∀ a b c d, m = .wasm a b c d →
      a ≠ s.hub.creator ∧ a ≠ s.hub.newOwner ∧ a ≠ s.disp.owner ∧ a ≠ s.disp.newOwner ∧
      a ≠ s.reward.owner ∧ a ≠ s.reward.newOwner := by
    intro a b c d hm
    have := inv.senders m (List.mem_cons_self ..) a b c d hm
    rw [← inv.owners] at this
    simp only [ownersOf, List.mem_cons, List.mem_nil_iff, or_false, not_or] at this
    exact this
  have w' : Wired s' := handle_wired s s' m subs w inv.wf hx hsender
  -- owners unchanged (they are part of the wiring argument: no owner message succeeded)
  have sent := handle_sentBy s s' m subs hx
  have restSenders : ∀ x ∈ rest, ∀ a b c d, x = .wasm a b c d → a ∉ o :=
    fun x hx' => inv.senders x (List.mem_cons_of_mem _ hx')
  cases handle_touch s s' m subs hx with
  | none h hm hs _ =>
    have own : ownersOf s' = o := by rw [← inv.owners]; simp only [ownersOf, h.hub, h.disp, h.reward]
    refine ⟨w', by rw [h.bsei]; exact inv.wf, own, ?_, ?_⟩
    · rw [h.bsei, h.reward]
      refine Mirror.frame (fun _ => rfl) rfl ?_ ?_ inv.mirror
      · intro a
        rcases hm with hm | ⟨a', b', c', d', heq, ht⟩
        · cases m with
          | wasm a1 b1 c1 d1 => exact absurd rfl (hm a1 b1 c1 d1)
          | _ => simp [incAmt, decAmt, incAmtAll, decAmtAll]
        · subst heq
          apply incAmt_target
          rcases ht with ht | ht <;> rw [ht] <;> decide
      · intro x hx'; rw [hs x hx']; decide
    · intro x hx' a b c d hxe
      rcases List.mem_append.mp hx' with hin | hin
      · have : a = swapA := by have := hs x hin; rw [hxe] at this; exact this
        rw [← own]; exact internal_not_owner w' a (by rw [this]; simp [internal])
      · exact restSenders x hin a b c d hxe
  | hub s1 sender funds hm heq h1 _ hc hx' b t r d g =>
    have cfg : HubSt.SameConfig s.hub s'.hub := by
      rcases hubExec_config _ _ _ _ _ _ _ hx' with c | c | c
      · exact c
      · exact absurd c (hsender _ _ _ _ heq).1
      · exact absurd c (hsender _ _ _ _ heq).2.1
    have own : ownersOf s' = o := by
      rw [← inv.owners]; simp only [ownersOf, cfg.creator, cfg.newOwner, d, r]
    have sb : SentBy hubA subs := (sent.1 _ _ _ _ heq)
    refine ⟨w', by rw [b]; exact inv.wf, own, ?_, ?_⟩
    · rw [b, r]
      refine Mirror.frame (fun _ => rfl) rfl ?_ ?_ inv.mirror
      · intro a; subst heq; exact incAmt_target _ _ _ _ _ _ _ (by decide)
      · intro x hx'; rw [sb x hx']; decide
    · intro x hx' a b' c d' hxe
      rcases List.mem_append.mp hx' with hin | hin
      · have : a = hubA := by have := sb x hin; rw [hxe] at this; exact this
        rw [← own]; exact internal_not_owner w' a (by rw [this]; simp [internal])
      · exact restSenders x hin a b' c d' hxe
  | bsei s1 sender funds tm heq h1 hx' h t r d g =>
    have w1 : Wired s1 := w.of_same h1
    rw [w1.rewardAddr] at hx'
    have own : ownersOf s' = o := by rw [← inv.owners]; simp only [ownersOf, h, d, r]
    have sb : SentBy bseiA subs := (sent.1 _ _ _ _ heq)
    have st := C18_bsei_step _ _ _ _ _ _ _ _ _ inv.wf hx'
    refine ⟨w', st.2.1, own, ?_, ?_⟩
    · rw [r]
      have hmir := inv.mirror
      rw [heq] at hmir
      exact C16_queue_step_token _ _ _ _ _ _ _ _ _ _ _ _ hmir hx'
    · intro x hx'' a b' c d' hxe
      rcases List.mem_append.mp hx'' with hin | hin
      · have : a = bseiA := by have := sb x hin; rw [hxe] at this; exact this
        rw [← own]; exact internal_not_owner w' a (by rw [this]; simp [internal])
      · exact restSenders x hin a b' c d' hxe
  | stsei blk sender funds tm heq hx' h b r d g =>
    have own : ownersOf s' = o := by rw [← inv.owners]; simp only [ownersOf, h, d, r]
    have sb : SentBy stseiA subs := (sent.1 _ _ _ _ heq)
    refine ⟨w', by rw [b]; exact inv.wf, own, ?_, ?_⟩
    · rw [b, r]
      refine Mirror.frame (fun _ => rfl) rfl ?_ ?_ inv.mirror
      · intro a; subst heq; exact incAmt_target _ _ _ _ _ _ _ (by decide)
      · intro x hx'; rw [sb x hx']; decide
    · intro x hx'' a b' c d' hxe
      rcases List.mem_append.mp hx'' with hin | hin
      · have : a = stseiA := by have := sb x hin; rw [hxe] at this; exact this
        rw [← own]; exact internal_not_owner w' a (by rw [this]; simp [internal])
      · exact restSenders x hin a b' c d' hxe
  | reward s1 sender funds rm heq h1 _ _ hx' h b t d g =>
    have w1 : Wired s1 := w.of_same h1
    rw [w1.tokenOf] at hx'
    have cfg : s'.reward.owner = s.reward.owner ∧ s'.reward.newOwner = s.reward.newOwner := by
      rcases rewardExec_config _ _ _ _ _ _ _ _ _ hx' with c | c | c
      · exact ⟨c.2.1, c.2.2⟩
      · exact absurd c (hsender _ _ _ _ heq).2.2.2.2.1
      · exact absurd c (hsender _ _ _ _ heq).2.2.2.2.2
    have own : ownersOf s' = o := by rw [← inv.owners]; simp only [ownersOf, h, d, cfg.1, cfg.2]
    have sb : SentBy rewardA subs := (sent.1 _ _ _ _ heq)
    refine ⟨w', by rw [b]; exact inv.wf, own, ?_, ?_⟩
    · rw [b]
      have hmir := inv.mirror
      rw [heq] at hmir
      -- a mirror message must come from the token
      have fromTok : ∀ a amt, (rm = .increase a amt ∨ rm = .decrease a amt) → sender = bseiA := by
        intro a amt hrm
        rcases hrm with hrm | hrm <;> subst hrm <;>
          (simp only [rewardExec] at hx'; exc_norm at hx'; split at hx'
           · cases hx'
           · rename_i hs; exact Classical.not_not.mp hs)
      by_cases hi : ∃ a amt, rm = .increase a amt
      · obtain ⟨a, amt, hrm⟩ := hi
        have hsb := fromTok a amt (Or.inl hrm)
        subst hrm; subst hsb
        exact C16_queue_step_reward s.bsei s.reward s'.reward rewardA bseiA _ _ a amt true funds subs rest hmir hx'
      · by_cases hd : ∃ a amt, rm = .decrease a amt
        · obtain ⟨a, amt, hrm⟩ := hd
          have hsb := fromTok a amt (Or.inr hrm)
          subst hrm; subst hsb
          exact C16_queue_step_reward s.bsei s.reward s'.reward rewardA bseiA _ _ a amt false funds subs rest hmir hx'
        · have hne : (∀ a amt, rm ≠ .increase a amt) ∧ (∀ a amt, rm ≠ .decrease a amt) :=
            ⟨fun a amt e => hi ⟨a, amt, e⟩, fun a amt e => hd ⟨a, amt, e⟩⟩
          have keep := reward_other_keeps _ _ _ _ _ _ _ _ _ hne hx'
          refine Mirror.frame keep.1 keep.2 ?_ ?_ hmir
          · intro a
            cases rm with
            | increase a' amt => exact absurd rfl (hne.1 a' amt)
            | decrease a' amt => exact absurd rfl (hne.2 a' amt)
            | _ => simp [incAmt, decAmt, incAmtAll, decAmtAll]
          · intro x hx''; rw [sb x hx'']; decide
    · intro x hx'' a b' c d' hxe
      rcases List.mem_append.mp hx'' with hin | hin
      · have : a = rewardA := by have := sb x hin; rw [hxe] at this; exact this
        rw [← own]; exact internal_not_owner w' a (by rw [this]; simp [internal])
      · exact restSenders x hin a b' c d' hxe
  | disp env sender funds dm heq _ _ hx' h b t r g =>
    have cfg : s'.disp.owner = s.disp.owner ∧ s'.disp.newOwner = s.disp.newOwner := by
      rcases dispExec_config _ _ _ _ _ _ _ hx' with c | c | c
      · exact ⟨c.2.1, c.2.2⟩
      · exact absurd c (hsender _ _ _ _ heq).2.2.1
      · exact absurd c (hsender _ _ _ _ heq).2.2.2.1
    have own : ownersOf s' = o := by rw [← inv.owners]; simp only [ownersOf, h, r, cfg.1, cfg.2]
    have sb : SentBy dispA subs := (sent.1 _ _ _ _ heq)
    refine ⟨w', by rw [b]; exact inv.wf, own, ?_, ?_⟩
    · rw [b, r]
      refine Mirror.frame (fun _ => rfl) rfl ?_ ?_ inv.mirror
      · intro a; subst heq; exact incAmt_target _ _ _ _ _ _ _ (by decide)
      · intro x hx'; rw [sb x hx']; decide
    · intro x hx'' a b' c d' hxe
      rcases List.mem_append.mp hx'' with hin | hin
      · have : a = dispA := by have := sb x hin; rw [hxe] at this; exact this
        rw [← own]; exact internal_not_owner w' a (by rw [this]; simp [internal])
      · exact restSenders x hin a b' c d' hxe
  | reg s1 sender funds rm heq h1 _ _ hx' h b t r d =>
    have own : ownersOf s' = o := by rw [← inv.owners]; simp only [ownersOf, h, d, r]
    have sb : SentBy regA subs := (sent.1 _ _ _ _ heq)
    refine ⟨w', by rw [b]; exact inv.wf, own, ?_, ?_⟩
    · rw [b, r]
      refine Mirror.frame (fun _ => rfl) rfl ?_ ?_ inv.mirror
      · intro a; subst heq; exact incAmt_target _ _ _ _ _ _ _ (by decide)
      · intro x hx'; rw [sb x hx']; decide
    · intro x hx'' a b' c d' hxe
      rcases List.mem_append.mp hx'' with hin | hin
      · have : a = regA := by have := sb x hin; rw [hxe] at this; exact this
        rw [← own]; exact internal_not_owner w' a (by rw [this]; simp [internal])
      · exact restSenders x hin a b' c d' hxe

/-- a history step allowed under E3: an environment event, or a top-level contract call by an outside
    account that is none of the owners / nominees in `o` -/
def QuietStep (o : List Addr) : Step → Prop
  | .env _ => True
  | .tx m => ∃ a b c d, m = .wasm a b c d ∧ External a ∧ a ∉ o

/-- **Every reachable state.** -/
theorem C16_reachable (s : Sys) (l : List Step)
    (w : Wired s) (wf : s.bsei.WF) (hm : Mirror s.bsei s.reward bseiA rewardA [])
    (hq : ∀ st ∈ l, QuietStep (ownersOf s) st) :
    (∀ a, (s.steps l).reward.hBal a = (s.steps l).bsei.bal a) ∧
    (s.steps l).reward.totalBalance = (s.steps l).bsei.supply := by
  have key : ∀ (l : List Step) (x : Sys), MirrorInv (ownersOf s) x [] →
      (∀ st ∈ l, QuietStep (ownersOf s) st) → MirrorInv (ownersOf s) (x.steps l) [] := by
    intro l
    induction l with
    | nil => intro x hx _; exact hx
    | cons st rest ih =>
      intro x inv hq'
      show MirrorInv (ownersOf s) ((x.step st).steps rest) []
      apply ih _ _ (fun st' h' => hq' st' (List.mem_cons_of_mem _ h'))
      have hst := hq' st (List.mem_cons_self ..)
      cases st with
      | env e =>
        show MirrorInv (ownersOf s) (x.env e) []
        have of_sc : ∀ e', SameContracts x (x.env e') → MirrorInv (ownersOf s) (x.env e') [] := by
          intro e' sc
          exact ⟨inv.wired.of_same sc, by rw [sc.bsei]; exact inv.wf,
            by rw [← inv.owners]; simp only [ownersOf, sc.hub, sc.disp, sc.reward],
            by rw [sc.bsei, sc.reward]; exact inv.mirror, inv.senders⟩
        cases e with
        | seedLegacy u b a =>
          exact ⟨⟨inv.wired.tokHub, inv.wired.hubDisp, inv.wired.dispRw, inv.wired.rwHub, inv.wired.hubTok,
            inv.wired.hubOwner, inv.wired.hubNominee, inv.wired.dispOwner, inv.wired.dispNominee,
            inv.wired.rwOwner, inv.wired.rwNominee⟩, inv.wf, inv.owners, inv.mirror, inv.senders⟩
        | advance dt => exact of_sc _ (env_same x _ (by intro u b a h; cases h))
        | slash v n d => exact of_sc _ (env_same x _ (by intro u b a h; cases h))
        | slashUnbonding v n d => exact of_sc _ (env_same x _ (by intro u b a h; cases h))
        | accrue v d a => exact of_sc _ (env_same x _ (by intro u b a h; cases h))
        | donate a d n => exact of_sc _ (env_same x _ (by intro u b a h; cases h))
        | blockRedelegation v on => exact of_sc _ (env_same x _ (by intro u b a h; cases h))
        | blockUndelegation v on => exact of_sc _ (env_same x _ (by intro u b a h; cases h))
        | setInactive v on => exact of_sc _ (env_same x _ (by intro u b a h; cases h))
        | oracle ok p => exact of_sc _ (env_same x _ (by intro u b a h; cases h))
        | swap ok p => exact of_sc _ (env_same x _ (by intro u b a h; cases h))
      | tx m =>
        obtain ⟨a, b, c, d, hm', hext, hno⟩ := hst
        show MirrorInv (ownersOf s) (x.exec m).1 []
        unfold Sys.exec
        split
        · rename_i x' hrun
          refine run_inv2 (MirrorInv (ownersOf s)) (fun s0 m0 rest0 s1 subs0 => MirrorInv.step _ s0 s1 m0 rest0 subs0)
            400 x [m] x' ?_ hrun
          refine ⟨inv.wired, inv.wf, inv.owners, ?_, ?_⟩
          · have z := incAmt_from bseiA rewardA 0 m (by rw [hm']; intro h; apply hext; have h2 : a = bseiA := h; rw [h2]; simp [internal])
            have hmi := inv.mirror
            unfold Mirror at *
            simp only [decOf_cons, incOf_cons, decAll_cons, incAll_cons, decOf_nil, incOf_nil, decAll_nil, incAll_nil] at *
            refine ⟨fun a' => ?_, ?_⟩
            · have z' := incAmt_from bseiA rewardA a' m (by rw [hm']; intro h; apply hext; have h2 : a = bseiA := h; rw [h2]; simp [internal])
              rw [z'.1, z'.2.1]; exact hmi.1 a'
            · rw [z.2.2.1, z.2.2.2]; exact hmi.2
          · intro m1 hm1 a1 b1 c1 d1 he1
            simp only [List.mem_cons, List.mem_nil_iff, or_false] at hm1
            subst hm1
            rw [hm'] at he1; injection he1 with e1 _ _ _
            rw [← e1]; exact hno
        · exact inv
  have fin := key l s ⟨w, wf, rfl, hm, fun _ h => by cases h⟩ hq
  exact C16_drained _ _ _ _ fin.mirror

/-! Non-vacuity: the genesis state of the corpus satisfies every premise of `C16_reachable`, and a
    user's bond is a `QuietStep`. -/
example : Wired genesisSys := by
  refine ⟨rfl, rfl, rfl, rfl, rfl, ?_, ?_, ?_, ?_, ?_, ?_⟩ <;> (unfold External; decide)
example : genesisSys.bsei.WF := (C18_init_wf true hubA [] _ rfl).1
example : Mirror genesisSys.bsei genesisSys.reward bseiA rewardA [] :=
  C16_init hubA 1 hubA 1 swapA [0, 1] bseiA rewardA
example : QuietStep (ownersOf genesisSys) (.tx (.wasm 5 hubA (.hub .bond) [(0, 1000)])) :=
  ⟨5, hubA, _, _, rfl, by unfold External; decide, by decide⟩

end Krp
