/-
  C16 — Reward-contract balances mirror bSei token balances at all times.

  Two halves, composed through the message queue:
  (1) every successful bSei handler emits, for the reward contract, Decrease/Increase messages whose
      net effect on every address equals that address's balance change in the token ledger
      (and whose net total equals the supply change);
  (2) the reward contract applies an Increase/Decrease from the registered token exactly
      (that holder's mirrored balance and the total move by the amount, nobody else's).
  C16_queue_step states the invariant "token balance + pending decreases = mirrored balance +
  pending increases" and proves it is preserved by executing the head of the queue when that is a
  bSei message or a mirror message; when the queue has drained the two ledgers agree.
-/
import Krp.Lemmas.Cw20
import Krp.Lemmas.Reward
import Krp.System
import Krp.Init
namespace Krp
open Token

/-- what one message adds to the pending Increase / Decrease of address `a` (only messages the
    token `tok` sends to the reward contract `r` count) -/
def incAmt (tok r a : Addr) : Msg → Nat
  | Msg.wasm s t (.reward (.increase x amt)) _ => if s = tok ∧ t = r ∧ x = a then amt else 0
  | _ => 0
def decAmt (tok r a : Addr) : Msg → Nat
  | Msg.wasm s t (.reward (.decrease x amt)) _ => if s = tok ∧ t = r ∧ x = a then amt else 0
  | _ => 0
def incAmtAll (tok r : Addr) : Msg → Nat
  | Msg.wasm s t (.reward (.increase _ amt)) _ => if s = tok ∧ t = r then amt else 0
  | _ => 0
def decAmtAll (tok r : Addr) : Msg → Nat
  | Msg.wasm s t (.reward (.decrease _ amt)) _ => if s = tok ∧ t = r then amt else 0
  | _ => 0

/-- pending Increase / Decrease totals of a message queue -/
def incOf (tok r a : Addr) (q : List Msg) : Nat := (q.map (incAmt tok r a)).sum
def decOf (tok r a : Addr) (q : List Msg) : Nat := (q.map (decAmt tok r a)).sum
def incAll (tok r : Addr) (q : List Msg) : Nat := (q.map (incAmtAll tok r)).sum
def decAll (tok r : Addr) (q : List Msg) : Nat := (q.map (decAmtAll tok r)).sum

@[simp] theorem incOf_nil (tok r a : Addr) : incOf tok r a [] = 0 := rfl
@[simp] theorem decOf_nil (tok r a : Addr) : decOf tok r a [] = 0 := rfl
@[simp] theorem incAll_nil (tok r : Addr) : incAll tok r [] = 0 := rfl
@[simp] theorem decAll_nil (tok r : Addr) : decAll tok r [] = 0 := rfl
@[simp] theorem incOf_cons (tok r a : Addr) (m : Msg) (q : List Msg) :
    incOf tok r a (m :: q) = incAmt tok r a m + incOf tok r a q := by simp [incOf]
@[simp] theorem decOf_cons (tok r a : Addr) (m : Msg) (q : List Msg) :
    decOf tok r a (m :: q) = decAmt tok r a m + decOf tok r a q := by simp [decOf]
@[simp] theorem incAll_cons (tok r : Addr) (m : Msg) (q : List Msg) :
    incAll tok r (m :: q) = incAmtAll tok r m + incAll tok r q := by simp [incAll]
@[simp] theorem decAll_cons (tok r : Addr) (m : Msg) (q : List Msg) :
    decAll tok r (m :: q) = decAmtAll tok r m + decAll tok r q := by simp [decAll]
theorem incOf_append (tok r a : Addr) (x y : List Msg) :
    incOf tok r a (x ++ y) = incOf tok r a x + incOf tok r a y := by simp [incOf]
theorem decOf_append (tok r a : Addr) (x y : List Msg) :
    decOf tok r a (x ++ y) = decOf tok r a x + decOf tok r a y := by simp [decOf]
theorem incAll_append (tok r : Addr) (x y : List Msg) :
    incAll tok r (x ++ y) = incAll tok r x + incAll tok r y := by simp [incAll]
theorem decAll_append (tok r : Addr) (x y : List Msg) :
    decAll tok r (x ++ y) = decAll tok r x + decAll tok r y := by simp [decAll]

private theorem move_bal (t t' : Token) (src dst : Addr) (amt : Nat) (hx : t.move src dst amt = .ok t')
    (a : Addr) :
    t'.bal a + (if a = src then amt else 0) = t.bal a + (if a = dst then amt else 0) ∧ amt ≤ t.bal src := by
  unfold Token.move at hx
  split at hx
  · cases hx
  · rename_i hge
    injection hx with hx; subst hx
    refine ⟨?_, by omega⟩
    simp only [Token.setBal, upd]
    by_cases h1 : a = src
    · subst h1
      by_cases h2 : a = dst
      · subst h2; simp; omega
      · have h2' : dst ≠ a := fun e => h2 e.symm
        simp [h2, h2']; omega
    · by_cases h2 : a = dst
      · subst h2
        have h1' : src ≠ a := fun e => h1 e.symm
        simp [h1, h1']
      · simp [h1, h2]

private theorem deduct_bal (t t1 : Token) (b : Block) (o s : Addr) (amt : Nat)
    (hx : t.deduct b o s amt = .ok t1) : t1.bal = t.bal ∧ t1.supply = t.supply := by
  have := (deduct_spec t t1 b o s amt hx).2.2.2.2
  rw [this]; exact ⟨rfl, rfl⟩

/-- (1) every successful bSei message: for every address the ledger change equals the net of the
    mirror messages it emits to the reward contract, and the supply change equals their net total.
    Covers Transfer, Send, Mint, Burn, TransferFrom, SendFrom, BurnFrom and the allowance messages. -/
theorem C16_token_emits_exact_mirror (t t' : Token) (b : Block) (self r hubc sender : Addr)
    (m : TokMsg) (ms : List Msg) (hx : bseiExec t b self (.ok r) hubc sender m = .ok (t', ms))
    (hne : self ≠ r ∨ True) (a : Addr) :
    t'.bal a + decOf self r a ms = t.bal a + incOf self r a ms ∧
    t'.supply + decAll self r ms = t.supply + incAll self r ms := by
  cases m with
  | transfer to amt =>
    simp only [bseiExec] at hx; exc_norm at hx; exc_split at hx
    rename_i hh
    unfold Token.transfer at hh; split at hh
    · cases hh
    · have := move_bal _ _ _ _ _ hh a
      have hs := (move_wf_supply t t' _ _ _ hh)
      simp only [decOf_cons, incOf_cons, decAll_cons, incAll_cons, decOf_nil, incOf_nil, decAll_nil, incAll_nil, incAmt, decAmt, incAmtAll, decAmtAll, and_self, true_and, if_true, Nat.add_zero, Nat.zero_add]
      constructor
      · by_cases h1 : sender = a <;> by_cases h2 : to = a <;> simp_all [eq_comm] <;> omega
      · omega
  | burn amt =>
    simp only [bseiExec] at hx; exc_norm at hx; exc_split at hx
    rename_i hh
    unfold Token.burn at hh; exc_split at hh
    simp only [decOf_cons, incOf_cons, decAll_cons, incAll_cons, decOf_nil, incOf_nil, decAll_nil, incAll_nil, incAmt, decAmt, incAmtAll, decAmtAll, Token.setBal, upd, and_self, true_and, if_true, Nat.add_zero, Nat.zero_add]
    constructor
    · by_cases h1 : sender = a <;> simp_all [eq_comm] <;> omega
    · omega
  | send c amt hook =>
    simp only [bseiExec] at hx; exc_norm at hx; exc_split at hx
    rename_i hh
    unfold Token.transfer at hh; split at hh
    · cases hh
    · have := move_bal _ _ _ _ _ hh a
      have hs := (move_wf_supply t t' _ _ _ hh)
      unfold receiveMsg
      split <;> simp only [decOf_cons, incOf_cons, decAll_cons, incAll_cons, decOf_nil, incOf_nil, decAll_nil, incAll_nil, incAmt, decAmt, incAmtAll, decAmtAll, and_self, true_and, if_true, Nat.add_zero, Nat.zero_add] <;>
      · constructor
        · by_cases h1 : sender = a <;> by_cases h2 : c = a <;> simp_all [eq_comm] <;> omega
        · omega
  | mint to amt =>
    simp only [bseiExec] at hx; exc_norm at hx; exc_split at hx
    rename_i hh
    unfold Token.mint at hh; exc_split at hh
    simp only [decOf_cons, incOf_cons, decAll_cons, incAll_cons, decOf_nil, incOf_nil, decAll_nil, incAll_nil, incAmt, decAmt, incAmtAll, decAmtAll, Token.setBal, upd, and_self, true_and, if_true, Nat.add_zero, Nat.zero_add]
    constructor
    · by_cases h2 : to = a <;> simp_all [eq_comm]
    · first | omega | rfl | (simp; try omega)
  | incAllow s amt e =>
    simp only [bseiExec] at hx; exc_norm at hx; exc_split at hx
    rename_i hh
    unfold Token.incAllow at hh; exc_split at hh <;> simp [Token.setAllow]
  | decAllow s amt e =>
    simp only [bseiExec] at hx; exc_norm at hx; exc_split at hx
    rename_i hh
    unfold Token.decAllow at hh; exc_split at hh <;>
      simp [Token.setAllow, Token.delAllow]
  | transferFrom o to amt =>
    simp only [bseiExec] at hx; exc_norm at hx; exc_split at hx
    rename_i hh
    unfold Token.transferFrom at hh; split at hh
    · cases hh
    · rename_i t1 hd
      have hb := deduct_bal _ _ _ _ _ _ hd
      have := move_bal _ _ _ _ _ hh a
      have hs := (move_wf_supply t1 t' _ _ _ hh)
      rw [hb.1] at this; rw [hb.2] at hs
      simp only [decOf_cons, incOf_cons, decAll_cons, incAll_cons, decOf_nil, incOf_nil, decAll_nil, incAll_nil, incAmt, decAmt, incAmtAll, decAmtAll, and_self, true_and, if_true, Nat.add_zero, Nat.zero_add]
      constructor
      · by_cases h1 : o = a <;> by_cases h2 : to = a <;> simp_all [eq_comm] <;> omega
      · omega
  | burnFrom o amt =>
    simp only [bseiExec] at hx; exc_norm at hx; exc_split at hx
    rename_i hh
    unfold Token.burnFrom at hh; split at hh
    · cases hh
    · rename_i t1 hd
      have hb := deduct_bal _ _ _ _ _ _ hd
      exc_split at hh
      simp only [decOf_cons, incOf_cons, decAll_cons, incAll_cons, decOf_nil, incOf_nil, decAll_nil, incAll_nil, incAmt, decAmt, incAmtAll, decAmtAll, Token.setBal, upd, and_self, true_and, if_true, Nat.add_zero, Nat.zero_add, hb.1, hb.2]
      constructor
      · by_cases h1 : o = a <;> simp_all [eq_comm] <;> omega
      · rw [← hb.2]; omega
  | sendFrom o c amt hook =>
    simp only [bseiExec] at hx; exc_norm at hx; exc_split at hx
    rename_i hh
    unfold Token.transferFrom at hh; split at hh
    · cases hh
    · rename_i t1 hd
      have hb := deduct_bal _ _ _ _ _ _ hd
      have := move_bal _ _ _ _ _ hh a
      have hs := (move_wf_supply t1 t' _ _ _ hh)
      rw [hb.1] at this; rw [hb.2] at hs
      unfold receiveMsg
      split <;> simp only [decOf_cons, incOf_cons, decAll_cons, incAll_cons, decOf_nil, incOf_nil, decAll_nil, incAll_nil, incAmt, decAmt, incAmtAll, decAmtAll, and_self, true_and, if_true, Nat.add_zero, Nat.zero_add] <;>
      · constructor
        · by_cases h1 : o = a <;> by_cases h2 : c = a <;> simp_all [eq_comm] <;> omega
        · omega
  | updateMinter n => simp only [bseiExec] at hx; exc_norm at hx; cases hx
  | updateMarketing => simp only [bseiExec] at hx; exc_norm at hx; cases hx

/-- (2) the reward contract applies a mirror message from the registered token exactly -/
theorem C16_reward_applies (rw rw' : RewardSt) (self tok : Addr) (dp : Res Addr) (bb : Denom → Nat)
    (a amt : Nat) (ms : List Msg) (inc : Bool)
    (hx : rewardExec rw self (.ok tok) dp bb tok (if inc then .increase a amt else .decrease a amt) = .ok (rw', ms)) :
    ms = [] ∧ (∀ x, x ≠ a → rw'.hBal x = rw.hBal x) ∧
    (if inc then rw'.hBal a = rw.hBal a + amt ∧ rw'.totalBalance = rw.totalBalance + amt
     else rw'.hBal a + amt = rw.hBal a ∧ rw'.totalBalance + amt = rw.totalBalance) := by
  cases inc <;> simp only [Bool.false_eq_true, if_false, if_true] at hx ⊢ <;>
    simp only [rewardExec] at hx <;> exc_norm at hx <;> exc_split at hx
  · refine ⟨rfl, fun x hx' => by simp [RewardSt.setHolder, upd, hx'], ?_, ?_⟩
    · simp only [RewardSt.setHolder, upd_same]; omega
    · show rw.totalBalance - amt + amt = rw.totalBalance; omega
  · exact ⟨rfl, fun x hx' => by simp [RewardSt.setHolder, upd, hx'], by simp [RewardSt.setHolder], rfl⟩

/-- the invariant that links the two ledgers through the pending message queue -/
def Mirror (t : Token) (rw : RewardSt) (tok r : Addr) (q : List Msg) : Prop :=
  (∀ a, t.bal a + decOf tok r a q = rw.hBal a + incOf tok r a q) ∧
  t.supply + decAll tok r q = rw.totalBalance + incAll tok r q

/-- queue step (i): executing a bSei token message at the head of the queue (CosmWasm puts the
    messages it emits in front of the rest) keeps the two ledgers linked -/
theorem C16_queue_step_token (t t' : Token) (rw : RewardSt) (b : Block) (self r hubc sender : Addr)
    (m : TokMsg) (f : List (Denom × Nat)) (ms rest : List Msg)
    (hinv : Mirror t rw self r (Msg.wasm sender self (.tok m) f :: rest))
    (hx : bseiExec t b self (.ok r) hubc sender m = .ok (t', ms)) :
    Mirror t' rw self r (ms ++ rest) := by
  unfold Mirror at *
  simp only [decOf_cons, incOf_cons, decAll_cons, incAll_cons, incAmt, decAmt, incAmtAll, decAmtAll, Nat.zero_add] at hinv
  constructor
  · intro a
    have h1 := (C16_token_emits_exact_mirror t t' b self r hubc sender m ms hx (Or.inr trivial) a).1
    have h2 := hinv.1 a
    rw [incOf_append, decOf_append]; omega
  · have h1 := (C16_token_emits_exact_mirror t t' b self r hubc sender m ms hx (Or.inr trivial) 0).2
    have h2 := hinv.2
    rw [incAll_append, decAll_append]; omega

/-- queue step (ii): executing a pending Increase/Decrease on the reward contract -/
theorem C16_queue_step_reward (t : Token) (rw rw' : RewardSt) (self tok : Addr) (dp : Res Addr)
    (bb : Denom → Nat) (a amt : Nat) (inc : Bool) (f : List (Denom × Nat)) (ms rest : List Msg)
    (hinv : Mirror t rw tok self
      (Msg.wasm tok self (.reward (if inc then .increase a amt else .decrease a amt)) f :: rest))
    (hx : rewardExec rw self (.ok tok) dp bb tok (if inc then .increase a amt else .decrease a amt) = .ok (rw', ms)) :
    Mirror t rw' tok self (ms ++ rest) := by
  have hs := C16_reward_applies rw rw' self tok dp bb a amt ms inc hx
  rw [hs.1]
  unfold Mirror at *
  cases inc <;> simp only [Bool.false_eq_true, if_false, if_true, decOf_cons, incOf_cons, decAll_cons,
    incAll_cons, incAmt, decAmt, incAmtAll, decAmtAll, and_self, true_and, List.nil_append, Nat.zero_add] at hinv hs ⊢
  · constructor
    · intro x
      have := hinv.1 x
      by_cases hxa : x = a
      · subst hxa; simp only [if_true] at this; omega
      · have e := hs.2.1 x hxa
        have : ¬ a = x := fun e => hxa e.symm
        simp_all
    · omega
  · constructor
    · intro x
      have := hinv.1 x
      by_cases hxa : x = a
      · subst hxa; simp only [if_true] at this; omega
      · have e := hs.2.1 x hxa
        have : ¬ a = x := fun e => hxa e.symm
        simp_all
    · omega

/-- when the queue has drained the reward contract mirrors the token exactly: every address and
    the total -/
theorem C16_drained (t : Token) (rw : RewardSt) (tok r : Addr) (h : Mirror t rw tok r []) :
    (∀ a, rw.hBal a = t.bal a) ∧ rw.totalBalance = t.supply := by
  unfold Mirror at h
  simp only [decOf_nil, incOf_nil, decAll_nil, incAll_nil, Nat.add_zero] at h
  exact ⟨fun a => (h.1 a).symm, h.2.symm⟩

/-- start: a token instantiated without initial balances and a fresh reward contract mirror each other -/
theorem C16_init (hub sender rh : Addr) (d : Denom) (sw : Addr) (ds : List Denom) (tok r : Addr) :
    Mirror (emptyToken true hub) (rewardInit sender rh d sw ds) tok r [] := by
  unfold Mirror; simp [emptyToken, rewardInit]

end Krp
