/-
  C01 — Matured unbond claims are always fully funded and paid exactly once.
-/
import Krp.Props.C08
import Krp.Lemmas.Arith
import Krp.Init
import Krp.Lemmas.Reach
namespace Krp
open HubSt

/-- WithdrawUnbonded pays the caller exactly its recorded share of the released batches (each entry
    valued at that batch's final withdraw rates, floored per token), in one bank transfer, and
    records the remaining balance; it fails when that share is zero. -/
theorem C01_pays_recorded_share (h h' : HubSt) (e : HubEnv) (sender : Addr) (ms : List Msg)
    (hx : h.withdraw e sender = .ok (h', ms)) :
    ∃ h1, h.processWithdrawRate (e.now - h.unbonding) e.hubBalance = .ok h1 ∧
      (h1.finished sender).1 ≠ 0 ∧ (h1.finished sender).1 ≤ e.hubBalance ∧
      ms = [Msg.bankSend e.self sender 0 (h1.finished sender).1] ∧
      h'.prevHubBalance = e.hubBalance - (h1.finished sender).1 ∧
      (h1.finished sender).1 =
        (((h1.finished sender).2).map (fun i => entryValue (h1.histOr i) (h1.waitB sender i) (h1.waitS sender i))).sum := by
  obtain ⟨_, h1, hp, hne, hle, hh, hms⟩ := withdraw_spec h h' e sender ms hx
  subst hh
  exact ⟨h1, hp, hne, hle, hms, rfl, rfl⟩

private theorem finished_congr (g g' : HubSt) (u : Addr) (hh : g'.hist = g.hist) (hb : g'.batchId = g.batchId)
    (hw : ∀ i, g'.waitSet u i = g.waitSet u i ∧ g'.waitB u i = g.waitB u i ∧ g'.waitS u i = g.waitS u i) :
    g'.finished u = g.finished u := by
  have e1 : (fun i => g'.waitSet u i) = (fun i => g.waitSet u i) := funext (fun i => (hw i).1)
  have e2 : (fun i => entryValue (g'.histOr i) (g'.waitB u i) (g'.waitS u i)) =
      (fun i => entryValue (g.histOr i) (g.waitB u i) (g.waitS u i)) :=
    funext (fun i => by simp only [histOr, hh, (hw i).2.1, (hw i).2.2])
  unfold finished userBatches
  simp only [hh, hb, e1, e2]

private theorem finished_after_delete (g g' : HubSt) (u : Addr) (hh : g'.hist = g.hist)
    (hb : g'.batchId = g.batchId)
    (hw : ∀ i, g'.waitSet u i = (if i ∈ (g.finished u).2 then false else g.waitSet u i)) :
    (g'.finished u).2 = [] ∧ (g'.finished u).1 = 0 := by
  have hempty : (g'.finished u).2 = [] := by
    apply List.eq_nil_iff_forall_not_mem.mpr
    intro i hi
    simp only [finished, userBatches, List.mem_filter, List.mem_range, hh, hb] at hi
    have hws := hw i
    by_cases hin : i ∈ (g.finished u).2
    · rw [if_pos hin] at hws; rw [hws] at hi; exact absurd hi.1.2 (by simp)
    · rw [if_neg hin] at hws
      apply hin
      simp only [finished, userBatches, List.mem_filter, List.mem_range]
      exact ⟨⟨hi.1.1, by rw [← hws]; exact hi.1.2⟩, hi.2⟩
  refine ⟨hempty, ?_⟩
  have : (g'.finished u).1 = (((g'.finished u).2).map (fun i => entryValue (g'.histOr i) (g'.waitB u i) (g'.waitS u i))).sum := rfl
  rw [this, hempty]; rfl

/-- …and never pays a claim twice: after a successful withdrawal the caller has no released claim
    left (an immediate second WithdrawUnbonded finds nothing and fails). -/
theorem C01_paid_once (h h' : HubSt) (e : HubEnv) (sender : Addr) (ms : List Msg)
    (hx : h.withdraw e sender = .ok (h', ms)) :
    (h'.finished sender).2 = [] ∧ (h'.finished sender).1 = 0 := by
  obtain ⟨_, h1, hp, _, _, hh, _⟩ := withdraw_spec h h' e sender ms hx
  subst hh
  have fs := delWait_fold_spec (h1.finished sender).2 sender h1
  simp only [] at fs
  exact finished_after_delete h1 _ sender fs.1 fs.2.1 (fun i => (fs.2.2.2.2.2.2.2.2 i).1)

/-- Each claimant's payout is independent of the order in which claimants withdraw: the release is
    computed from the hub's state, balance and time alone (not from who calls), and a withdrawal by
    `v` leaves every other user's released share exactly as the release made it. -/
theorem C01_order_independent (h h' : HubSt) (e : HubEnv) (v : Addr) (ms : List Msg)
    (hx : h.withdraw e v = .ok (h', ms)) :
    ∃ h1, h.processWithdrawRate (e.now - h.unbonding) e.hubBalance = .ok h1 ∧
      ∀ u, u ≠ v → h'.finished u = h1.finished u := by
  obtain ⟨_, h1, hp, _, _, hh, _⟩ := withdraw_spec h h' e v ms hx
  subst hh
  refine ⟨h1, hp, fun u hne => ?_⟩
  have fs := delWait_fold_spec (h1.finished v).2 v h1
  simp only [] at fs
  exact finished_congr h1 _ u fs.1 fs.2.1 (fun i => fs.2.2.2.2.2.2.2.1 u i hne)

/-- users' payouts from a batch side never exceed the side's allocation: Σ ⌊x_u·r⌋ ≤ ⌊(Σ x_u)·r⌋ -/
theorem C01_sum_of_floors (xs : List Nat) (r : Nat) :
    (xs.map (fun x => mulDec x r)).sum ≤ mulDec xs.sum r := by
  induction xs with
  | nil => simp [mulDec]
  | cons x xs ih =>
    simp only [List.map_cons, List.sum_cons]
    have : mulDec x r + mulDec xs.sum r ≤ mulDec (x + xs.sum) r := by
      unfold mulDec
      rw [Nat.add_mul]
      apply (Nat.le_div_iff_mul_le D_pos).mpr
      have h1 : x * r / D * D ≤ x * r := Nat.div_mul_le_self _ _
      have h2 : xs.sum * r / D * D ≤ xs.sum * r := Nat.div_mul_le_self _ _
      rw [Nat.add_mul]; omega
    omega

/-- Release of a single batch (the common case), one token side: whatever arrived for that side —
    less than undelegated (slashing), equal, or more (unsolicited transfers) — the side's new
    withdraw rate allocates at most what arrived, so the total paid never exceeds the coins that
    actually arrived. `U` = amount undelegated for the side, `A` = coins that arrived for it. -/
theorem C01_single_batch_side_alloc_le_arrived (amount rate A U : Nat) (hU : U = mulDec amount rate)
    (hpos : 0 < U) :
    mulDec amount (newWithdrawRate amount rate U (signedSub U A)) ≤ A := by
  have hD : 0 < D := D_pos
  have hamt : amount ≠ 0 := by
    intro h0; subst h0; simp [mulDec] at hU; omega
  have hUne : U ≠ 0 := Nat.pos_iff_ne_zero.mp hpos
  have hw : fromRatio U U = D := by
    unfold fromRatio; exact Nat.mul_div_cancel_left D hpos
  have hsl : ∀ m, mulDec m D = m := by intro m; unfold mulDec; exact Nat.mul_div_cancel m hD
  have bound : ∀ act, mulDec amount (fromRatio act amount) ≤ act := by
    intro act
    unfold mulDec fromRatio
    have h1 : act * D / amount * amount ≤ act * D := Nat.div_mul_le_self _ _
    have : amount * (act * D / amount) ≤ act * D := by rw [Nat.mul_comm]; exact h1
    exact Nat.div_le_of_le_mul (by rw [Nat.mul_comm D]; exact this)
  by_cases hlt : U < A
  · have hs : signedSub U A = (A - U, true) := by unfold signedSub; rw [if_pos hlt]
    rw [hs]
    unfold newWithdrawRate
    rw [← hU]
    simp only [hamt, hUne, ne_eq, not_false_eq_true, if_true, hw, hsl]
    refine Nat.le_trans (bound _) ?_
    split <;> omega
  · have hs : signedSub U A = (U - A, false) := by unfold signedSub; rw [if_neg hlt]
    rw [hs]
    unfold newWithdrawRate
    rw [← hU]
    simp only [hamt, hUne, ne_eq, not_false_eq_true, if_true, hw, hsl, Bool.false_eq_true, if_false]
    refine Nat.le_trans (bound _) ?_
    split <;> omega

/-- The defect repaired by the `fix:` commit 94f82c5, kept as a regression witness: 1 bSei + 9 stSei
    in one batch, 10 undelegated, 9 arrive. With the absolute value the bSei side (share of the
    slash + 1 = 2 > 1) was released at rate 1 instead of 0; now it is 0. -/
theorem C01_fix_regression :
    newWithdrawRate 1 D 1 (signedSub 1 0) = 0 ∧
    (signedSub (mulDec 1 D) (mulDec 1 (fromRatio 1 1) + 1)).1 = 1 := by decide

/-- D5 (known finding): with three or more batches released together under a near-total slash the
    weights' 18-place floor can over-allocate by one base unit. Five bSei batches at rate 1,
    850244140625000000 undelegated, 4539105737537508 arrive (99.5 % slashed): allocated = arrived + 1. -/
theorem C01_release_group_counterexample :
    let us : List Nat := [100000000000000000, 244140625000000, 50000000000000000, 200000000000000000, 500000000000000000]
    let tot := us.sum
    let arrived := 4539105737537508
    (us.map (fun u => mulDec u (newWithdrawRate u D tot (signedSub tot arrived)))).sum = arrived + 1 := by
  decide

example : 0 < mulDec 1000 (9 * D / 10) := by decide

/-- **A withdrawal the hub accepts is always paid — as a whole transaction.** If the hub's
    WithdrawUnbonded handler accepts (unpaused hub, the balance the handler sees is the hub's bank
    balance), the bank transfer it emits cannot fail: the transaction succeeds, exactly the computed
    amount leaves the hub, and `prev_hub_balance` is what remains. -/
theorem C01_withdraw_tx_pays (s : Sys) (u : Addr) (h' : HubSt) (ms : List Msg)
    (hp : s.hub.isPaused = false) (hu : u ≠ hubA)
    (hx : s.hub.withdraw s.hubEnv u = .ok (h', ms)) :
    ∃ s' amt, s.exec (.wasm u hubA (.hub .withdrawUnbonded) []) = (s', .ok ()) ∧
      ms = [Msg.bankSend hubA u 0 amt] ∧ 0 < amt ∧
      s'.chain.bank hubA 0 + amt = s.chain.bank hubA 0 ∧ s'.chain.bank u 0 = s.chain.bank u 0 + amt ∧
      s'.hub = h' ∧ h'.prevHubBalance = s'.chain.bank hubA 0 := by
  obtain ⟨_, h1, hpw, hne, hle, hh, hms⟩ := HubSt.withdraw_spec s.hub h' s.hubEnv u ms hx
  have hbal : s.hubEnv.hubBalance = s.chain.bank hubA 0 := rfl
  obtain ⟨amt, hamt⟩ : ∃ a, a = (h1.finished u).1 := ⟨_, rfl⟩
  rw [← hamt] at hne hle hms hh
  have hpos : 0 < amt := Nat.pos_of_ne_zero hne
  obtain ⟨s1, hs1⟩ : ∃ x : Sys, x = { s with hub := h' } := ⟨_, rfl⟩
  have H1 : s.handle (.wasm u hubA (.hub .withdrawUnbonded) []) = .ok (s1, [Msg.bankSend hubA u 0 amt]) := by
    simp only [Sys.handle, Sys.moveFunds, bind, Except.bind, pure, Except.pure]
    rw [if_pos trivial]
    simp only [hubExec, hp, Bool.false_eq_true, if_false, hx, hms, hs1]
    rfl
  obtain ⟨s2, hs2⟩ : ∃ x : Sys, x = (s1.setBank hubA 0 (s1.chain.bank hubA 0 - amt)).setBank u 0
      ((s1.setBank hubA 0 (s1.chain.bank hubA 0 - amt)).chain.bank u 0 + amt) := ⟨_, rfl⟩
  have hch : s1.chain = s.chain := by rw [hs1]
  have H2 : s1.handle (Msg.bankSend hubA u 0 amt) = .ok (s2, []) := by
    simp only [Sys.handle, Sys.bankMove, bind, Except.bind, pure, Except.pure]
    rw [if_neg (by omega), if_neg (by rw [hch]; rw [hbal] at hle; omega), hs2]
  refine ⟨s2, amt, ?_, hms, hpos, ?_, ?_, ?_, ?_⟩
  · unfold Sys.exec
    simp only [Sys.run, H1, List.nil_append, List.append_nil, H2]
  · rw [hs2]
    have : ¬ hubA = u := fun h => hu h.symm
    simp only [Sys.setBank, upd, hch, this, if_false, if_true]
    rw [hbal] at hle; omega
  · rw [hs2]
    simp only [Sys.setBank, upd, hch, hu, if_false, if_true]
  · rw [hs2, hs1]; rfl
  · rw [hh, hs2]
    have : ¬ hubA = u := fun h => hu h.symm
    simp only [Sys.setBank, upd, hch, this, if_false, if_true]
    rw [hbal]

end Krp
