/-
  C01 — Matured unbond claims are always fully funded and paid exactly once.
-/
import Krp.Props.C08
import Krp.Lemmas.Arith
import Krp.Init
import Krp.Lemmas.Reach
import Krp.Lemmas.Funded
import Krp.Lemmas.NoWd
import Krp.Lemmas.Arrive
import Krp.Props.C02
namespace Krp
open HubSt

/-- WithdrawUnbonded pays the caller exactly its recorded share of the released batches (each entry
    valued at that batch's final withdraw rates, floored per token), in one bank transfer, and
    records the remaining balance; it fails when that share is zero. -/
theorem C01_pays_recorded_share (h h' : HubSt) (e : HubEnv) (sender : Addr) (ms : List Msg)
    (hx : h.withdraw e sender = .ok (h', ms)) :
    ∃ h1, h.processWithdrawRate (e.now - h.unbonding) e.hubBalance = .ok h1 ∧
      (h1.finished sender).1 ≠ 0 ∧ (h1.finished sender).1 ≤ e.hubBalance ∧
      ms = [Msg.bankSend e.self sender 0 (h1.finished sender).1] ∧
      h'.prevHubBalance = e.hubBalance - (h1.finished sender).1 ∧
      (h1.finished sender).1 =
        (((h1.finished sender).2).map (fun i => entryValue (h1.histOr i) (h1.waitB sender i) (h1.waitS sender i))).sum := by
  obtain ⟨_, h1, hp, hne, hle, hh, hms⟩ := withdraw_spec h h' e sender ms hx
  subst hh
  exact ⟨h1, hp, hne, hle, hms, rfl, rfl⟩

private theorem finished_congr (g g' : HubSt) (u : Addr) (hh : g'.hist = g.hist) (hb : g'.batchId = g.batchId)
    (hw : ∀ i, g'.waitSet u i = g.waitSet u i ∧ g'.waitB u i = g.waitB u i ∧ g'.waitS u i = g.waitS u i) :
    g'.finished u = g.finished u := by
  have e1 : (fun i => g'.waitSet u i) = (fun i => g.waitSet u i) := funext (fun i => (hw i).1)
  have e2 : (fun i => entryValue (g'.histOr i) (g'.waitB u i) (g'.waitS u i)) =
      (fun i => entryValue (g.histOr i) (g.waitB u i) (g.waitS u i)) :=
    funext (fun i => by simp only [histOr, hh, (hw i).2.1, (hw i).2.2])
  unfold finished userBatches
  simp only [hh, hb, e1, e2]

private theorem finished_after_delete (g g' : HubSt) (u : Addr) (hh : g'.hist = g.hist)
    (hb : g'.batchId = g.batchId)
    (hw : ∀ i, g'.waitSet u i = (if i ∈ (g.finished u).2 then false else g.waitSet u i)) :
    (g'.finished u).2 = [] ∧ (g'.finished u).1 = 0 := by
  have hempty : (g'.finished u).2 = [] := by
    apply List.eq_nil_iff_forall_not_mem.mpr
    intro i hi
    simp only [finished, userBatches, List.mem_filter, List.mem_range, hh, hb] at hi
    have hws := hw i
    by_cases hin : i ∈ (g.finished u).2
    · rw [if_pos hin] at hws; rw [hws] at hi; exact absurd hi.1.2 (by simp)
    · rw [if_neg hin] at hws
      apply hin
      simp only [finished, userBatches, List.mem_filter, List.mem_range]
      exact ⟨⟨hi.1.1, by rw [← hws]; exact hi.1.2⟩, hi.2⟩
  refine ⟨hempty, ?_⟩
  have : (g'.finished u).1 = (((g'.finished u).2).map (fun i => entryValue (g'.histOr i) (g'.waitB u i) (g'.waitS u i))).sum := rfl
  rw [this, hempty]; rfl

/-- …and never pays a claim twice: after a successful withdrawal the caller has no released claim
    left (an immediate second WithdrawUnbonded finds nothing and fails). -/
theorem C01_paid_once (h h' : HubSt) (e : HubEnv) (sender : Addr) (ms : List Msg)
    (hx : h.withdraw e sender = .ok (h', ms)) :
    (h'.finished sender).2 = [] ∧ (h'.finished sender).1 = 0 := by
  obtain ⟨_, h1, hp, _, _, hh, _⟩ := withdraw_spec h h' e sender ms hx
  subst hh
  have fs := delWait_fold_spec (h1.finished sender).2 sender h1
  simp only [] at fs
  exact finished_after_delete h1 _ sender fs.1 fs.2.1 (fun i => (fs.2.2.2.2.2.2.2.2 i).1)

/-- Each claimant's payout is independent of the order in which claimants withdraw: the release is
    computed from the hub's state, balance and time alone (not from who calls), and a withdrawal by
    `v` leaves every other user's released share exactly as the release made it. -/
theorem C01_order_independent (h h' : HubSt) (e : HubEnv) (v : Addr) (ms : List Msg)
    (hx : h.withdraw e v = .ok (h', ms)) :
    ∃ h1, h.processWithdrawRate (e.now - h.unbonding) e.hubBalance = .ok h1 ∧
      ∀ u, u ≠ v → h'.finished u = h1.finished u := by
  obtain ⟨_, h1, hp, _, _, hh, _⟩ := withdraw_spec h h' e v ms hx
  subst hh
  refine ⟨h1, hp, fun u hne => ?_⟩
  have fs := delWait_fold_spec (h1.finished v).2 v h1
  simp only [] at fs
  exact finished_congr h1 _ u fs.1 fs.2.1 (fun i => fs.2.2.2.2.2.2.2.1 u i hne)

/-- users' payouts from a batch side never exceed the side's allocation: Σ ⌊x_u·r⌋ ≤ ⌊(Σ x_u)·r⌋ -/
theorem C01_sum_of_floors (xs : List Nat) (r : Nat) :
    (xs.map (fun x => mulDec x r)).sum ≤ mulDec xs.sum r := by
  induction xs with
  | nil => simp [mulDec]
  | cons x xs ih =>
    simp only [List.map_cons, List.sum_cons]
    have : mulDec x r + mulDec xs.sum r ≤ mulDec (x + xs.sum) r := by
      unfold mulDec
      rw [Nat.add_mul]
      apply (Nat.le_div_iff_mul_le D_pos).mpr
      have h1 : x * r / D * D ≤ x * r := Nat.div_mul_le_self _ _
      have h2 : xs.sum * r / D * D ≤ xs.sum * r := Nat.div_mul_le_self _ _
      rw [Nat.add_mul]; omega
    omega

/-- Release of a single batch (the common case), one token side: whatever arrived for that side —
    less than undelegated (slashing), equal, or more (unsolicited transfers) — the side's new
    withdraw rate allocates at most what arrived, so the total paid never exceeds the coins that
    actually arrived. `U` = amount undelegated for the side, `A` = coins that arrived for it. -/
theorem C01_single_batch_side_alloc_le_arrived (amount rate A U : Nat) (hU : U = mulDec amount rate)
    (hpos : 0 < U) :
    mulDec amount (newWithdrawRate amount rate U (signedSub U A)) ≤ A := by
  have hD : 0 < D := D_pos
  have hamt : amount ≠ 0 := by
    intro h0; subst h0; simp [mulDec] at hU; omega
  have hUne : U ≠ 0 := Nat.pos_iff_ne_zero.mp hpos
  have hw : fromRatio U U = D := by
    unfold fromRatio; exact Nat.mul_div_cancel_left D hpos
  have hsl : ∀ m, mulDec m D = m := by intro m; unfold mulDec; exact Nat.mul_div_cancel m hD
  have bound : ∀ act, mulDec amount (fromRatio act amount) ≤ act := by
    intro act
    unfold mulDec fromRatio
    have h1 : act * D / amount * amount ≤ act * D := Nat.div_mul_le_self _ _
    have : amount * (act * D / amount) ≤ act * D := by rw [Nat.mul_comm]; exact h1
    exact Nat.div_le_of_le_mul (by rw [Nat.mul_comm D]; exact this)
  by_cases hlt : U < A
  · have hs : signedSub U A = (A - U, true) := by unfold signedSub; rw [if_pos hlt]
    rw [hs]
    unfold newWithdrawRate
    rw [← hU]
    simp only [hamt, hUne, ne_eq, not_false_eq_true, if_true, hw, hsl]
    refine Nat.le_trans (bound _) ?_
    split <;> omega
  · have hs : signedSub U A = (U - A, false) := by unfold signedSub; rw [if_neg hlt]
    rw [hs]
    unfold newWithdrawRate
    rw [← hU]
    simp only [hamt, hUne, ne_eq, not_false_eq_true, if_true, hw, hsl, Bool.false_eq_true, if_false]
    refine Nat.le_trans (bound _) ?_
    split <;> omega

/-- The defect repaired by the `fix:` commit 94f82c5, kept as a regression witness: 1 bSei + 9 stSei
    in one batch, 10 undelegated, 9 arrive. With the absolute value the bSei side (share of the
    slash + 1 = 2 > 1) was released at rate 1 instead of 0; now it is 0. -/
theorem C01_fix_regression :
    newWithdrawRate 1 D 1 (signedSub 1 0) = 0 ∧
    (signedSub (mulDec 1 D) (mulDec 1 (fromRatio 1 1) + 1)).1 = 1 := by decide

/-- D5 (known finding): with three or more batches released together under a near-total slash the
    weights' 18-place floor can over-allocate by one base unit. Five bSei batches at rate 1,
    850244140625000000 undelegated, 4539105737537508 arrive (99.5 % slashed): allocated = arrived + 1. -/
theorem C01_release_group_counterexample :
    let us : List Nat := [100000000000000000, 244140625000000, 50000000000000000, 200000000000000000, 500000000000000000]
    let tot := us.sum
    let arrived := 4539105737537508
    (us.map (fun u => mulDec u (newWithdrawRate u D tot (signedSub tot arrived)))).sum = arrived + 1 := by
  decide

example : 0 < mulDec 1000 (9 * D / 10) := by decide

/-- **A withdrawal the hub accepts is always paid — as a whole transaction.** If the hub's
    WithdrawUnbonded handler accepts (unpaused hub, the balance the handler sees is the hub's bank
    balance), the bank transfer it emits cannot fail: the transaction succeeds, exactly the computed
    amount leaves the hub, and `prev_hub_balance` is what remains. -/
theorem C01_withdraw_tx_pays (s : Sys) (u : Addr) (h' : HubSt) (ms : List Msg)
    (hp : s.hub.isPaused = false) (hu : u ≠ hubA)
    (hx : s.hub.withdraw s.hubEnv u = .ok (h', ms)) :
    ∃ s' amt, s.exec (.wasm u hubA (.hub .withdrawUnbonded) []) = (s', .ok ()) ∧
      ms = [Msg.bankSend hubA u 0 amt] ∧ 0 < amt ∧
      s'.chain.bank hubA 0 + amt = s.chain.bank hubA 0 ∧ s'.chain.bank u 0 = s.chain.bank u 0 + amt ∧
      s'.hub = h' ∧ h'.prevHubBalance = s'.chain.bank hubA 0 := by
  obtain ⟨_, h1, hpw, hne, hle, hh, hms⟩ := HubSt.withdraw_spec s.hub h' s.hubEnv u ms hx
  have hbal : s.hubEnv.hubBalance = s.chain.bank hubA 0 := rfl
  obtain ⟨amt, hamt⟩ : ∃ a, a = (h1.finished u).1 := ⟨_, rfl⟩
  rw [← hamt] at hne hle hms hh
  have hpos : 0 < amt := Nat.pos_of_ne_zero hne
  obtain ⟨s1, hs1⟩ : ∃ x : Sys, x = { s with hub := h' } := ⟨_, rfl⟩
  have H1 : s.handle (.wasm u hubA (.hub .withdrawUnbonded) []) = .ok (s1, [Msg.bankSend hubA u 0 amt]) := by
    simp only [Sys.handle, Sys.moveFunds, bind, Except.bind, pure, Except.pure]
    rw [if_pos trivial]
    simp only [hubExec, hp, Bool.false_eq_true, if_false, hx, hms, hs1]
    rfl
  obtain ⟨s2, hs2⟩ : ∃ x : Sys, x = (s1.setBank hubA 0 (s1.chain.bank hubA 0 - amt)).setBank u 0
      ((s1.setBank hubA 0 (s1.chain.bank hubA 0 - amt)).chain.bank u 0 + amt) := ⟨_, rfl⟩
  have hch : s1.chain = s.chain := by rw [hs1]
  have H2 : s1.handle (Msg.bankSend hubA u 0 amt) = .ok (s2, []) := by
    simp only [Sys.handle, Sys.bankMove, bind, Except.bind, pure, Except.pure]
    rw [if_neg (by omega), if_neg (by rw [hch]; rw [hbal] at hle; omega), hs2]
  refine ⟨s2, amt, ?_, hms, hpos, ?_, ?_, ?_, ?_⟩
  · unfold Sys.exec
    simp only [Sys.run, H1, List.nil_append, List.append_nil, H2]
  · rw [hs2]
    have : ¬ hubA = u := fun h => hu h.symm
    simp only [Sys.setBank, upd, hch, this, if_false, if_true]
    rw [hbal] at hle; omega
  · rw [hs2]
    simp only [Sys.setBank, upd, hch, hu, if_false, if_true]
  · rw [hs2, hs1]; rfl
  · rw [hh, hs2]
    have : ¬ hubA = u := fun h => hu h.symm
    simp only [Sys.setBank, upd, hch, this, if_false, if_true]
    rw [hbal]


/-! ### Release groups, and the funding of released claims in every state

  `owed h` (Lemmas/Funded.lean) = Σ over all users' wait entries of released batches, each valued
  at its batch's final withdraw rates = the sum of all matured (released) claims.  `Funded h` says
  it is covered by `prev_hub_balance`, which `C02_reserved` shows is covered by the hub's liquid
  balance.  The one operation that can break it is a release that allocates more than arrived;
  `C01_release_side_alloc_le_arrived_partial` proves it cannot for an unslashed side and for a side
  slashed by `sl` with `batches · sl ≤ 10^18`; outside that the bound is false
  (`C01_release_group_counterexample`, known finding D5), which is why the statements below carry
  `GroupSafe` for the releases of a history. -/

/-- **Batches released together, one token side: the allocation never exceeds what arrived for the
    side** — whatever the number of batches, their sizes and rates — when the side lost nothing
    (`T ≤ A`: no slashing of the unbonding stake; unsolicited transfers allowed), and when it lost
    `sl = T − A` with `batches · sl ≤ 10^18`.  PARTIAL: without that side condition the statement
    is false (D5). `xs` = (amount, rate) per batch; `T = sideTotal xs`. -/
theorem C01_release_side_alloc_le_arrived_partial (xs : List (Nat × Nat)) (A : Nat)
    (hs : sideTotal xs ≤ A ∨ xs.length * (sideTotal xs - A) ≤ D) :
    sideAlloc xs (sideTotal xs) (signedSub (sideTotal xs) A) ≤ A :=
  side_alloc_le xs A hs

/-- non-vacuity: three batches, a 10 % slash of the unbonding stake — inside the side condition -/
example : SideSafe 3 (sideTotal [(1000, D), (2000, D), (3000, D)]) 5400 := by
  right; decide

/-- **A release raises the sum of released claims by at most the coins that arrived** (the
    difference between the hub's balance and `prev_hub_balance`), for a group that meets the side
    condition; so the total paid for batches released together never exceeds the arrivals. -/
theorem C01_release_owed_le_arrived (h h1 : HubSt) (cutoff bal : Nat) (inv : ClaimInv h)
    (hs : h.GroupSafe cutoff bal) (hx : h.processWithdrawRate cutoff bal = .ok h1) :
    h1.owed ≤ h.owed + (bal - h.prevHubBalance) :=
  release_owed_le h h1 cutoff bal hx (fun i x hxi => (inv.closed i x hxi).2) hs

/-- WithdrawUnbonded keeps the released claims funded: afterwards what is still owed is covered by
    the new `prev_hub_balance` (= balance − payout). -/
theorem C01_withdraw_keeps_funded (h h' : HubSt) (e : HubEnv) (sender : Addr) (ms : List Msg)
    (inv : ClaimInv h) (hF : h.Funded) (hP : h.prevHubBalance ≤ e.hubBalance)
    (hs : h.GroupSafe (e.now - h.unbonding) e.hubBalance)
    (hx : h.withdraw e sender = .ok (h', ms)) : h'.Funded := by
  obtain ⟨_, h1, hp, _, hle, hh, _⟩ := withdraw_spec h h' e sender ms hx
  have rel := C01_release_owed_le_arrived h h1 _ _ inv hs hp
  have inv1 := C07_release_keeps_claims h h1 _ _ inv hp
  have hnd : (h1.finished sender).2.Nodup := by
    unfold finished userBatches
    exact nodup_filter _ _ (nodup_filter _ _ List.nodup_range)
  have hrel : ∀ i ∈ (h1.finished sender).2, ∃ x, h1.hist i = some x ∧ x.released = true := by
    intro i hi
    simp only [finished, List.mem_filter] at hi
    cases hxi : h1.hist i with
    | none => simp [hxi] at hi
    | some x => simp [hxi] at hi; exact ⟨x, rfl, hi.2⟩
  have pay := owed_delWait_fold sender (h1.finished sender).2 h1 inv1.wf hnd hrel
  have hfin : (h1.finished sender).1 =
      (((h1.finished sender).2).map (fun i => entryValue (h1.histOr i) (h1.waitB sender i) (h1.waitS sender i))).sum := rfl
  subst hh
  unfold Funded at hF ⊢
  show ((h1.finished sender).2.foldl (fun hh i => hh.delWait sender i) h1).owed ≤ e.hubBalance - (h1.finished sender).1
  have e1 : ({ ((h1.finished sender).2.foldl (fun hh i => hh.delWait sender i) h1) with
      prevHubBalance := e.hubBalance - (h1.finished sender).1 } : HubSt).owed =
      ((h1.finished sender).2.foldl (fun hh i => hh.delWait sender i) h1).owed := rfl
  omega

/-- **A matured claim worth at least one base unit can always be withdrawn.** In a state whose
    released claims are funded and whose `prev_hub_balance` is in the hub's account, for a release
    that meets the side condition: WithdrawUnbonded by a claimant whose released entries are worth
    ≥ 1 is accepted by the handler (`C01_withdraw_tx_pays`: and then paid as a whole transaction). -/
theorem C01_withdraw_succeeds (h h1 : HubSt) (e : HubEnv) (sender : Addr)
    (inv : ClaimInv h) (hF : h.Funded) (hP : h.prevHubBalance ≤ e.hubBalance)
    (hs : h.GroupSafe (e.now - h.unbonding) e.hubBalance) (hnow : h.unbonding ≤ e.now)
    (hp : h.processWithdrawRate (e.now - h.unbonding) e.hubBalance = .ok h1)
    (hpos : 1 ≤ (h1.finished sender).1) :
    ∃ h' ms, h.withdraw e sender = .ok (h', ms) := by
  have rel := C01_release_owed_le_arrived h h1 _ _ inv hs hp
  have inv1 := C07_release_keeps_claims h h1 _ _ inv hp
  have hnd : (h1.finished sender).2.Nodup := by
    unfold finished userBatches
    exact nodup_filter _ _ (nodup_filter _ _ List.nodup_range)
  have hrel : ∀ i ∈ (h1.finished sender).2, ∃ x, h1.hist i = some x ∧ x.released = true := by
    intro i hi
    simp only [finished, List.mem_filter] at hi
    cases hxi : h1.hist i with
    | none => simp [hxi] at hi
    | some x => simp [hxi] at hi; exact ⟨x, rfl, hi.2⟩
  have pay := owed_delWait_fold sender (h1.finished sender).2 h1 inv1.wf hnd hrel
  have hfin : (h1.finished sender).1 =
      (((h1.finished sender).2).map (fun i => entryValue (h1.histOr i) (h1.waitB sender i) (h1.waitS sender i))).sum := rfl
  unfold Funded at hF
  have hle : (h1.finished sender).1 ≤ e.hubBalance := by omega
  unfold withdraw
  rw [if_neg (by omega), hp]
  simp only []
  rw [if_neg (by omega), if_neg (by omega)]
  exact ⟨_, _, rfl⟩

/-- **Absent slashing and unsolicited transfers the total released falls short of the arrivals by
    rounding dust only.** If exactly the coins undelegated for the group arrived (no slashing of the
    unbonding stake, no unsolicited transfer; all amounts within the envelope 10^18), the sum of all
    users' released claims grows by everything that arrived, less at most two base units per batch
    and two per claim (wait entry) of the released batches. -/
theorem C01_release_dust_bound (h h1 : HubSt) (cutoff bal : Nat) (inv : ClaimInv h)
    (hexact : bal - h.prevHubBalance =
      sideTotal (h.pairsS (h.relIds cutoff)) + sideTotal (h.pairsB (h.relIds cutoff)))
    (hle : bal - h.prevHubBalance ≤ D)
    (hamt : ∀ i x, h.hist i = some x → x.bAmt ≤ D ∧ x.sAmt ≤ D)
    (hx : h.processWithdrawRate cutoff bal = .ok h1) :
    h.owed + (bal - h.prevHubBalance) ≤
      h1.owed + 2 * (h.relIds cutoff).length + ((h.relIds cutoff).map (fun i => 2 * (h.keysOf i).length)).sum :=
  release_owed_ge h h1 cutoff bal hx (fun i x hxi hr => (inv.closed i x hxi).1 hr) hexact hle hamt

/-- …and such a release meets the side condition of the upper bound: both token sides receive
    exactly what was undelegated for them. -/
theorem C01_exact_arrival_is_safe (h : HubSt) (cutoff bal : Nat)
    (hexact : bal - h.prevHubBalance =
      sideTotal (h.pairsS (h.relIds cutoff)) + sideTotal (h.pairsB (h.relIds cutoff)))
    (hle : bal - h.prevHubBalance ≤ D) : h.GroupSafe cutoff bal := by
  unfold GroupSafe
  rw [hexact] at hle ⊢
  generalize sideTotal (h.pairsS (h.relIds cutoff)) = sT at *
  generalize sideTotal (h.pairsB (h.relIds cutoff)) = bT at *
  by_cases hpos : 0 < sT + bT
  · have hsplit := split_exact sT bT hpos hle
    simp only [hpos, gt_iff_lt, if_true]
    rw [hsplit]
    exact ⟨Or.inl (Nat.le_refl _), Or.inl (by omega)⟩
  · have hs : sT = 0 := by omega
    have hb : bT = 0 := by omega
    subst hs; subst hb
    exact ⟨Or.inl (Nat.zero_le _), Or.inl (Nat.zero_le _)⟩

/-- **A release for which at least the undelegated coins arrived meets the side condition**, with
    or without unsolicited transfers on top (arrivals within the envelope 10^18): the split gives
    neither token side less than was undelegated for it, so `GroupSafe` holds with no slash on either
    side. Hence the side condition of `C01_funded_reachable` can only fail through slashing of the
    unbonding stake. -/
theorem C01_unslashed_arrival_is_safe (h : HubSt) (cutoff bal : Nat)
    (hge : sideTotal (h.pairsS (h.relIds cutoff)) + sideTotal (h.pairsB (h.relIds cutoff)) ≤
      bal - h.prevHubBalance)
    (hle : bal - h.prevHubBalance ≤ D) : h.GroupSafe cutoff bal := by
  unfold GroupSafe
  generalize sideTotal (h.pairsS (h.relIds cutoff)) = sT at *
  generalize sideTotal (h.pairsB (h.relIds cutoff)) = bT at *
  generalize bal - h.prevHubBalance = act at *
  by_cases hpos : 0 < sT + bT
  · have hs := split_surplus sT bT act hpos hge hle
    simp only [hpos, gt_iff_lt, if_true]
    exact ⟨Or.inl hs.1, Or.inl hs.2⟩
  · have hs : sT = 0 := by omega
    have hb : bT = 0 := by omega
    subst hs; subst hb
    exact ⟨Or.inl (Nat.zero_le _), Or.inl (Nat.zero_le _)⟩

/-! #### every other hub message leaves `prev_hub_balance` and the released claims alone -/

private theorem prev_of_books {h st : HubSt} {e : HubEnv} (hx : h.actualState e = .ok st) :
    st.prevHubBalance = h.prevHubBalance := (actualState_spec h st e hx).1.prev

private theorem owed_of_keeps {h h' : HubSt} (k : KeepsClaims h h') : h'.owed = h.owed :=
  owed_congr h h' k.same.keys k.same.waitB k.same.waitS k.same.hist

/-- recording an unbond request in the open batch does not change what is owed for released batches -/
private theorem owed_addWait (st : HubSt) (inv : ClaimInv st) (u : Addr) (x y : Nat) :
    (st.addWait u st.batchId x y).owed = st.owed := by
  have a := addWait_claims st inv.wf u st.batchId x y
  have hnone : st.hist st.batchId = none := by
    cases hh : st.hist st.batchId with
    | none => rfl
    | some z => exact absurd (inv.histBound st.batchId (by rw [hh]; simp)) (Nat.lt_irrefl _)
  unfold owed owedWith
  show sumOn (addKey st.waitKeys (u, st.batchId)) (relValWith st.hist (st.addWait u st.batchId x y)) = _
  have hother : ∀ k, k ≠ (u, st.batchId) →
      relValWith st.hist (st.addWait u st.batchId x y) k = relValWith st.hist st k := by
    intro k hk
    have o := a.2.2.2.1 k.1 k.2 (by intro e; apply hk; cases k; simp at e ⊢; exact e)
    unfold relValWith; rw [o.1, o.2]
  have z1 : relValWith st.hist st (u, st.batchId) = 0 := by unfold relValWith; simp only [hnone]
  have z2 : relValWith st.hist (st.addWait u st.batchId x y) (u, st.batchId) = 0 := by
    unfold relValWith; simp only [hnone]
  have := sumOn_addKey st.waitKeys (relValWith st.hist st) (relValWith st.hist (st.addWait u st.batchId x y))
    (u, st.batchId) hother inv.wf.nodup (fun _ => z1)
  omega

/-- closing the open batch (an undelegation) writes an unreleased entry: nothing more is owed -/
private theorem owed_processUndelegations (h h' : HubSt) (e : HubEnv) (ms : List Msg) (inv : ClaimInv h)
    (hx : h.processUndelegations e = .ok (h', ms)) :
    h'.owed = h.owed ∧ h'.prevHubBalance = h.prevHubBalance := by
  have hnone : h.hist h.batchId = none := by
    cases hh : h.hist h.batchId with
    | none => rfl
    | some z => exact absurd (inv.histBound h.batchId (by rw [hh]; simp)) (Nat.lt_irrefl _)
  unfold processUndelegations at hx
  exc_split at hx
  refine ⟨?_, rfl⟩
  unfold owed owedWith
  apply sumOn_congr
  intro k _
  unfold relValWith
  by_cases hk : k.2 = h.batchId
  · simp only [hk, upd_same, hnone, Bool.false_eq_true, if_false]
  · simp only [upd_other _ _ _ _ hk]

/-- **Every hub message other than WithdrawUnbonded** leaves `prev_hub_balance` and the sum of
    released claims exactly as they were. -/
theorem C01_other_messages_keep_reserve (h h' : HubSt) (e : HubEnv) (sender : Addr)
    (funds : List (Denom × Nat)) (m : HubMsg) (ms : List Msg) (inv : ClaimInv h) (hl : h.legacy = [])
    (hm : m ≠ .withdrawUnbonded) (hx : hubExec h e sender funds m = .ok (h', ms)) :
    h'.prevHubBalance = h.prevHubBalance ∧ h'.owed = h.owed := by
  have keepB : ∀ {st x : HubSt}, h.actualState e = .ok st → x.prevHubBalance = st.prevHubBalance →
      KeepsClaims h x → x.prevHubBalance = h.prevHubBalance ∧ x.owed = h.owed :=
    fun hst hp k => ⟨hp.trans (prev_of_books hst), owed_of_keeps k⟩
  cases m with
  | withdrawUnbonded => exact absurd rfl hm
  | migrateWaitList limit =>
    simp only [hubExec] at hx
    split at hx
    · injection hx with hx; injection hx with h1 _; subst h1
      have : h.migrate limit = h := by simp [migrate, hl]
      rw [this]; exact ⟨rfl, rfl⟩
    · cases hx
  | updateParams a b c d p r =>
    simp only [hubExec] at hx
    exc_norm at hx
    split at hx
    · cases hx
    · rename_i h1 hp
      injection hx with hx; injection hx with e1 _; subst e1
      refine ⟨?_, owed_of_keeps (updateParams_keeps _ _ _ _ _ _ _ _ _ hp)⟩
      unfold updateParams at hp; exc_norm at hp; exc_split at hp
      all_goals rfl
  | receive user amt hook =>
    simp only [hubExec] at hx
    split at hx
    · cases hx
    · exc_norm at hx
      split at hx
      · cases hx
      · split at hx
        · cases hx
        · cases hook with
          | other => simp only [] at hx; cases hx
          | convert =>
            simp only [] at hx
            split at hx
            · obtain ⟨st, _, _, _, _, _, hst, _, _, _, _, _, _, _, _, hh, _⟩ := convertBS_spec _ _ _ _ _ _ hx
              exact keepB hst (by rw [hh]) (convertBS_keeps _ _ _ _ _ _ hx)
            · split at hx
              · obtain ⟨st, _, _, _, _, _, hst, _, _, _, _, _, _, _, _, hh, _⟩ := convertSB_spec _ _ _ _ _ _ hx
                exact keepB hst (by rw [hh]) (convertSB_keeps _ _ _ _ _ _ hx)
              · cases hx
          | unbond =>
            simp only [] at hx
            split at hx
            · obtain ⟨st, supply, wf, tok, hst, _, _, _, _, _, hcase⟩ := unbondB_spec _ _ _ _ _ _ hx
              have k := actualState_keeps h st e hst
              have inv1 : ClaimInv st := ClaimInv.of_same k.same inv
              have c := C07_unbond_bsei_credits_sender_only st inv1 user supply amt wf
              have o1 : (st.afterUnbondB user supply amt wf).owed = h.owed := by
                have : (st.afterUnbondB user supply amt wf).owed = (st.addWait user st.batchId wf 0).owed :=
                  owed_congr _ _ rfl rfl rfl rfl
                rw [this, owed_addWait st inv1, owed_of_keeps k]
              have p1 : (st.afterUnbondB user supply amt wf).prevHubBalance = h.prevHubBalance := by
                show st.prevHubBalance = _; exact prev_of_books hst
              rcases hcase with ⟨_, um, hp, _⟩ | ⟨_, hh, _⟩
              · have r := owed_processUndelegations _ _ _ _ c.1 hp
                exact ⟨r.2.trans p1, r.1.trans o1⟩
              · subst hh; exact ⟨p1, o1⟩
            · split at hx
              · obtain ⟨st, tok, hst, _, _, hcase⟩ := unbondS_spec _ _ _ _ _ _ hx
                have k := actualState_keeps h st e hst
                have inv1 : ClaimInv st := ClaimInv.of_same k.same inv
                have c := C07_unbond_stsei_credits_sender_only st inv1 user amt
                have o1 : (st.afterUnbondS user amt).owed = h.owed := by
                  have : (st.afterUnbondS user amt).owed = (st.addWait user st.batchId 0 amt).owed :=
                    owed_congr _ _ rfl rfl rfl rfl
                  rw [this, owed_addWait st inv1, owed_of_keeps k]
                have p1 : (st.afterUnbondS user amt).prevHubBalance = h.prevHubBalance := by
                  show st.prevHubBalance = _; exact prev_of_books hst
                rcases hcase with ⟨_, um, hp, _⟩ | ⟨_, hh, _⟩
                · have r := owed_processUndelegations _ _ _ _ c.1 hp
                  exact ⟨r.2.trans p1, r.1.trans o1⟩
                · subst hh; exact ⟨p1, o1⟩
              · cases hx
  | bond =>
    simp only [hubExec] at hx; split at hx; · cases hx
    · obtain ⟨p, st, mint, dl, tok, _, hst, _, _, _, _, hh, _⟩ := bondB_spec _ _ _ _ _ _ hx
      exact keepB hst (by rw [hh]) (bondB_keeps _ _ _ _ _ _ hx)
  | bondForStSei =>
    simp only [hubExec] at hx; split at hx; · cases hx
    · obtain ⟨p, st, dl, tok, _, hst, _, _, _, hh, _⟩ := bondS_spec _ _ _ _ _ _ hx
      exact keepB hst (by rw [hh]) (bondS_keeps _ _ _ _ _ _ hx)
  | bondRewards =>
    simp only [hubExec] at hx; split at hx; · cases hx
    · obtain ⟨p, st, _, _, hst, _, hh⟩ := bondR_spec _ _ _ _ _ _ hx
      exact keepB hst (by rw [hh]) (bondR_keeps _ _ _ _ _ _ hx)
  | updateGlobalIndex =>
    simp only [hubExec] at hx; split at hx; · cases hx
    · refine ⟨?_, owed_of_keeps (updateGlobal_keeps _ _ _ _ _ hx)⟩
      unfold updateGlobal at hx; exc_norm at hx; exc_split at hx
      all_goals rfl
  | checkSlashing =>
    simp only [hubExec] at hx
    split at hx
    · cases hx
    · exc_norm at hx
      split at hx
      · cases hx
      · rename_i st hst
        injection hx with hx; injection hx with e1 _; subst e1
        exact ⟨prev_of_books hst, owed_of_keeps (actualState_keeps _ _ _ hst)⟩
  | updateConfig a b c d f g u =>
    simp only [hubExec] at hx; split at hx; · cases hx
    · refine ⟨?_, owed_of_keeps (updateConfig_keeps _ _ _ _ _ _ _ _ _ _ _ _ hx)⟩
      unfold updateConfig at hx; exc_norm at hx; exc_split at hx
      all_goals rfl
  | setOwner a =>
    simp only [hubExec] at hx; exc_norm at hx; exc_split at hx
    exact ⟨rfl, rfl⟩
  | acceptOwnership =>
    simp only [hubExec] at hx; exc_norm at hx; exc_split at hx
    exact ⟨rfl, rfl⟩
  | swapHook =>
    simp only [hubExec] at hx; exc_norm at hx; exc_split at hx
    exact ⟨rfl, rfl⟩
  | claimAirdrop =>
    simp only [hubExec] at hx; exc_norm at hx; exc_split at hx
    exact ⟨rfl, rfl⟩
  | redelegateProxy src plan =>
    simp only [hubExec] at hx; exc_norm at hx; exc_split at hx
    exact ⟨rfl, rfl⟩

/-- **Every hub message keeps the released claims funded.** Whatever message the hub accepts, from
    whomever: if the sum of released, unpaid claims was covered by `prev_hub_balance` it still is —
    for WithdrawUnbonded provided `prev_hub_balance` is in the hub's account (`C02_reserved`) and the
    release it performs meets the side condition. -/
theorem C01_funded_hub_step (h h' : HubSt) (e : HubEnv) (sender : Addr) (funds : List (Denom × Nat))
    (m : HubMsg) (ms : List Msg) (inv : ClaimInv h) (hl : h.legacy = []) (hF : h.Funded)
    (hP : h.prevHubBalance ≤ e.hubBalance)
    (hs : m = .withdrawUnbonded → h.unbonding ≤ e.now → h.GroupSafe (e.now - h.unbonding) e.hubBalance)
    (hx : hubExec h e sender funds m = .ok (h', ms)) : h'.Funded := by
  by_cases hm : m = .withdrawUnbonded
  · subst hm
    simp only [hubExec] at hx
    split at hx
    · cases hx
    · exact C01_withdraw_keeps_funded h h' e sender ms inv hF hP (hs rfl (withdraw_spec h h' e sender ms hx).1) hx
  · have r := C01_other_messages_keep_reserve h h' e sender funds m ms inv hl hm hx
    unfold Funded at hF ⊢
    rw [r.1, r.2]; exact hF


/-! #### every reachable state -/

/-- the release that a top-level message would perform (if it is a WithdrawUnbonded) meets the
    side condition of `C01_release_side_alloc_le_arrived_partial` -/
def SafeTop (s : Sys) (m : Msg) : Prop :=
  ∀ sender funds s1, m = .wasm sender hubA (.hub .withdrawUnbonded) funds →
    s.moveFunds sender hubA funds = .ok s1 → s.hub.unbonding ≤ s1.chain.time →
    s.hub.GroupSafe (s1.chain.time - s.hub.unbonding) (s1.chain.bank hubA 0)

/-- carried from message to message inside a transaction -/
structure FundQ (s : Sys) (q : List Msg) : Prop where
  fund : HubFund s q
  claims : ClaimInv s.hub
  legacy : s.hub.legacy = []
  funded : s.hub.Funded

theorem FundQ.step (s s' : Sys) (m : Msg) (rest subs : List Msg) (inv : FundQ s (m :: rest))
    (hsafe : SafeTop s m) (hx : s.handle m = .ok (s', subs)) : FundQ s' (subs ++ rest) := by
  have hf := HubFund.step s s' m rest subs inv.fund hx
  have same : s'.hub = s.hub → FundQ s' (subs ++ rest) := fun hh =>
    ⟨hf, by rw [hh]; exact inv.claims, by rw [hh]; exact inv.legacy, by rw [hh]; exact inv.funded⟩
  cases handle_touch s s' m subs hx with
  | none h _ _ _ => exact same h.hub
  | bsei s1 sender funds tm _ _ hx' h t r d g => exact same h
  | stsei blk sender funds tm _ hx' h b r d g => exact same h
  | reward s1 sender funds rm _ _ _ _ hx' h b t d g => exact same h
  | disp env sender funds dm _ _ _ hx' h b t r g => exact same h
  | reg s1 sender funds rm _ h1 _ _ hx' h b t r d => exact same h
  | hub s1 sender funds hm heq h1 hmv hc hx' b t r d g =>
    have c7 := C07_hub_step _ _ _ _ _ _ _ inv.claims inv.legacy hx'
    -- when the hub handles a message nothing it sent earlier is still pending: prev ≤ balance
    obtain ⟨A, rst, hq, hA, hrest, hle⟩ := inv.fund.split
    have hAnil : A = [] := by
      cases A with
      | nil => rfl
      | cons p A' =>
        simp only [List.cons_append] at hq
        injection hq with e1 _
        have := hA p (List.mem_cons_self ..)
        rw [← e1, heq] at this
        simp [isLeaf] at this
    subst hAnil
    simp only [List.nil_append] at hq
    have hmo : isOut m = false := hrest m (by rw [← hq]; exact List.mem_cons_self ..)
    have hB : s.hub.prevHubBalance ≤ s.chain.bank hubA 0 := by simpa [hubOutAll] using hle
    have hB1 : s1.chain.bank hubA 0 ≥ s.chain.bank hubA 0 := by
      by_cases hsd : sender = hubA
      · have hfe : funds = [] := by
          subst heq
          simp only [isOut, hsd, beq_self_eq_true, Bool.true_and, Bool.not_eq_false'] at hmo
          simpa using hmo
        subst hfe
        simp only [Sys.moveFunds] at hmv
        injection hmv with hmv; subst hmv
        exact Nat.le_refl _
      · have := moveFunds_bank_in sender hubA hsd funds s s1 hmv 0
        omega
    refine ⟨hf, c7.1, c7.2, ?_⟩
    exact C01_funded_hub_step s.hub s'.hub s1.hubEnv sender funds hm subs inv.claims inv.legacy inv.funded
      (by show s.hub.prevHubBalance ≤ s1.chain.bank hubA 0; omega)
      (fun e hu => by subst e; exact hsafe sender funds s1 heq hmv hu) hx'

/-- a message that is not a WithdrawUnbonded needs no side condition -/
theorem SafeTop.of_noWd (s : Sys) (m : Msg) (h : isHubWd m = false) : SafeTop s m := by
  intro sender funds s1 heq _ _
  subst heq
  simp [isHubWd] at h

/-- **One transaction.** From a state in which released claims are funded and `prev_hub_balance`
    is in the hub's account, after any transaction not sent in the hub's name — with everything it
    triggers — released claims are still funded; only a top-level WithdrawUnbonded needs its release
    to meet the side condition, because no contract ever emits that message (`handle_noWd`). -/
theorem C01_funded_tx (s : Sys) (m : Msg) (inv : ClaimInv s.hub) (hl : s.hub.legacy = [])
    (hF : s.hub.Funded) (hB : s.hub.prevHubBalance ≤ s.chain.bank hubA 0)
    (hm : m.sentFrom ≠ hubA) (hsafe : SafeTop s m) : (s.exec m).1.hub.Funded := by
  unfold Sys.exec
  split
  · rename_i s' hrun
    have hno : isOut m = false := by cases m <;> simp_all [isOut, Msg.sentFrom]
    have inv0 : FundQ s [m] := ⟨⟨[], [m], rfl, (fun _ h => by cases h),
      (by intro x hx; simp at hx; subst hx; exact hno), by simpa [hubOutAll] using hB⟩, inv, hl, hF⟩
    -- the first message by hand, the rest by the queue invariant
    simp only [Sys.run] at hrun
    split at hrun
    · cases hrun
    · rename_i s1 subs h1
      have st1 := FundQ.step s s1 m [] subs inv0 hsafe h1
      have nw1 : ∀ x ∈ subs ++ [], isHubWd x = false := by
        intro x hx; rw [List.append_nil] at hx; exact handle_noWd s s1 m subs h1 x hx
      have fin := run_inv2 (fun a q => FundQ a q ∧ ∀ x ∈ q, isHubWd x = false)
        (fun a b r a' sb hp hxx => ⟨FundQ.step a a' b r sb hp.1
            (SafeTop.of_noWd a b (hp.2 b (List.mem_cons_self ..))) hxx, by
          intro x hx
          rcases List.mem_append.mp hx with h | h
          · exact handle_noWd a a' b sb hxx x h
          · exact hp.2 x (List.mem_cons_of_mem _ h)⟩)
        399 s1 (subs ++ []) s' ⟨st1, nw1⟩ hrun
      exact fin.1.funded
  · exact hF

/-- **Every reachable state: the hub's liquid balance covers the sum of all released claims.**
    From any state where that holds with consistent claim bookkeeping (the instantiated hub), after
    any history of any length — transactions not sent in the hub's name with everything they
    trigger, slashing, time, donations, failed transactions — the sum of all users' released,
    unpaid claims is at most `prev_hub_balance`, which is at most the hub's balance of the staking
    coin; provided every release performed by a top-level WithdrawUnbonded of the history meets the
    side condition (no loss on a token side, or batches · loss ≤ 10^18).  PARTIAL in exactly that
    proviso: D5 (`C01_release_group_counterexample`) shows it cannot be dropped. -/
theorem C01_funded_reachable (s : Sys) (l : List Step) (inv : ClaimInv s.hub) (hl : s.hub.legacy = [])
    (hF : s.hub.Funded) (hB : s.hub.prevHubBalance ≤ s.chain.bank hubA 0)
    (hq : ∀ m, Step.tx m ∈ l → m.sentFrom ≠ hubA)
    (hnl : ∀ u b a, Step.env (.seedLegacy u b a) ∉ l)
    (hsafe : ∀ pre m post, l = pre ++ Step.tx m :: post → SafeTop (s.steps pre) m) :
    (s.steps l).hub.owed ≤ (s.steps l).hub.prevHubBalance ∧
    (s.steps l).hub.prevHubBalance ≤ (s.steps l).chain.bank hubA 0 := by
  induction l generalizing s with
  | nil => exact ⟨hF, hB⟩
  | cons st rest ih =>
    show ((s.step st).steps rest).hub.owed ≤ _ ∧ _
    have hq1 : ∀ m, Step.tx m ∈ [st] → m.sentFrom ≠ hubA :=
      fun m hm => hq m (by simp at hm; rw [hm]; exact List.mem_cons_self ..)
    have hnl1 : ∀ u b a, Step.env (.seedLegacy u b a) ∉ [st] :=
      fun u b a hm => hnl u b a (by simp at hm; rw [hm]; exact List.mem_cons_self ..)
    have c7 := C07_reachable s [st] inv hl hnl1
    have c2 := C02_reserved s [st] hB hq1
    have f1 : (s.step st).hub.Funded := by
      cases st with
      | tx m =>
        exact C01_funded_tx s m inv hl hF hB (hq m (List.mem_cons_self ..)) (hsafe [] m rest rfl)
      | env e =>
        have hne : ∀ u b a, e ≠ .seedLegacy u b a := by
          intro u b a he; subst he; exact hnl u b a (List.mem_cons_self ..)
        have sc := env_same s e hne
        show (s.env e).hub.Funded
        rw [sc.hub]; exact hF
    exact ih (s.step st) c7.1 c7.2 f1 c2
      (fun m hm => hq m (List.mem_cons_of_mem _ hm))
      (fun u b a hm => hnl u b a (List.mem_cons_of_mem _ hm))
      (fun pre m post he => by
        have := hsafe (st :: pre) m post (by rw [he]; rfl)
        exact this)

/-! Non-vacuity of `C01_funded_reachable`: the genesis state. -/
example : genesisSys.hub.Funded ∧ genesisSys.hub.prevHubBalance ≤ genesisSys.chain.bank hubA 0 := by
  constructor
  · show genesisSys.hub.owed ≤ genesisSys.hub.prevHubBalance
    decide
  · decide


/-! #### histories without slashing of the unbonding stake: no side condition is needed

  `Lemmas/Arrive.lean` carries, from message to message and from block to block, that the hub's
  balance covers `prev_hub_balance`, the hub's pending outflows and the coins undelegated for
  every matured, unreleased batch (`ArriveQ`), using the shape of the batch history (`HistInv`,
  `Lemmas/Shape.lean`).  At a WithdrawUnbonded this gives "at least the undelegated coins
  arrived", hence `GroupSafe` by `C01_unslashed_arrival_is_safe`. -/

/-- E2 and E1 at a top-level WithdrawUnbonded: the hub's unbonding period is the chain's unbonding
    time, and the coins that arrived since the last withdrawal are within the envelope 10^18 -/
def WdOk (s : Sys) (m : Msg) : Prop :=
  ∀ sender funds s1, m = .wasm sender hubA (.hub .withdrawUnbonded) funds →
    s.moveFunds sender hubA funds = .ok s1 →
    s.hub.unbonding = s.chain.unbondingTime ∧ s1.chain.bank hubA 0 - s.hub.prevHubBalance ≤ D

/-- the value of the batches a release processes = what `process_withdraw_rate` calls the totals -/
private theorem relIds_total (h : HubSt) (ids : List Nat) :
    sideTotal (h.pairsS ids) + sideTotal (h.pairsB ids) = (ids.map (fun i => batchU (h.histOr i))).sum := by
  rw [sideTotal_pairsS, sideTotal_pairsB]
  unfold batchU
  rw [sum_map_add]

/-- with the arrivals accounted for (`ArriveQ`), the release a top-level WithdrawUnbonded performs
    meets the side condition -/
theorem SafeTop.of_arrive (s : Sys) (m : Msg) (rest : List Msg) (ha : ArriveQ s (m :: rest))
    (hi : HistInv s.hub) (hok : WdOk s m) (hm : m.sentFrom ≠ hubA) : SafeTop s m := by
  intro sender funds s1 heq hmv hunb
  obtain ⟨he2, he1⟩ := hok sender funds s1 heq hmv
  obtain ⟨A, rst, hq, hA, _, hle⟩ := ha.split
  have hAnil : A = [] := by
    cases A with
    | nil => rfl
    | cons p A' =>
      simp only [List.cons_append] at hq
      injection hq with e1 _
      have := hA p (List.mem_cons_self ..)
      rw [← e1, heq] at this
      simp [isLeaf] at this
  subst hAnil
  have hB : s.hub.prevHubBalance + maturedSum s.hub s.chain.unbondingTime s.chain.time ≤ s.chain.bank hubA 0 := by
    simpa [hubOutAll] using hle
  have r1 := moveFunds_rest sender hubA funds s s1 hmv
  have hsd : sender ≠ hubA := by rw [heq] at hm; exact hm
  have hB1 := moveFunds_bank_in sender hubA hsd funds s s1 hmv 0
  apply C01_unslashed_arrival_is_safe _ _ _ ?_ he1
  rw [relIds_total]
  -- every batch the release processes has matured by the chain's clock
  have hsub : ((s.hub.relIds (s1.chain.time - s.hub.unbonding)).map (fun i => batchU (s.hub.histOr i))).sum ≤
      maturedSum s.hub s.chain.unbondingTime s.chain.time := by
    unfold maturedSum
    apply sum_le_of_nodup_subset
    · exact releasable_nodup _ _ _ _
    · intro i hi'
      obtain ⟨x, hx, hr, ht⟩ := releasable_mem s.hub _ _ _ i hi'
      unfold maturedIds
      apply List.mem_filter.mpr
      refine ⟨List.mem_range.mpr ((hi.dom i).mp (by rw [hx]; simp)).2, ?_⟩
      unfold isMatured
      simp only [hx, hr, Bool.not_false, Bool.true_and, decide_eq_true_eq]
      rw [r1.1] at ht hunb
      omega
  omega

/-- carried from message to message inside a transaction -/
structure FullQ (s : Sys) (q : List Msg) : Prop where
  fund : FundQ s q
  hist : HistInv s.hub
  arr : ArriveQ s q

theorem FullQ.step (s s' : Sys) (m : Msg) (rest subs : List Msg) (inv : FullQ s (m :: rest))
    (hsafe : SafeTop s m)
    (he2 : ∀ sender funds, m = .wasm sender hubA (.hub .withdrawUnbonded) funds → s.hub.unbonding = s.chain.unbondingTime)
    (hx : s.handle m = .ok (s', subs)) : FullQ s' (subs ++ rest) := by
  refine ⟨FundQ.step s s' m rest subs inv.fund hsafe hx, ?_,
    ArriveQ.step s s' m rest subs inv.arr inv.hist inv.fund.legacy he2 hx⟩
  cases handle_touch s s' m subs hx with
  | none h _ _ _ => rw [h.hub]; exact inv.hist
  | bsei s1 sender funds tm _ _ hx' h t r d g => rw [h]; exact inv.hist
  | stsei blk sender funds tm _ hx' h b r d g => rw [h]; exact inv.hist
  | reward s1 sender funds rm _ _ _ _ hx' h b t d g => rw [h]; exact inv.hist
  | disp env sender funds dm _ _ _ hx' h b t r g => rw [h]; exact inv.hist
  | reg s1 sender funds rm _ h1 _ _ hx' h b t r d => rw [h]; exact inv.hist
  | hub s1 sender funds hm heq h1 hmv hc hx' b t r d g =>
    exact HistInv.hub_step _ _ _ _ _ _ _ inv.hist inv.fund.legacy hx'

/-- a top-level message not sent in the hub's name joins an empty queue -/
theorem FullQ.push (s : Sys) (m : Msg) (inv : FullQ s []) (hm : m.sentFrom ≠ hubA) : FullQ s [m] := by
  have hno : isOut m = false := by cases m <;> simp_all [isOut, Msg.sentFrom]
  obtain ⟨A, rst, hq, _, _, hle⟩ := inv.fund.fund.split
  have hA : A = [] := by
    cases A with
    | nil => rfl
    | cons p t => simp only [List.cons_append] at hq; cases hq
  subst hA
  obtain ⟨A2, rst2, hq2, _, _, hle2⟩ := inv.arr.split
  have hA2 : A2 = [] := by
    cases A2 with
    | nil => rfl
    | cons p t => simp only [List.cons_append] at hq2; cases hq2
  subst hA2
  refine ⟨⟨⟨[], [m], rfl, (fun _ h => by cases h), (by intro x hx; simp at hx; subst hx; exact hno), hle⟩,
      inv.fund.claims, inv.fund.legacy, inv.fund.funded⟩, inv.hist,
    ⟨inv.arr.ubpos, inv.arr.fresh, inv.arr.lastUnb, ?_,
      ⟨[], [m], rfl, (fun _ h => by cases h), (by intro x hx; simp at hx; subst hx; exact hno), hle2⟩⟩⟩
  intro i x hx hr hlt
  have c := inv.arr.cover i x hx hr hlt
  simp only [undelegatedBy] at c
  split at c <;> split <;> omega

/-- **One transaction, no side condition.** From a state in which released claims are funded, the
    batch history has its shape and the arrivals are accounted for, any transaction not sent in the
    hub's name — with everything it triggers — leaves such a state; a top-level WithdrawUnbonded
    only needs E2 and E1 (`WdOk`), not a side condition on its release. -/
theorem C01_full_tx (s : Sys) (m : Msg) (inv : FullQ s []) (hm : m.sentFrom ≠ hubA) (hok : WdOk s m) :
    FullQ (s.exec m).1 [] := by
  unfold Sys.exec
  split
  · rename_i s' hrun
    have inv1 := FullQ.push s m inv hm
    simp only [Sys.run] at hrun
    split at hrun
    · cases hrun
    · rename_i s1 subs h1
      have hsafe := SafeTop.of_arrive s m [] inv1.arr inv1.hist hok hm
      have he2 : ∀ sender funds, m = .wasm sender hubA (.hub .withdrawUnbonded) funds →
          s.hub.unbonding = s.chain.unbondingTime := by
        intro sender funds heq
        obtain ⟨s0, hmv, _⟩ := handle_wasm_chain_eq s s1 sender hubA _ funds subs (heq ▸ h1)
        exact (hok sender funds s0 heq hmv).1
      have st1 := FullQ.step s s1 m [] subs inv1 hsafe he2 h1
      have nw1 : ∀ x ∈ subs ++ [], isHubWd x = false := by
        intro x hx; rw [List.append_nil] at hx; exact handle_noWd s s1 m subs h1 x hx
      have fin := run_inv2 (fun a q => FullQ a q ∧ ∀ x ∈ q, isHubWd x = false)
        (fun a b r a' sb hp hxx => ⟨FullQ.step a a' b r sb hp.1
            (SafeTop.of_noWd a b (hp.2 b (List.mem_cons_self ..)))
            (fun sender funds heq => by
              have := hp.2 b (List.mem_cons_self ..)
              rw [heq] at this
              simp [isHubWd] at this) hxx, by
          intro x hx
          rcases List.mem_append.mp hx with h | h
          · exact handle_noWd a a' b sb hxx x h
          · exact hp.2 x (List.mem_cons_of_mem _ h)⟩)
        399 s1 (subs ++ []) s' ⟨st1, nw1⟩ hrun
      exact fin.1
  · exact inv

/-- **Every reachable state, histories without slashing of the unbonding stake: the hub's liquid
    balance covers the sum of all released claims and, on top of them, the coins of every matured
    batch not yet released.** From a state where that holds (the instantiated hub), after any
    history of any length — transactions not sent in the hub's name with everything they trigger,
    validator slashing, time, donations, rewards, failed transactions — in which the unbonding stake
    is not slashed and every top-level WithdrawUnbonded finds E2 and E1 in force (`WdOk`):
    Σ released claims ≤ `prev_hub_balance`, and
    `prev_hub_balance` + Σ coins undelegated for matured unreleased batches ≤ the hub's balance.
    No side condition on the releases is needed: they are shown to meet it. -/
theorem C01_funded_reachable_unslashed (s : Sys) (l : List Step) (inv : FullQ s [])
    (hq : ∀ m, Step.tx m ∈ l → m.sentFrom ≠ hubA)
    (hnl : ∀ u b a, Step.env (.seedLegacy u b a) ∉ l)
    (hns : ∀ v n d, Step.env (.slashUnbonding v n d) ∉ l)
    (hok : ∀ pre m post, l = pre ++ Step.tx m :: post → WdOk (s.steps pre) m) :
    (s.steps l).hub.owed ≤ (s.steps l).hub.prevHubBalance ∧
    (s.steps l).hub.prevHubBalance +
      maturedSum (s.steps l).hub (s.steps l).chain.unbondingTime (s.steps l).chain.time ≤
      (s.steps l).chain.bank hubA 0 := by
  suffices h : FullQ (s.steps l) [] by
    obtain ⟨A, rst, hq', _, _, hle⟩ := h.arr.split
    have hA : A = [] := by
      cases A with
      | nil => rfl
      | cons p t => simp only [List.cons_append] at hq'; cases hq'
    subst hA
    exact ⟨h.fund.funded, by simpa [hubOutAll] using hle⟩
  induction l generalizing s with
  | nil => exact inv
  | cons st rest ih =>
    show FullQ ((s.step st).steps rest) []
    apply ih
    · cases st with
      | tx m =>
        exact C01_full_tx s m inv (hq m (List.mem_cons_self ..)) (hok [] m rest rfl)
      | env e =>
        have hne : ∀ u b a, e ≠ .seedLegacy u b a := by
          intro u b a he; subst he; exact hnl u b a (List.mem_cons_self ..)
        have hnse : ∀ v n d, e ≠ .slashUnbonding v n d := by
          intro v n d he; subst he; exact hns v n d (List.mem_cons_self ..)
        have sc := env_same s e hne
        have ha := ArriveQ.env s e inv.arr inv.hist hnse hne
        have hB : (s.env e).hub.prevHubBalance ≤ (s.env e).chain.bank hubA 0 := by
          obtain ⟨A, rst, hq', _, _, hle⟩ := ha.split
          have hA : A = [] := by
            cases A with
            | nil => rfl
            | cons p t => simp only [List.cons_append] at hq'; cases hq'
          subst hA
          have : (s.env e).hub.prevHubBalance + maturedSum (s.env e).hub (s.env e).chain.unbondingTime (s.env e).chain.time ≤
              (s.env e).chain.bank hubA 0 := by simpa [hubOutAll] using hle
          omega
        show FullQ (s.env e) []
        refine ⟨⟨⟨[], [], rfl, (fun _ h => by cases h), (fun _ h => by cases h), by simpa [hubOutAll] using hB⟩,
          by rw [sc.hub]; exact inv.fund.claims, by rw [sc.hub]; exact inv.fund.legacy,
          by rw [sc.hub]; exact inv.fund.funded⟩, by rw [sc.hub]; exact inv.hist, ha⟩
    · exact fun m hm => hq m (List.mem_cons_of_mem _ hm)
    · exact fun u b a hm => hnl u b a (List.mem_cons_of_mem _ hm)
    · exact fun v n d hm => hns v n d (List.mem_cons_of_mem _ hm)
    · intro pre m post he
      exact hok (st :: pre) m post (by rw [he]; rfl)


/-! Non-vacuity of `C01_funded_reachable_unslashed`: the genesis state on a chain whose unbonding
    time equals the hub's unbonding period (E2). -/
def genesisE2 : Sys := { genesisSys with chain := { genesisSys.chain with unbondingTime := 100 } }

example : FullQ genesisE2 [] := by
  have hc : ClaimInv genesisE2.hub :=
    ClaimInv.of_same (h := (hubInit 1 0 30 100 0 D 1 3).toOption.getD default) ⟨rfl, rfl, rfl, rfl, rfl, rfl, rfl⟩
      (C07_init 1 0 30 100 0 D 1 3 _ rfl)
  have hh : HistInv genesisE2.hub :=
    (HistInv.init 1 0 30 100 0 D 1 3 _ rfl).of_same (h := (hubInit 1 0 30 100 0 D 1 3).toOption.getD default)
      rfl rfl rfl rfl
  have hm : maturedSum genesisE2.hub genesisE2.chain.unbondingTime genesisE2.chain.time = 0 := by decide
  refine ⟨⟨⟨[], [], rfl, (fun _ h => by cases h), (fun _ h => by cases h), by decide⟩, hc, rfl, ?_⟩, hh,
    ⟨by decide, (fun e he => by cases he), by decide, ?_,
      ⟨[], [], rfl, (fun _ h => by cases h), (fun _ h => by cases h), by rw [hm]; decide⟩⟩⟩
  · show genesisE2.hub.owed ≤ genesisE2.hub.prevHubBalance
    decide
  · intro i x hx
    have : genesisE2.hub.hist i = none := rfl
    rw [this] at hx; cases hx

end Krp
