/-
  C11 — Pause blocks every state-changing path except the owner's unpause.
-/
import Krp.Props.C10
import Krp.Lemmas.Reach
namespace Krp
open HubSt

/-- While paused, every hub message other than UpdateParams and the wait-list migration fails, for
    every sender, payload and funds (no storage change, no outgoing message: A-CHAIN-1). -/
theorem C11_paused_blocks (h : HubSt) (e : HubEnv) (sender : Addr) (funds : List (Denom × Nat))
    (m : HubMsg) (hp : h.isPaused = true)
    (hm : (∀ a b c d p r, m ≠ .updateParams a b c d p r) ∧ (∀ l, m ≠ .migrateWaitList l)) :
    isErr (hubExec h e sender funds m) := by
  cases m with
  | updateParams a b c d p r => exact absurd rfl (hm.1 a b c d p r)
  | migrateWaitList l => exact absurd rfl (hm.2 l)
  | _ => simp only [hubExec, hp, if_true]; exact ⟨_, rfl⟩

/-- While paused UpdateParams is still owner-only, and the migration changes no pool, batch,
    history, parameter or configuration — only wait-list entries (and the pause flag once done). -/
theorem C11_paused_exceptions (h : HubSt) (e : HubEnv) (sender : Addr) (funds : List (Denom × Nat)) :
    (∀ a b c d p r, sender ≠ h.creator → isErr (hubExec h e sender funds (.updateParams a b c d p r))) ∧
    (∀ l h' ms, hubExec h e sender funds (.migrateWaitList l) = .ok (h', ms) →
      h.isPaused = true ∧ ms = [] ∧ SameConfig h h' ∧ h'.bBond = h.bBond ∧ h'.sBond = h.sBond ∧
      h'.batchId = h.batchId ∧ h'.reqB = h.reqB ∧ h'.reqS = h.reqS ∧ h'.hist = h.hist ∧
      h'.prevHubBalance = h.prevHubBalance ∧ h'.fee = h.fee ∧ h'.thr = h.thr) := by
  constructor
  · intro a b c d p r hne
    exact C10_hub h e sender funds _ (by simpa [hubPrincipalOk] using hne)
  · intro l h' ms hx
    simp only [hubExec] at hx
    split at hx
    · rename_i hp
      injection hx with hx; injection hx with h1 h2; subst h1; subst h2
      have f := migrate_frame h l
      refine ⟨hp, rfl, f.1, ?_, ?_, ?_, ?_, ?_, ?_, ?_, f.2.1, f.2.2.1⟩
      all_goals
        unfold migrate
        simp only []
        split
        · rfl
        · have key : ∀ (xs : List (Addr × Nat × Nat)) (g : HubSt),
              (xs.foldl migrateOne g).bBond = g.bBond ∧ (xs.foldl migrateOne g).sBond = g.sBond ∧
              (xs.foldl migrateOne g).batchId = g.batchId ∧ (xs.foldl migrateOne g).reqB = g.reqB ∧
              (xs.foldl migrateOne g).reqS = g.reqS ∧ (xs.foldl migrateOne g).hist = g.hist ∧
              (xs.foldl migrateOne g).prevHubBalance = g.prevHubBalance := by
            intro xs
            induction xs with
            | nil => intro g; exact ⟨rfl, rfl, rfl, rfl, rfl, rfl, rfl⟩
            | cons x xs ih => intro g; simp only [List.foldl_cons]; exact ih (migrateOne g x)
          have k := key (h.legacy.take (l.getD 1000)) h
          first | exact k.1 | exact k.2.1 | exact k.2.2.1 | exact k.2.2.2.1 | exact k.2.2.2.2.1
                | exact k.2.2.2.2.2.1 | exact k.2.2.2.2.2.2
    · cases hx

/-- The hub cannot be un-paused while legacy wait-list entries remain: an UpdateParams that would
    leave `paused` false (or unset) fails, and the migration clears the flag only when none remain. -/
theorem C11_no_unpause_with_legacy (h : HubSt) (e : HubEnv) (sender : Addr) (funds : List (Denom × Nat))
    (hl : h.legacy ≠ []) :
    (∀ a b c d p r, p ≠ some true → isErr (hubExec h e sender funds (.updateParams a b c d p r))) ∧
    (∀ l, (h.migrate l).legacy ≠ [] → (h.migrate l).paused = h.paused) := by
  constructor
  · intro a b c d p r hp
    have herr : isErr (h.updateParams sender a b c d p r) := by
      unfold updateParams
      simp only [bind, Except.bind, throw, throwThe, MonadExceptOf.throw, pure, Except.pure]
      by_cases hs : sender ≠ h.creator
      · rw [if_pos hs]; exact ⟨_, rfl⟩
      · rw [if_neg hs]
        cases c with
        | none => simp only []; rw [if_pos (And.intro hp hl)]; exact ⟨_, rfl⟩
        | some f =>
          simp only []
          by_cases hf : f > D
          · rw [if_pos hf]; exact ⟨_, rfl⟩
          · rw [if_neg hf, if_pos (And.intro hp hl)]; exact ⟨_, rfl⟩
    obtain ⟨er, he⟩ := herr
    simp only [hubExec, bind, Except.bind, he]
    exact ⟨_, rfl⟩
  · intro l hrest
    have := (migrate_frame h l).2.2.2.2.2.2
    rcases this with hp | hd
    · exact hp
    · exact absurd hd hrest

/-- Pause then un-pause restores exactly the pre-pause state: every pool, rate, batch, claim,
    history entry, parameter and address is what it was; only the flag's representation may differ
    (`Some(false)` instead of whatever it was). Needs the threshold in range (C20). -/
theorem C11_pause_unpause_identity (h h1 h2 : HubSt) (hthr : h.thr ≤ D)
    (hp : h.updateParams h.creator none none none none (some true) none = .ok h1)
    (hu : h1.updateParams h1.creator none none none none (some false) none = .ok h2) :
    h2 = { h with paused := some false } := by
  unfold updateParams at hp hu
  exc_norm at hp; exc_split at hp
  exc_norm at hu; exc_split at hu
  simp only [Nat.min_eq_left hthr, Option.getD]

/-! Non-vacuity. -/
example : ∃ h : HubSt, h.isPaused = true :=
  ⟨{ (default : HubSt) with paused := some true }, rfl⟩

/-! ### Queries keep working

  The State query (`query_actual_state`: pools as the chain's delegations define them, rates
  re-derived) does not read a single parameter: on a hub whose parameters — pause flag included —
  were rewritten it gives the answer it gave before, with the new parameters alongside. -/

/-- the fields an UpdateParams writes -/
def setParams (h : HubSt) (ep ub fee thr : Nat) (rd : Denom) (p : Option Bool) : HubSt :=
  { h with epoch := ep, unbonding := ub, fee := fee, thr := thr, rewardDenom := rd, paused := p }

theorem C11_state_query_ignores_params (h : HubSt) (e : HubEnv) (ep ub fee thr : Nat) (rd : Denom) (p : Option Bool) :
    (setParams h ep ub fee thr rd p).actualState e =
      match h.actualState e with
      | .ok st => .ok (setParams st ep ub fee thr rd p)
      | .error err => .error err := by
  unfold actualState
  have hb : (setParams h ep ub fee thr rd p).bSupplyQ e = h.bSupplyQ e := rfl
  have hs : (setParams h ep ub fee thr rd p).sSupplyQ e = h.sSupplyQ e := rfl
  by_cases h1 : e.delegations = []
  · simp only [h1, if_true]
  · simp only [h1, if_false]
    have e1 : (setParams h ep ub fee thr rd p).bBond = h.bBond := rfl
    have e2 : (setParams h ep ub fee thr rd p).sBond = h.sBond := rfl
    have e3 : (setParams h ep ub fee thr rd p).reqB = h.reqB := rfl
    have e4 : (setParams h ep ub fee thr rd p).reqS = h.reqS := rfl
    rw [e1, e2, hb, hs]
    by_cases h2 : h.bBond + h.sBond = 0
    · simp only [h2, if_true]
    · simp only [h2, if_false, bind, Except.bind]
      cases h.bSupplyQ e with
      | error err => rfl
      | ok bs =>
        cases h.sSupplyQ e with
        | error err => rfl
        | ok ss =>
          simp only [e3, e4]
          split
          · split
            · rfl
            · rfl
          · rfl

/-- The owner pauses (or re-parameterises) the hub: whatever the State query answered before, it
    answers afterwards — same pools, same rates, same batch bookkeeping — and it fails afterwards
    only if it failed before. -/
theorem C11_pause_keeps_state_query (h h' : HubSt) (e : HubEnv) (sender : Addr)
    (ep ub fee thr : Option Nat) (p : Option Bool) (rd : Option Denom)
    (hx : h.updateParams sender ep ub fee thr p rd = .ok h') :
    (∀ st, h.actualState e = .ok st → ∃ st', h'.actualState e = .ok st' ∧
        st'.bRate = st.bRate ∧ st'.sRate = st.sRate ∧ st'.bBond = st.bBond ∧ st'.sBond = st.sBond ∧
        st'.reqB = st.reqB ∧ st'.reqS = st.reqS ∧ st'.prevHubBalance = st.prevHubBalance ∧
        st'.lastProcessedBatch = st.lastProcessedBatch ∧ st'.lastUnbondedTime = st.lastUnbondedTime ∧
        st'.lastIndexMod = st.lastIndexMod) ∧
    (∀ err, h'.actualState e = .error err → h.actualState e = .error err) := by
  have hh : h' = setParams h (ep.getD h.epoch) (ub.getD h.unbonding) (fee.getD h.fee) (min (thr.getD h.thr) D)
      (rd.getD h.rewardDenom) p := by
    unfold updateParams at hx
    exc_norm at hx; exc_split at hx
    all_goals rfl
  subst hh
  rw [C11_state_query_ignores_params]
  constructor
  · intro st hst
    rw [hst]
    exact ⟨_, rfl, rfl, rfl, rfl, rfl, rfl, rfl, rfl, rfl, rfl, rfl⟩
  · intro err
    cases h.actualState e with
    | ok st => intro hc; cases hc
    | error e0 => intro hc; injection hc with hc; rw [hc]

/-! Non-vacuity: a hub with stake and delegations answers the State query, paused or not. -/
example : ∃ st, ({ (default : HubSt) with bBond := 5, bsei := some 101, stsei := some 102, paused := some true }).actualState
    { self := 100, now := 0, hubBalance := 0, delegations := [(201, 5)], supplyOf := fun _ => .ok 5,
      validatorsOf := fun _ => .ok [] } = .ok st := ⟨_, rfl⟩

/-- As a whole transaction: while the hub is paused, a top-level hub message other than UpdateParams /
    MigrateUnbondWaitList — from anyone, with or without funds — fails and changes nothing anywhere. -/
theorem C11_system_paused (s : Sys) (sender : Addr) (funds : List (Denom × Nat)) (hm : HubMsg)
    (hp : s.hub.isPaused = true)
    (hne : (∀ a b c d p r, hm ≠ .updateParams a b c d p r) ∧ (∀ l, hm ≠ .migrateWaitList l)) :
    ∃ err, s.exec (.wasm sender hubA (.hub hm) funds) = (s, .error err) :=
  exec_rejected_hub s sender funds hm (fun e _ => C11_paused_blocks s.hub e sender funds hm hp hne)

end Krp
