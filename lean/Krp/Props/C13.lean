/-
  C13 — Removing a validator moves its whole stake to the remaining ones.
-/
import Krp.Props.C02
import Krp.System
import Krp.Lemmas.PlainMsgs
import Krp.Lemmas.Wiring
namespace Krp
open HubSt

private theorem mem_insAscAmt (x y : Addr × Nat) (l : List (Addr × Nat)) :
    y ∈ Sys.insAscAmt x l ↔ y = x ∨ y ∈ l := by
  induction l with
  | nil => simp [Sys.insAscAmt]
  | cons z zs ih =>
    simp only [Sys.insAscAmt]
    split
    · simp
    · simp only [List.mem_cons, ih]
      constructor
      · rintro (h | h | h) <;> simp [h]
      · rintro (h | h | h) <;> simp [h]

private theorem mem_sortAscAmt (y : Addr × Nat) (l : List (Addr × Nat)) :
    y ∈ Sys.sortAscAmt l ↔ y ∈ l := by
  induction l with
  | nil => simp [Sys.sortAscAmt]
  | cons z zs ih =>
    simp only [Sys.sortAscAmt, List.foldr_cons] at ih ⊢
    rw [mem_insAscAmt, ih]; simp

private theorem length_insAscAmt (x : Addr × Nat) (l : List (Addr × Nat)) :
    (Sys.insAscAmt x l).length = l.length + 1 := by
  induction l with
  | nil => simp [Sys.insAscAmt]
  | cons z zs ih =>
    simp only [Sys.insAscAmt]
    split
    · simp
    · simp [ih]

private theorem length_sortAscAmt (l : List (Addr × Nat)) : (Sys.sortAscAmt l).length = l.length := by
  induction l with
  | nil => simp [Sys.sortAscAmt]
  | cons z zs ih =>
    simp only [Sys.sortAscAmt, List.foldr_cons] at ih ⊢
    rw [length_insAscAmt, ih]; simp

private theorem sum_insAscAmt (x : Addr × Nat) (l : List (Addr × Nat)) :
    ((Sys.insAscAmt x l).map (·.2)).sum = x.2 + (l.map (·.2)).sum := by
  induction l with
  | nil => simp [Sys.insAscAmt]
  | cons z zs ih =>
    simp only [Sys.insAscAmt]
    split
    · simp
    · simp only [List.map_cons, List.sum_cons, ih]; omega

private theorem sum_sortAscAmt (l : List (Addr × Nat)) :
    ((Sys.sortAscAmt l).map (·.2)).sum = (l.map (·.2)).sum := by
  induction l with
  | nil => simp [Sys.sortAscAmt]
  | cons z zs ih =>
    simp only [Sys.sortAscAmt, List.foldr_cons] at ih ⊢
    rw [sum_insAscAmt, ih]; simp

/-- **The list the registry answers is the registry.** `GetValidatorsForDelegation` — what the hub
    distributes every bond over, and what a removal redelegates to — lists exactly the validators
    the registry stores, once each entry: a validator is on the list iff it is registered (whatever
    delegations the hub holds elsewhere, e.g. on a validator removed while its redelegation was
    blocked), and the amount shown for it is the hub's delegation to it. -/
theorem C13_list_query_lists_exactly_registered (s : Sys) (l : List (Addr × Nat))
    (hq : s.validatorsOf regA = .ok l) :
    (∀ v, v ∈ l.map (·.1) ↔ v ∈ s.reg.vals) ∧ l.length = s.reg.vals.length ∧
    (∀ y ∈ l, y.2 = (((s.delegationsOf s.reg.hub).find? (fun d => d.1 = y.1)).map (·.2)).getD 0) := by
  simp only [Sys.validatorsOf, if_true] at hq
  injection hq with hq; subst hq
  refine ⟨fun v => ?_, ?_, fun y hy => ?_⟩
  · simp only [List.mem_map]
    constructor
    · rintro ⟨y, hy, rfl⟩
      rw [mem_sortAscAmt] at hy
      simp only [Sys.regValidatorsRaw, List.mem_map] at hy
      obtain ⟨w, hw, rfl⟩ := hy
      exact hw
    · intro hv
      exact ⟨(v, _), (mem_sortAscAmt _ _).mpr (by
        simp only [Sys.regValidatorsRaw, List.mem_map]; exact ⟨v, hv, rfl⟩), rfl⟩
  · rw [length_sortAscAmt]; simp [Sys.regValidatorsRaw]
  · rw [mem_sortAscAmt] at hy
    simp only [Sys.regValidatorsRaw, List.mem_map] at hy
    obtain ⟨w, _, rfl⟩ := hy
    rfl

private theorem plan_targets (vs : List (Addr × Nat)) (p : List Nat) (t : Addr × Nat)
    (ht : t ∈ (vs.zip p).filterMap (fun x => if x.2 = 0 then none else some (x.1.1, x.2))) :
    t.1 ∈ vs.map (·.1) ∧ 0 < t.2 := by
  simp only [List.mem_filterMap] at ht
  obtain ⟨x, hx, he⟩ := ht
  split at he
  · cases he
  · rename_i hne
    injection he with he; subst he
    have := List.of_mem_zip hx
    exact ⟨List.mem_map.mpr ⟨x.1, this.1, rfl⟩, Nat.pos_of_ne_zero hne⟩

private theorem plan_sum (vs : List (Addr × Nat)) (p : List Nat) (hl : p.length = vs.length) :
    (((vs.zip p).filterMap (fun x => if x.2 = 0 then none else some (x.1.1, x.2))).map (·.2)).sum = p.sum := by
  induction vs generalizing p with
  | nil => cases p <;> simp_all
  | cons v vs ih =>
    cases p with
    | nil => simp at hl
    | cons q qs =>
      have := ih qs (by simpa using hl)
      simp only [List.zip_cons_cons, List.filterMap_cons, List.sum_cons]
      by_cases hq : q = 0
      · simp only [hq, if_true, this]; omega
      · simp only [hq, if_false, List.map_cons, List.sum_cons, this]

/-- A successful RemoveValidator: only the owner; the address leaves the registry; the registry
    never becomes empty; and — when the hub has a delegation there that the chain allows to move —
    the registry asks the hub to redelegate exactly the whole delegation, split over validators that
    are still registered, in positive amounts, followed by an index update. -/
theorem C13_remove_validator (s : Sys) (sender v : Addr) (r' : RegSt) (ms : List Msg)
    (hx : s.regExec sender (.remove v) = .ok (r', ms)) :
    sender = s.reg.owner ∧ r'.vals = s.reg.vals.filter (· ≠ v) ∧ v ∉ r'.vals ∧ r'.vals ≠ [] ∧
    (ms = [] ∨ ∃ plan, ms = [Msg.wasm regA s.reg.hub (.hub (.redelegateProxy v plan)) [],
                              Msg.wasm regA s.reg.hub (.hub .updateGlobalIndex) []] ∧
        (plan.map (·.2)).sum = s.chain.deleg v ∧ s.reg.hub = hubA ∧ s.chain.delegSet v = true ∧
        ∀ t ∈ plan, t.1 ∈ r'.vals ∧ 0 < t.2) := by
  simp only [Sys.regExec] at hx
  exc_norm at hx
  split at hx
  · cases hx
  · rename_i hs
    split at hx
    · cases hx
    · rename_i hne
      split at hx
      · cases hx
      · rename_i msgs hm
        injection hx with hx; injection hx with h1 h2; subst h1; subst h2
        refine ⟨Classical.not_not.mp hs, rfl, by simp, hne, ?_⟩
        by_cases hset : s.reg.hub = hubA ∧ s.chain.delegSet v = true
        · have hh : s.reg.hub = hubA := hset.1
          simp only [hset, and_self, decide_true, Bool.not_true, Bool.false_eq_true, if_false, hh, if_true] at hm
          by_cases hnr : s.chain.noRedelegate v = true ∧ 0 < s.chain.deleg v
          · rw [if_pos hnr] at hm; injection hm with hm; left; exact hm.symm
          · rw [if_neg hnr] at hm
            split at hm
            · cases hm
            · rename_i p hp
              injection hm with hm
              right
              have hc := C12_deleg_conserves _ _ p.1 p.2 (by rw [hp])
              refine ⟨_, by rw [hh]; exact hm.symm, ?_, hset.1, hset.2, ?_⟩
              · rw [plan_sum _ _ (by simpa using hc.2.2), hc.2.1]
              · intro t ht
                have := plan_targets _ _ t ht
                refine ⟨?_, this.2⟩
                obtain ⟨y, hy, hy1⟩ := List.mem_map.mp this.1
                rw [mem_sortAscAmt] at hy
                simp only [Sys.regValidatorsRaw, List.mem_map] at hy
                obtain ⟨w, hw, hwe⟩ := hy
                rw [← hy1, ← hwe]; exact hw
        · have : (!decide (s.reg.hub = hubA ∧ s.chain.delegSet v = true)) = true := by simp [hset]
          rw [if_pos this] at hm
          injection hm with hm; left; exact hm.symm

private theorem plan_index (vs : List (Addr × Nat)) (p : List Nat) (t : Addr × Nat)
    (ht : t ∈ (vs.zip p).filterMap (fun x => if x.2 = 0 then none else some (x.1.1, x.2))) :
    ∃ j, nth p j = t.2 ∧ ∃ y ∈ vs, y.1 = t.1 ∧ nth (vs.map (·.2)) j = y.2 := by
  induction vs generalizing p with
  | nil => simp at ht
  | cons v vs ih =>
    cases p with
    | nil => simp at ht
    | cons a as =>
      simp only [List.zip_cons_cons, List.filterMap_cons] at ht
      split at ht
      · rename_i hnone
        obtain ⟨j, h1, y, hy, h2, h3⟩ := ih as ht
        exact ⟨j + 1, by simpa [nth] using h1, y, List.mem_cons_of_mem _ hy, h2, by simpa [nth] using h3⟩
      · rename_i b hsome
        rcases List.mem_cons.mp ht with hh | hh
        · split at hsome
          · cases hsome
          · injection hsome with hsome
            subst hh; subst hsome
            exact ⟨0, by simp [nth], v, List.mem_cons_self .., rfl, by simp [nth]⟩
        · obtain ⟨j, h1, y, hy, h2, h3⟩ := ih as hh
          exact ⟨j + 1, by simpa [nth] using h1, y, List.mem_cons_of_mem _ hy, h2, by simpa [nth] using h3⟩

/-- **A follow-up Redelegations** (public; for stake a removal had to leave behind): refused for a
    registered validator; otherwise the registry state is untouched and — when the hub has a
    delegation there that the chain allows to move — the registry asks the hub to redelegate exactly
    the whole delegation *first* and to update the index *second*, the plan going in positive
    amounts to registered validators and lifting none of them above the even share (rounded up) of
    what the registered validators hold plus the stake moved (C12). -/
theorem C13_redelegations (s : Sys) (sender v : Addr) (r' : RegSt) (ms : List Msg)
    (hx : s.regExec sender (.redelegations v) = .ok (r', ms)) :
    s.reg.vals.contains v = false ∧ r' = s.reg ∧
    (ms = [] ∨ ∃ plan, ms = [Msg.wasm regA s.reg.hub (.hub (.redelegateProxy v plan)) [],
                              Msg.wasm regA s.reg.hub (.hub .updateGlobalIndex) []] ∧
        (plan.map (·.2)).sum = s.chain.deleg v ∧ s.reg.hub = hubA ∧ s.chain.delegSet v = true ∧
        ∀ t ∈ plan, t.1 ∈ s.reg.vals ∧ 0 < t.2 ∧
          ∃ held, (t.1, held) ∈ s.regValidatorsRaw ∧
            held + t.2 ≤ ((s.regValidatorsRaw.map (·.2)).sum + s.chain.deleg v + s.reg.vals.length - 1) / s.reg.vals.length) := by
  simp only [Sys.regExec] at hx
  exc_norm at hx
  split at hx
  · cases hx
  · rename_i hc
    split at hx
    · cases hx
    · rename_i msgs hm
      injection hx with hx; injection hx with h1 h2; subst h1; subst h2
      have same : ({ s with reg := { s.reg with vals := s.reg.vals } } : Sys) = s := by cases s; rfl
      rw [same] at hm
      refine ⟨by simpa using hc, rfl, ?_⟩
      by_cases hset : s.reg.hub = hubA ∧ s.chain.delegSet v = true
      · have hh : s.reg.hub = hubA := hset.1
        simp only [hset, and_self, decide_true, Bool.not_true, Bool.false_eq_true, if_false, hh, if_true] at hm
        by_cases hnr : s.chain.noRedelegate v = true ∧ 0 < s.chain.deleg v
        · rw [if_pos hnr] at hm; injection hm with hm; left; exact hm.symm
        · rw [if_neg hnr] at hm
          split at hm
          · cases hm
          · rename_i p hp
            injection hm with hm
            right
            have hcv := C12_deleg_conserves _ _ p.1 p.2 (by rw [hp])
            refine ⟨_, by rw [hh]; exact hm.symm, ?_, hset.1, hset.2, ?_⟩
            · rw [plan_sum _ _ (by simpa using hcv.2.2), hcv.2.1]
            · intro t ht
              have tg := plan_targets _ _ t ht
              obtain ⟨j, hj, y, hy, hy1, hy2⟩ := plan_index _ _ t ht
              have hyraw : y ∈ s.regValidatorsRaw := (mem_sortAscAmt _ _).mp hy
              have hreg : t.1 ∈ s.reg.vals := by
                simp only [Sys.regValidatorsRaw, List.mem_map] at hyraw
                obtain ⟨w, hw, hwe⟩ := hyraw
                rw [← hy1, ← hwe]; exact hw
              refine ⟨hreg, tg.2, y.2, by rw [← hy1]; exact hyraw, ?_⟩
              have bal := (C12_deleg_balanced _ _ p.1 p.2 (by rw [hp]) j).2 (by rw [hj]; exact tg.2)
              rw [hj, hy2] at bal
              have hl : ((Sys.sortAscAmt s.regValidatorsRaw).map (·.2)).length = s.reg.vals.length := by
                rw [List.length_map, length_sortAscAmt]; simp [Sys.regValidatorsRaw]
              have hs : ((Sys.sortAscAmt s.regValidatorsRaw).map (·.2)).sum = (s.regValidatorsRaw.map (·.2)).sum :=
                sum_sortAscAmt _
              rw [hl, hs] at bal
              exact bal
      · have : (!decide (s.reg.hub = hubA ∧ s.chain.delegSet v = true)) = true := by simp [hset]
        rw [if_pos this] at hm
        injection hm with hm; left; exact hm.symm

/-- ... and the plan of a RemoveValidator is balanced in the same sense: no remaining validator is
    lifted above the even share (rounded up) of what the remaining validators hold plus the stake
    moved. -/
theorem C13_remove_plan_balanced (s : Sys) (sender v : Addr) (r' : RegSt) (plan : List (Addr × Nat))
    (hx : s.regExec sender (.remove v) = .ok (r', [Msg.wasm regA s.reg.hub (.hub (.redelegateProxy v plan)) [],
                              Msg.wasm regA s.reg.hub (.hub .updateGlobalIndex) []])) :
    ∀ t ∈ plan, ∃ held, (t.1, held) ∈ ({ s with reg := r' } : Sys).regValidatorsRaw ∧
      held + t.2 ≤ ((({ s with reg := r' } : Sys).regValidatorsRaw.map (·.2)).sum + s.chain.deleg v + r'.vals.length - 1) / r'.vals.length := by
  simp only [Sys.regExec] at hx
  exc_norm at hx
  split at hx
  · cases hx
  · split at hx
    · cases hx
    · split at hx
      · cases hx
      · rename_i msgs hm
        injection hx with hx; injection hx with h1 h2; subst h1
        by_cases hset : s.reg.hub = hubA ∧ s.chain.delegSet v = true
        · have hh : s.reg.hub = hubA := hset.1
          simp only [hset, and_self, decide_true, Bool.not_true, Bool.false_eq_true, if_false, hh, if_true] at hm
          by_cases hnr : s.chain.noRedelegate v = true ∧ 0 < s.chain.deleg v
          · rw [if_pos hnr] at hm; injection hm with hm; rw [← hm] at h2; cases h2
          · rw [if_neg hnr] at hm
            split at hm
            · cases hm
            · rename_i p hp
              injection hm with hm
              rw [← hm, hh] at h2
              injection h2 with h2 _
              injection h2 with _ _ h2 _
              injection h2 with h2
              injection h2 with _ h2
              subst h2
              simp only [hh]
              intro t ht
              have tg := plan_targets _ _ t ht
              obtain ⟨j, hj, y, hy, hy1, hy2⟩ := plan_index _ _ t ht
              have hyraw := (mem_sortAscAmt _ _).mp hy
              refine ⟨y.2, by rw [← hy1]; exact hyraw, ?_⟩
              have bal := (C12_deleg_balanced _ _ p.1 p.2 (by rw [hp]) j).2 (by rw [hj]; exact tg.2)
              rw [hj, hy2] at bal
              rw [List.length_map, length_sortAscAmt, sum_sortAscAmt] at bal
              simpa [Sys.regValidatorsRaw] using bal
        · have : (!decide (s.reg.hub = hubA ∧ s.chain.delegSet v = true)) = true := by simp [hset]
          rw [if_pos this] at hm
          injection hm with hm; rw [← hm] at h2; cases h2

/-- The hub's proxy accepts only the registry and forwards the plan one-to-one as Redelegate
    messages from the removed validator. -/
theorem C13_hub_proxy_forwards (h h' : HubSt) (e : HubEnv) (sender src : Addr) (funds : List (Denom × Nat))
    (plan : List (Addr × Nat)) (ms : List Msg)
    (hx : hubExec h e sender funds (.redelegateProxy src plan) = .ok (h', ms)) :
    h.registry = some sender ∧ h' = h ∧ ms = plan.map (fun p => Msg.redelegate e.self src p.1 p.2) := by
  simp only [hubExec] at hx
  split at hx
  · cases hx
  · exc_norm at hx
    split at hx
    · cases hx
    · rename_i r hr
      split at hx
      · cases hx
      · rename_i hs
        injection hx with hx; injection hx with h1 h2
        exact ⟨by rw [hr]; congr 1; exact (Classical.not_not.mp hs).symm, h1.symm, h2.symm⟩

/-- One Redelegate moves exactly its amount from the source to the destination validator and
    nothing else: the hub's total delegated stake is unchanged. -/
theorem C13_redelegate_moves_exactly (s s' : Sys) (src dst : Addr) (amt : Nat) (ms : List Msg)
    (hx : s.handle (.redelegate hubA src dst amt) = .ok (s', ms)) :
    ms = [] ∧ src ≠ dst ∧ amt ≤ s.chain.deleg src ∧
    s'.chain.deleg src = s.chain.deleg src - amt ∧ s'.chain.deleg dst = s.chain.deleg dst + amt ∧
    (∀ v, v ≠ src → v ≠ dst → s'.chain.deleg v = s.chain.deleg v) ∧
    s'.chain.bank = s.chain.bank ∧ s'.hub = s.hub := by
  simp only [Sys.handle] at hx
  exc_norm at hx
  exc_split at hx
  rename_i _ _ _ hsd _ hle
  refine ⟨rfl, hsd, by omega, ?_, ?_, ?_, rfl, rfl⟩
  · have : src ≠ dst := hsd
    simp [upd, this]
  · have : dst ≠ src := fun e => hsd e.symm
    simp [upd, this]
  · intro v h1 h2; simp [upd, h1, h2]

/-- hence a plan whose amounts sum to the whole delegation leaves nothing on the removed validator -/
theorem C13_nothing_left (d : Nat) (amts : List Nat) (h : amts.sum = d) :
    amts.foldl (fun acc a => acc - a) d = 0 := by
  induction amts generalizing d with
  | nil => simp at h; simp [h]
  | cons a as ih =>
    simp only [List.sum_cons] at h
    simp only [List.foldl_cons]
    exact ih (d - a) (by omega)

example : (([(202, 5), (203, 7)] : List (Addr × Nat)).map (·.2)).sum = 12 := by decide

/-! ### End to end: the whole RemoveValidator transaction

  Carried through the message queue for the removed validator `v`:
  `v` is not registered; the hub's stake on `v` is at most what pending messages will move away
  from it; no pending message could put stake on `v` or register it again. -/

structure RemInv (v : Addr) (s : Sys) (q : List Msg) : Prop where
  gone : v ∉ s.reg.vals
  left : s.chain.deleg v ≤ leavingAll v q
  ok : AllOk v q

theorem RemInv.step (v : Addr) (s s' : Sys) (m : Msg) (rest subs : List Msg)
    (inv : RemInv v s (m :: rest)) (hx : s.handle m = .ok (s', subs)) : RemInv v s' (subs ++ rest) := by
  have hm : ¬ Bad v m := inv.ok m (List.mem_cons_self ..)
  have hrest : AllOk v rest := fun x hx' => inv.ok x (List.mem_cons_of_mem _ hx')
  have hleft := inv.left
  rw [leavingAll_cons] at hleft
  -- generic conclusion
  have fin : v ∉ s'.reg.vals → AllOk v subs → s'.chain.deleg v + leaving v m ≤ s.chain.deleg v + leavingAll v subs →
      RemInv v s' (subs ++ rest) := by
    intro h1 h2 h3
    refine ⟨h1, ?_, AllOk.append h2 hrest⟩
    rw [leavingAll_append]; omega
  cases m with
  | bankSend src dst d amt =>
    simp only [Sys.handle] at hx; exc_norm at hx
    split at hx
    · cases hx
    · rename_i s1 h1
      unfold Sys.bankMove at h1
      exc_split at h1
      cases hx
      exact fin inv.gone (AllOk.nil v) (by simp [leaving, leavingAll, Sys.setBank])
  | delegate who v' amt =>
    simp only [Sys.handle] at hx; exc_norm at hx; exc_split at hx
    have hne : v ≠ v' := fun h => hm (by simp [Bad, h])
    exact fin inv.gone (AllOk.nil v) (by simp [leaving, leavingAll, Sys.setBank, upd, hne])
  | undelegate who v' amt =>
    simp only [Sys.handle] at hx; exc_norm at hx; exc_split at hx
    refine fin inv.gone (AllOk.nil v) ?_
    simp only [leaving, leavingAll, List.map_nil, List.sum_nil, Nat.add_zero]
    show upd s.chain.deleg v' _ v ≤ _
    by_cases h : v = v'
    · subst h; rw [upd_same]; omega
    · rw [upd_other _ _ _ _ h]; omega
  | redelegate who src dst amt =>
    simp only [Sys.handle] at hx; exc_norm at hx; exc_split at hx
    rename_i _ _ _ _ _ hge
    have hne : v ≠ dst := fun h => hm (by simp [Bad, h])
    refine fin inv.gone (AllOk.nil v) ?_
    simp only [leaving, leavingAll, List.map_nil, List.sum_nil, Nat.add_zero]
    show upd (upd s.chain.deleg src _) dst _ v + _ ≤ _
    rw [upd_other _ _ _ _ hne]
    by_cases hs : src = v
    · subst hs; simp only [upd_same, if_true]; omega
    · have : v ≠ src := fun h => hs h.symm
      rw [upd_other _ _ _ _ this]; simp [hs]
  | withdrawReward who v' =>
    simp only [Sys.handle] at hx; exc_norm at hx; exc_split at hx
    exact fin inv.gone (AllOk.nil v) (by simp [leaving, leavingAll, List.foldl, Sys.setBank])
  | setWithdrawAddr who a =>
    simp only [Sys.handle] at hx; exc_norm at hx; exc_split at hx
    exact fin inv.gone (AllOk.nil v) (by simp [leaving, leavingAll])
  | wasm a b c d =>
    have ch := handle_wasm_chain s s' a b c d subs hx
    have dsame : s'.chain.deleg v = s.chain.deleg v := by rw [ch.1]
    cases handle_touch s s' _ subs hx with
    | none h _ _ hb =>
      have hp : AllPlain subs := by
        intro x hx'
        obtain ⟨t, dn, am, he⟩ := hb x hx'
        subst he; rfl
      refine fin (by rw [h.reg]; exact inv.gone) hp.ok.1 ?_
      rw [dsame, hp.ok.2]
      -- a call addressed to a stub schedules nothing (only proxies addressed to the hub count)
      have hl : leaving v (Msg.wasm a b c d) = 0 := by
        rename_i hmm _
        rcases hmm with h0 | ⟨a', b', c', d', heq, ht⟩
        · exact absurd rfl (h0 a b c d)
        · injection heq with _ e2 _ _
          subst e2
          cases c with
          | hub hm' =>
            cases hm' with
            | redelegateProxy src plan =>
              have : ¬ (b = hubA ∧ src = v) := by
                rintro ⟨hb', _⟩
                rcases ht with ht | ht <;> (rw [ht] at hb'; cases hb')
              simp [leaving, this]
            | _ => simp [leaving]
          | _ => simp [leaving]
      omega
    | hub s1 sender funds hm' heq h1 _ hc hx' _ _ _ _ g =>
      injection heq with e1 e2 e3 e4
      subst e1; subst e2; subst e3; subst e4
      have hreg : ∀ reg vs, s.hub.registry = some reg → s1.hubEnv.validatorsOf reg = .ok vs → v ∉ vs.map (·.1) := by
        intro reg vs _ hvs
        show v ∉ vs.map (·.1)
        have : s1.validatorsOf reg = .ok vs := hvs
        unfold Sys.validatorsOf at this
        split at this
        · injection this with this; subst this
          intro hin
          obtain ⟨y, hy, hy1⟩ := List.mem_map.mp hin
          have := mem_sortAscAmt' _ _ hy
          simp only [Sys.regValidatorsRaw, List.mem_map] at this
          obtain ⟨w', hw', hwe⟩ := this
          apply inv.gone
          rw [← h1.reg]
          have : y.1 = w' := by rw [← hwe]
          rw [← hy1, this]; exact hw'
        · cases this
      have st := hubExec_steer v _ _ _ _ _ _ _ hx' hreg (by
        intro src plan he p hp hpv
        subst he
        exact hm ⟨p, hp, hpv⟩)
      refine fin (by rw [g]; exact inv.gone) st.1 ?_
      rw [dsame, st.2]
      cases hm' <;> simp [leaving]
    | bsei s1 sender funds tm heq _ hx' _ _ _ _ g =>
      injection heq with e1 e2 e3 e4
      subst e1; subst e2; subst e3; subst e4
      have hp := (bseiExec_plain _ _ _ _ _ _ _ _ _ hx').ok (v := v)
      exact fin (by rw [g]; exact inv.gone) hp.1 (by rw [dsame, hp.2]; simp [leaving])
    | stsei blk sender funds tm heq hx' _ _ _ _ g =>
      injection heq with e1 e2 e3 e4
      subst e1; subst e2; subst e3; subst e4
      have hp := (stseiExec_plain _ _ _ _ _ _ _ _ hx').ok (v := v)
      exact fin (by rw [g]; exact inv.gone) hp.1 (by rw [dsame, hp.2]; simp [leaving])
    | reward s1 sender funds rm heq _ _ _ hx' _ _ _ _ g =>
      injection heq with e1 e2 e3 e4
      subst e1; subst e2; subst e3; subst e4
      have hp := (rewardExec_plain _ _ _ _ _ _ _ _ _ hx').ok (v := v)
      exact fin (by rw [g]; exact inv.gone) hp.1 (by rw [dsame, hp.2]; simp [leaving])
    | disp env sender funds dm heq _ _ hx' _ _ _ _ g =>
      injection heq with e1 e2 e3 e4
      subst e1; subst e2; subst e3; subst e4
      have hp := (dispExec_plain _ _ _ _ _ _ _ hx').ok (v := v)
      exact fin (by rw [g]; exact inv.gone) hp.1 (by rw [dsame, hp.2]; simp [leaving])
    | reg s1 sender funds rm heq h1 _ _ hx' _ _ _ _ _ =>
      injection heq with e1 e2 e3 e4
      subst e1; subst e2; subst e3; subst e4
      have st := regExec_steer v s1 a rm _ _ hx' (by rw [h1]; exact inv.gone) (by
        intro v' he hv'
        subst he
        exact hm (by simp [Bad, hv']))
      refine fin st.2 st.1 ?_
      rw [dsame]
      have : leaving v (Msg.wasm a regA (Call.reg rm) d) = 0 := by simp [leaving]
      omega

/-- when the hub has a movable delegation on the validator, the removal does ask for it to be moved -/
theorem remove_emits (s : Sys) (sender v : Addr) (r' : RegSt) (ms : List Msg)
    (hx : s.regExec sender (.remove v) = .ok (r', ms)) (hh : s.reg.hub = hubA)
    (hset : s.chain.delegSet v = true) (hnr : s.chain.noRedelegate v = false) : ms ≠ [] := by
  simp only [Sys.regExec] at hx
  exc_norm at hx
  split at hx
  · cases hx
  · split at hx
    · cases hx
    · split at hx
      · cases hx
      · rename_i msgs hm
        injection hx with hx; injection hx with h1 h2; subst h1; subst h2
        have hc : s.reg.hub = hubA ∧ s.chain.delegSet v = true := ⟨hh, hset⟩
        simp only [hc, and_self, decide_true, Bool.not_true, Bool.false_eq_true, if_false, hh, if_true] at hm
        rw [if_neg (by simp [hnr])] at hm
        split at hm
        · cases hm
        · injection hm with hm
          intro h; rw [h] at hm; cases hm

/-- **The whole RemoveValidator transaction.** If the transaction succeeds — the registry's
    handler, the hub's proxy, every Redelegate on the staking module, and the index update the
    registry triggers afterwards with everything *it* causes (reward withdrawal, swap, dispatch,
    re-bonding of rewards) — then it was sent by the registry owner, the validator is out of the
    registry at the end, and, provided the chain allowed the redelegation, the hub has no stake left
    on it: nothing in the transaction, re-bonded rewards included, was delegated to it. -/
theorem C13_end_to_end (s s' : Sys) (sender v : Addr) (c : ChainOK s) (hh : s.reg.hub = hubA)
    (hallow : s.chain.noRedelegate v = false ∨ s.chain.deleg v = 0)
    (hx : Sys.run 400 s [.wasm sender regA (.reg (.remove v)) []] = .ok s') :
    sender = s.reg.owner ∧ v ∉ s'.reg.vals ∧ s'.chain.deleg v = 0 := by
  simp only [Sys.run] at hx
  split at hx
  · cases hx
  · rename_i s1' subs h1
    cases handle_touch s s1' _ subs h1 with
    | none _ hm' _ _ =>
      rcases hm' with hm' | ⟨_, _, _, _, heq, ht⟩
      · exact absurd rfl (hm' _ _ _ _)
      · injection heq with _ e2 _ _
        rcases ht with ht | ht <;> (rw [ht] at e2; cases e2)
    | hub _ _ _ _ heq _ _ _ _ _ _ _ _ _ => injection heq with _ e2 _ _; cases e2
    | bsei _ _ _ _ heq _ _ _ _ _ _ _ => injection heq with _ e2 _ _; cases e2
    | stsei _ _ _ _ heq _ _ _ _ _ _ => injection heq with _ e2 _ _; cases e2
    | reward _ _ _ _ heq _ _ _ _ _ _ _ _ _ => injection heq with _ e2 _ _; cases e2
    | disp _ _ _ _ heq _ _ _ _ _ _ _ _ => injection heq with _ e2 _ _; cases e2
    | reg s1 sender' funds rm heq hreg hmv hch hx' _ _ _ _ _ =>
      injection heq with e1 _ e3 e4
      injection e3 with e3
      subst e1; subst e3; subst e4
      simp only [Sys.moveFunds] at hmv
      injection hmv with hmv; subst hmv
      obtain ⟨hs, _, hgone, _, hshape⟩ := C13_remove_validator s sender v _ _ hx'
      have dsame : s1'.chain.deleg v = s.chain.deleg v := by rw [hch]
      have inv1 : RemInv v s1' (subs ++ []) := by
        refine ⟨hgone, ?_, ?_⟩
        · rw [dsame, List.append_nil]
          rcases hshape with he | ⟨plan, he, hsum, _, _, _⟩
          · -- nothing was emitted: there was nothing movable
            subst he
            by_cases hz : s.chain.deleg v = 0
            · rw [hz]; exact Nat.zero_le _
            · exfalso
              have hset : s.chain.delegSet v = true := by
                cases hb : s.chain.delegSet v with
                | true => rfl
                | false => exact absurd (c.unset v hb) hz
              have hnr : s.chain.noRedelegate v = false := by
                rcases hallow with h | h
                · exact h
                · exact absurd h hz
              exact remove_emits s sender v _ _ hx' hh hset hnr rfl
          · subst he
            simp only [leavingAll, List.map_cons, List.map_nil, List.sum_cons, List.sum_nil, leaving, hh, and_self,
              if_true, Nat.add_zero]
            omega
        · rw [List.append_nil]
          rcases hshape with he | ⟨plan, he, _, _, _, htargets⟩
          · subst he; exact AllOk.nil v
          · subst he
            refine AllOk.cons ?_ (AllOk.cons (by simp [Bad]) (AllOk.nil v))
            simp only [Bad]
            rintro ⟨t, ht, htv⟩
            exact hgone (htv ▸ (htargets t ht).1)
      have fin := run_inv2 (RemInv v) (fun a b r a' sb => RemInv.step v a a' b r sb) 399 s1' _ s' inv1 hx
      have := fin.left
      simp only [leavingAll, List.map_nil, List.sum_nil] at this
      exact ⟨hs, fin.gone, by omega⟩

/-! Non-vacuity: a state with two registered validators and 1000 staked on the first meets the
    premises, and the whole removal transaction (redelegation, index update, dispatch) succeeds. -/
def twoValidators : Sys :=
  { genesisSys with
    reg := { genesisSys.reg with vals := [201, 202] },
    chain := { genesisSys.chain with deleg := upd genesisSys.chain.deleg 201 1000,
                                      delegSet := upd genesisSys.chain.delegSet 201 true },
    hub := { genesisSys.hub with sBond := 1000 } }

example : ∃ s', Sys.run 400 twoValidators [.wasm 1 regA (.reg (.remove 201)) []] = .ok s' := ⟨_, rfl⟩
example : twoValidators.reg.hub = hubA ∧ twoValidators.chain.noRedelegate 201 = false := ⟨rfl, rfl⟩
example : ChainOK twoValidators := by
  refine ⟨fun w hw => ?_, fun w hw => ?_⟩
  · show upd _ 201 1000 w = 0
    have : w ≠ 201 := fun h => hw (by rw [h]; decide)
    rw [upd_other _ _ _ _ this]; rfl
  · show upd _ 201 1000 w = 0
    by_cases h : w = 201
    · subst h; simp [twoValidators, upd] at hw
    · rw [upd_other _ _ _ _ h]; rfl

end Krp
