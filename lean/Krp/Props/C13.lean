/-
  C13 — Removing a validator moves its whole stake to the remaining ones.
-/
import Krp.Props.C02
import Krp.System
namespace Krp
open HubSt

private theorem mem_insAscAmt (x y : Addr × Nat) (l : List (Addr × Nat)) :
    y ∈ Sys.insAscAmt x l ↔ y = x ∨ y ∈ l := by
  induction l with
  | nil => simp [Sys.insAscAmt]
  | cons z zs ih =>
    simp only [Sys.insAscAmt]
    split
    · simp
    · simp only [List.mem_cons, ih]
      constructor
      · rintro (h | h | h) <;> simp [h]
      · rintro (h | h | h) <;> simp [h]

private theorem mem_sortAscAmt (y : Addr × Nat) (l : List (Addr × Nat)) :
    y ∈ Sys.sortAscAmt l ↔ y ∈ l := by
  induction l with
  | nil => simp [Sys.sortAscAmt]
  | cons z zs ih =>
    simp only [Sys.sortAscAmt, List.foldr_cons] at ih ⊢
    rw [mem_insAscAmt, ih]; simp

private theorem plan_targets (vs : List (Addr × Nat)) (p : List Nat) (t : Addr × Nat)
    (ht : t ∈ (vs.zip p).filterMap (fun x => if x.2 = 0 then none else some (x.1.1, x.2))) :
    t.1 ∈ vs.map (·.1) ∧ 0 < t.2 := by
  simp only [List.mem_filterMap] at ht
  obtain ⟨x, hx, he⟩ := ht
  split at he
  · cases he
  · rename_i hne
    injection he with he; subst he
    have := List.of_mem_zip hx
    exact ⟨List.mem_map.mpr ⟨x.1, this.1, rfl⟩, Nat.pos_of_ne_zero hne⟩

private theorem plan_sum (vs : List (Addr × Nat)) (p : List Nat) (hl : p.length = vs.length) :
    (((vs.zip p).filterMap (fun x => if x.2 = 0 then none else some (x.1.1, x.2))).map (·.2)).sum = p.sum := by
  induction vs generalizing p with
  | nil => cases p <;> simp_all
  | cons v vs ih =>
    cases p with
    | nil => simp at hl
    | cons q qs =>
      have := ih qs (by simpa using hl)
      simp only [List.zip_cons_cons, List.filterMap_cons, List.sum_cons]
      by_cases hq : q = 0
      · simp only [hq, if_true, this]; omega
      · simp only [hq, if_false, List.map_cons, List.sum_cons, this]

/-- A successful RemoveValidator: only the owner; the address leaves the registry; the registry
    never becomes empty; and — when the hub has a delegation there that the chain allows to move —
    the registry asks the hub to redelegate exactly the whole delegation, split over validators that
    are still registered, in positive amounts, followed by an index update. -/
theorem C13_remove_validator (s : Sys) (sender v : Addr) (r' : RegSt) (ms : List Msg)
    (hx : s.regExec sender (.remove v) = .ok (r', ms)) :
    sender = s.reg.owner ∧ r'.vals = s.reg.vals.filter (· ≠ v) ∧ v ∉ r'.vals ∧ r'.vals ≠ [] ∧
    (ms = [] ∨ ∃ plan, ms = [Msg.wasm regA s.reg.hub (.hub (.redelegateProxy v plan)) [],
                              Msg.wasm regA s.reg.hub (.hub .updateGlobalIndex) []] ∧
        (plan.map (·.2)).sum = s.chain.deleg v ∧ s.reg.hub = hubA ∧ s.chain.delegSet v = true ∧
        ∀ t ∈ plan, t.1 ∈ r'.vals ∧ 0 < t.2) := by
  simp only [Sys.regExec] at hx
  exc_norm at hx
  split at hx
  · cases hx
  · rename_i hs
    split at hx
    · cases hx
    · rename_i hne
      split at hx
      · cases hx
      · rename_i msgs hm
        injection hx with hx; injection hx with h1 h2; subst h1; subst h2
        refine ⟨Classical.not_not.mp hs, rfl, by simp, hne, ?_⟩
        by_cases hset : s.reg.hub = hubA ∧ s.chain.delegSet v = true
        · have hh : s.reg.hub = hubA := hset.1
          simp only [hset, and_self, decide_true, Bool.not_true, Bool.false_eq_true, if_false, hh, if_true] at hm
          by_cases hnr : s.chain.noRedelegate v = true ∧ 0 < s.chain.deleg v
          · rw [if_pos hnr] at hm; injection hm with hm; left; exact hm.symm
          · rw [if_neg hnr] at hm
            split at hm
            · cases hm
            · rename_i p hp
              injection hm with hm
              right
              have hc := C12_deleg_conserves _ _ p.1 p.2 (by rw [hp])
              refine ⟨_, by rw [hh]; exact hm.symm, ?_, hset.1, hset.2, ?_⟩
              · rw [plan_sum _ _ (by simpa using hc.2.2), hc.2.1]
              · intro t ht
                have := plan_targets _ _ t ht
                refine ⟨?_, this.2⟩
                obtain ⟨y, hy, hy1⟩ := List.mem_map.mp this.1
                rw [mem_sortAscAmt] at hy
                simp only [Sys.regValidatorsRaw, List.mem_map] at hy
                obtain ⟨w, hw, hwe⟩ := hy
                rw [← hy1, ← hwe]; exact hw
        · have : (!decide (s.reg.hub = hubA ∧ s.chain.delegSet v = true)) = true := by simp [hset]
          rw [if_pos this] at hm
          injection hm with hm; left; exact hm.symm

/-- The hub's proxy accepts only the registry and forwards the plan one-to-one as Redelegate
    messages from the removed validator. -/
theorem C13_hub_proxy_forwards (h h' : HubSt) (e : HubEnv) (sender src : Addr) (funds : List (Denom × Nat))
    (plan : List (Addr × Nat)) (ms : List Msg)
    (hx : hubExec h e sender funds (.redelegateProxy src plan) = .ok (h', ms)) :
    h.registry = some sender ∧ h' = h ∧ ms = plan.map (fun p => Msg.redelegate e.self src p.1 p.2) := by
  simp only [hubExec] at hx
  split at hx
  · cases hx
  · exc_norm at hx
    split at hx
    · cases hx
    · rename_i r hr
      split at hx
      · cases hx
      · rename_i hs
        injection hx with hx; injection hx with h1 h2
        exact ⟨by rw [hr]; congr 1; exact (Classical.not_not.mp hs).symm, h1.symm, h2.symm⟩

/-- One Redelegate moves exactly its amount from the source to the destination validator and
    nothing else: the hub's total delegated stake is unchanged. -/
theorem C13_redelegate_moves_exactly (s s' : Sys) (src dst : Addr) (amt : Nat) (ms : List Msg)
    (hx : s.handle (.redelegate hubA src dst amt) = .ok (s', ms)) :
    ms = [] ∧ src ≠ dst ∧ amt ≤ s.chain.deleg src ∧
    s'.chain.deleg src = s.chain.deleg src - amt ∧ s'.chain.deleg dst = s.chain.deleg dst + amt ∧
    (∀ v, v ≠ src → v ≠ dst → s'.chain.deleg v = s.chain.deleg v) ∧
    s'.chain.bank = s.chain.bank ∧ s'.hub = s.hub := by
  simp only [Sys.handle] at hx
  exc_norm at hx
  exc_split at hx
  rename_i _ _ _ hsd _ hle
  refine ⟨rfl, hsd, by omega, ?_, ?_, ?_, rfl, rfl⟩
  · have : src ≠ dst := hsd
    simp [upd, this]
  · have : dst ≠ src := fun e => hsd e.symm
    simp [upd, this]
  · intro v h1 h2; simp [upd, h1, h2]

/-- hence a plan whose amounts sum to the whole delegation leaves nothing on the removed validator -/
theorem C13_nothing_left (d : Nat) (amts : List Nat) (h : amts.sum = d) :
    amts.foldl (fun acc a => acc - a) d = 0 := by
  induction amts generalizing d with
  | nil => simp at h; simp [h]
  | cons a as ih =>
    simp only [List.sum_cons] at h
    simp only [List.foldl_cons]
    exact ih (d - a) (by omega)

example : (([(202, 5), (203, 7)] : List (Addr × Nat)).map (·.2)).sum = 12 := by decide

end Krp
