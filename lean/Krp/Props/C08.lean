/-
  C08 — Unbonding time-lock holds and the batch lifecycle only moves forward.
-/
import Krp.Props.C07
namespace Krp
open HubSt

/-- An unbond undelegates the open batch only when more than one epoch period has passed since the
    previous undelegation; otherwise the history is not touched at all. When it does, the new entry
    carries the current time and `last_unbonded_time` moves to it. -/
theorem C08_undelegation_only_after_epoch (h h' : HubSt) (e : HubEnv) (amount : Nat) (user : Addr)
    (ms : List Msg) (bsei : Bool)
    (hx : (if bsei then h.unbondB e amount user else h.unbondS e amount user) = .ok (h', ms)) :
    ∃ st, h.actualState e = .ok st ∧ st.hist = h.hist ∧ st.batchId = h.batchId ∧
      st.lastUnbondedTime = h.lastUnbondedTime ∧ st.epoch = h.epoch ∧
      ((e.now - h.lastUnbondedTime > h.epoch ∧ h'.batchId = h.batchId + 1 ∧ h'.lastUnbondedTime = e.now ∧
          (∃ x, h'.hist h.batchId = some x ∧ x.time = e.now ∧ x.released = false) ∧
          ∀ i, i ≠ h.batchId → h'.hist i = h.hist i) ∨
       (¬ e.now - h.lastUnbondedTime > h.epoch ∧ h'.hist = h.hist ∧ h'.batchId = h.batchId ∧
          h'.lastUnbondedTime = h.lastUnbondedTime)) := by
  cases bsei <;> simp only [Bool.false_eq_true, if_false, if_true] at hx
  · obtain ⟨st, tok, hst, _, _, hcase⟩ := unbondS_spec h h' e amount user ms hx
    have sb := (actualState_spec h st e hst).1
    refine ⟨st, hst, sb.hist, sb.batchId, sb.lastUnb, sb.epoch, ?_⟩
    rcases hcase with ⟨hep, um, hp, _⟩ | ⟨hep, hh, _⟩
    · left
      have sp := processUndelegations_spec _ _ _ _ hp
      obtain ⟨_, _, _, _, _, _, _, _, _, bid, lu, hh, _⟩ := sp
      rw [sb.lastUnb, sb.epoch] at hep
      refine ⟨hep, by rw [bid]; show st.batchId + 1 = _; rw [sb.batchId], lu, ?_, ?_⟩
      · rw [hh]; show ∃ x, upd st.hist st.batchId _ h.batchId = some x ∧ _
        rw [← sb.batchId]; simp
      · intro i hi; rw [hh]
        show upd st.hist st.batchId _ i = h.hist i
        rw [upd_other _ _ _ _ (by rw [sb.batchId]; exact hi), sb.hist]
    · right
      rw [sb.lastUnb, sb.epoch] at hep
      rw [hh]; exact ⟨hep, sb.hist, sb.batchId, sb.lastUnb⟩
  · obtain ⟨st, supply, withFee, tok, hst, _, _, _, _, _, hcase⟩ := unbondB_spec h h' e amount user ms hx
    have sb := (actualState_spec h st e hst).1
    refine ⟨st, hst, sb.hist, sb.batchId, sb.lastUnb, sb.epoch, ?_⟩
    rcases hcase with ⟨hep, um, hp, _⟩ | ⟨hep, hh, _⟩
    · left
      have sp := processUndelegations_spec _ _ _ _ hp
      obtain ⟨_, _, _, _, _, _, _, _, _, bid, lu, hh, _⟩ := sp
      rw [sb.lastUnb, sb.epoch] at hep
      refine ⟨hep, by rw [bid]; show st.batchId + 1 = _; rw [sb.batchId], lu, ?_, ?_⟩
      · rw [hh]; show ∃ x, upd st.hist st.batchId _ h.batchId = some x ∧ _
        rw [← sb.batchId]; simp
      · intro i hi; rw [hh]
        show upd st.hist st.batchId _ i = h.hist i
        rw [upd_other _ _ _ _ (by rw [sb.batchId]; exact hi), sb.hist]
    · right
      rw [sb.lastUnb, sb.epoch] at hep
      rw [hh]; exact ⟨hep, sb.hist, sb.batchId, sb.lastUnb⟩

/-- Batches are numbered consecutively and each is undelegated at most once: an undelegation writes
    the slot of the open batch id — which was empty, because history exists only below it — and
    opens the next id. -/
theorem C08_consecutive_written_once (h h' : HubSt) (e : HubEnv) (ms : List Msg) (inv : ClaimInv h)
    (hx : h.processUndelegations e = .ok (h', ms)) :
    h.hist h.batchId = none ∧ h'.hist h.batchId ≠ none ∧ h'.batchId = h.batchId + 1 ∧
    (∀ i, h'.hist i ≠ none → i < h'.batchId) := by
  have sp := processUndelegations_spec h h' e ms hx
  have inv' := C07_undelegation_keeps_claims h h' e ms inv hx
  refine ⟨?_, ?_, sp.2.2.2.2.2.2.2.2.2.1, inv'.histBound⟩
  · cases hh : h.hist h.batchId with
    | none => rfl
    | some x => have := inv.histBound h.batchId (by rw [hh]; simp); omega
  · rw [sp.2.2.2.2.2.2.2.2.2.2.2.1]; simp

/-- No batch is released — hence no coin is paid for it — before the unbonding period has fully
    elapsed since its undelegation; a released entry never changes again; unreleased entries keep
    their time, amounts and applied rates. (`cutoff` = now − unbonding_period in WithdrawUnbonded.) -/
theorem C08_release_respects_time_lock (h h' : HubSt) (e : HubEnv) (sender : Addr) (ms : List Msg)
    (hx : h.withdraw e sender = .ok (h', ms)) :
    h.unbonding ≤ e.now ∧
    ∀ i x, h.hist i = some x → ∃ x', h'.hist i = some x' ∧ x'.time = x.time ∧ x'.bAmt = x.bAmt ∧
      x'.sAmt = x.sAmt ∧ x'.bApplied = x.bApplied ∧ x'.sApplied = x.sApplied ∧
      (x.released = true → x' = x) ∧
      (x.released = false → x'.released = true → x.time + h.unbonding ≤ e.now) := by
  obtain ⟨hnow, h1, hp, _, _, hh, _⟩ := withdraw_spec h h' e sender ms hx
  subst hh
  have sp := processWithdrawRate_spec h h1 _ _ hp
  have fs := delWait_fold_spec (h1.finished sender).2 sender h1
  refine ⟨hnow, fun i x hxi => ?_⟩
  obtain ⟨x', h1x, t, b, s, ba, sa, keep, lock, _⟩ := (sp.2.2.2.2.2.2.2.2.2.2.2 i).2 x hxi
  refine ⟨x', ?_, t, b, s, ba, sa, keep, fun hr hr' => ?_⟩
  · show ((h1.finished sender).2.foldl (fun hh i => hh.delWait sender i) h1).hist i = some x'
    rw [fs.1]; exact h1x
  · have := lock hr hr'; omega

/-- A withdrawal pays only for released batches: the entries it removes are exactly the caller's
    entries whose history record is released (so never for the open batch, never before release). -/
theorem C08_paid_batches_are_released (h : HubSt) (u : Addr) :
    ∀ i ∈ (h.finished u).2, ∃ x, h.hist i = some x ∧ x.released = true ∧ h.waitSet u i = true := by
  intro i hi
  simp only [finished, userBatches, List.mem_filter] at hi
  cases hxi : h.hist i with
  | none => simp [hxi] at hi
  | some x => simp [hxi] at hi; exact ⟨x, rfl, hi.2, hi.1.2⟩

/-! Non-vacuity: the boundary second. With epoch 30 an unbond 30 s after the previous undelegation
    does not undelegate, 31 s after does. -/
example : ¬ (1000030 - 1000000 > 30) ∧ (1000031 - 1000000 > 30) := by decide

/-! ### Forward only, over every history

  `HistExt h h'`: `h'` continues `h`'s batch history — the open batch id never goes back, an entry
  that exists keeps its undelegation time, amounts and applied rates for ever, and a released entry
  never changes again (in particular it is never un-released and its withdraw rates are final). -/

structure HistExt (h h' : HubSt) : Prop where
  batch : h.batchId ≤ h'.batchId
  keep : ∀ i x, h.hist i = some x → ∃ x', h'.hist i = some x' ∧ x'.time = x.time ∧ x'.bAmt = x.bAmt ∧
    x'.sAmt = x.sAmt ∧ x'.bApplied = x.bApplied ∧ x'.sApplied = x.sApplied ∧ (x.released = true → x' = x)

theorem HistExt.refl (h : HubSt) : HistExt h h :=
  ⟨Nat.le_refl _, fun _ x hx => ⟨x, hx, rfl, rfl, rfl, rfl, rfl, fun _ => rfl⟩⟩

theorem HistExt.trans {a b c : HubSt} (x : HistExt a b) (y : HistExt b c) : HistExt a c := by
  refine ⟨Nat.le_trans x.batch y.batch, fun i e he => ?_⟩
  obtain ⟨e1, h1, t1, b1, s1, ba1, sa1, r1⟩ := x.keep i e he
  obtain ⟨e2, h2, t2, b2, s2, ba2, sa2, r2⟩ := y.keep i e1 h1
  refine ⟨e2, h2, by rw [t2, t1], by rw [b2, b1], by rw [s2, s1], by rw [ba2, ba1], by rw [sa2, sa1], fun hr => ?_⟩
  have := r1 hr; subst this
  exact r2 hr

theorem HistExt.of_keeps {h h' : HubSt} (k : KeepsClaims h h') : HistExt h h' := by
  refine ⟨by rw [k.same.batchId]; exact Nat.le_refl _, fun i x hx => ?_⟩
  rw [← k.same.hist] at hx
  exact ⟨x, hx, rfl, rfl, rfl, rfl, rfl, fun _ => rfl⟩

/-- closing the open batch only adds the entry of the open id (which had none) -/
theorem HistExt.of_undelegation (h h' : HubSt) (e : HubEnv) (ms : List Msg) (inv : ClaimInv h)
    (hx : h.processUndelegations e = .ok (h', ms)) : HistExt h h' := by
  have sp := processUndelegations_spec h h' e ms hx
  obtain ⟨_, _, _, _, _, _, _, _, _, bid, _, hh, _⟩ := sp
  refine ⟨by rw [bid]; omega, fun i x hxi => ?_⟩
  have hlt := inv.histBound i (by rw [hxi]; simp)
  have hne : i ≠ h.batchId := by omega
  rw [hh, upd_other _ _ _ _ hne]
  exact ⟨x, hxi, rfl, rfl, rfl, rfl, rfl, fun _ => rfl⟩

/-- **Every hub message** continues the batch history. -/
theorem C08_hub_step_forward (h h' : HubSt) (e : HubEnv) (sender : Addr) (funds : List (Denom × Nat))
    (m : HubMsg) (ms : List Msg) (inv : ClaimInv h) (hl : h.legacy = [])
    (hx : hubExec h e sender funds m = .ok (h', ms)) : HistExt h h' := by
  cases m with
  | migrateWaitList limit =>
    simp only [hubExec] at hx
    split at hx
    · injection hx with hx; injection hx with h1 _; subst h1
      have : h.migrate limit = h := by simp [migrate, hl]
      rw [this]; exact HistExt.refl _
    · cases hx
  | updateParams a b c d p r =>
    simp only [hubExec] at hx
    exc_norm at hx
    split at hx
    · cases hx
    · rename_i h1 hp
      injection hx with hx; injection hx with e1 _; subst e1
      exact HistExt.of_keeps (updateParams_keeps _ _ _ _ _ _ _ _ _ hp)
  | receive user amt hook =>
    simp only [hubExec] at hx
    split at hx
    · cases hx
    · exc_norm at hx
      split at hx
      · cases hx
      · split at hx
        · cases hx
        · cases hook with
          | other => simp only [] at hx; cases hx
          | convert =>
            simp only [] at hx
            split at hx
            · exact HistExt.of_keeps (convertBS_keeps _ _ _ _ _ _ hx)
            · split at hx
              · exact HistExt.of_keeps (convertSB_keeps _ _ _ _ _ _ hx)
              · cases hx
          | unbond =>
            simp only [] at hx
            split at hx
            · obtain ⟨st, supply, wf, tok, hst, _, _, _, _, _, hcase⟩ := unbondB_spec _ _ _ _ _ _ hx
              have k := actualState_keeps h st e hst
              have inv1 : ClaimInv st := ClaimInv.of_same k.same inv
              have c := C07_unbond_bsei_credits_sender_only st inv1 user supply amt wf
              have e1 : HistExt h (st.afterUnbondB user supply amt wf) :=
                (HistExt.of_keeps k).trans ⟨Nat.le_refl _, fun i x hx => ⟨x, hx, rfl, rfl, rfl, rfl, rfl, fun _ => rfl⟩⟩
              rcases hcase with ⟨_, um, hp, _⟩ | ⟨_, hh, _⟩
              · exact e1.trans (HistExt.of_undelegation _ _ _ _ c.1 hp)
              · subst hh; exact e1
            · split at hx
              · obtain ⟨st, tok, hst, _, _, hcase⟩ := unbondS_spec _ _ _ _ _ _ hx
                have k := actualState_keeps h st e hst
                have inv1 : ClaimInv st := ClaimInv.of_same k.same inv
                have c := C07_unbond_stsei_credits_sender_only st inv1 user amt
                have e1 : HistExt h (st.afterUnbondS user amt) :=
                  (HistExt.of_keeps k).trans ⟨Nat.le_refl _, fun i x hx => ⟨x, hx, rfl, rfl, rfl, rfl, rfl, fun _ => rfl⟩⟩
                rcases hcase with ⟨_, um, hp, _⟩ | ⟨_, hh, _⟩
                · exact e1.trans (HistExt.of_undelegation _ _ _ _ c.1 hp)
                · subst hh; exact e1
              · cases hx
  | bond => simp only [hubExec] at hx; split at hx; · cases hx
            · exact HistExt.of_keeps (bondB_keeps _ _ _ _ _ _ hx)
  | bondForStSei => simp only [hubExec] at hx; split at hx; · cases hx
                    · exact HistExt.of_keeps (bondS_keeps _ _ _ _ _ _ hx)
  | bondRewards => simp only [hubExec] at hx; split at hx; · cases hx
                   · exact HistExt.of_keeps (bondR_keeps _ _ _ _ _ _ hx)
  | updateGlobalIndex => simp only [hubExec] at hx; split at hx; · cases hx
                         · exact HistExt.of_keeps (updateGlobal_keeps _ _ _ _ _ hx)
  | withdrawUnbonded =>
    simp only [hubExec] at hx
    split at hx
    · cases hx
    · have tl := C08_release_respects_time_lock h h' e sender ms hx
      obtain ⟨_, h1, hp, _, _, hh, _⟩ := withdraw_spec h h' e sender ms hx
      have sp := processWithdrawRate_spec h h1 _ _ hp
      have fs := delWait_fold_spec (h1.finished sender).2 sender h1
      refine ⟨?_, fun i x hxi => ?_⟩
      · subst hh
        show h.batchId ≤ (List.foldl (fun hh i => hh.delWait sender i) h1 (h1.finished sender).2).batchId
        rw [fs.2.1, sp.2.2.2.2.1]; exact Nat.le_refl _
      · obtain ⟨x', h1x, t, b, s, ba, sa, keep, _⟩ := tl.2 i x hxi
        exact ⟨x', h1x, t, b, s, ba, sa, keep⟩
  | checkSlashing =>
    simp only [hubExec] at hx
    split at hx
    · cases hx
    · exc_norm at hx
      split at hx
      · cases hx
      · rename_i st hst
        injection hx with hx; injection hx with e1 _; subst e1
        exact HistExt.of_keeps (actualState_keeps _ _ _ hst)
  | updateConfig a b c d f g u =>
    simp only [hubExec] at hx; split at hx; · cases hx
    · exact HistExt.of_keeps (updateConfig_keeps _ _ _ _ _ _ _ _ _ _ _ _ hx)
  | setOwner a =>
    simp only [hubExec] at hx; exc_norm at hx; exc_split at hx
    exact ⟨Nat.le_refl _, fun i x hx => ⟨x, hx, rfl, rfl, rfl, rfl, rfl, fun _ => rfl⟩⟩
  | acceptOwnership =>
    simp only [hubExec] at hx; exc_norm at hx; exc_split at hx
    exact ⟨Nat.le_refl _, fun i x hx => ⟨x, hx, rfl, rfl, rfl, rfl, rfl, fun _ => rfl⟩⟩
  | swapHook =>
    simp only [hubExec] at hx; exc_norm at hx; exc_split at hx; exact HistExt.refl _
  | claimAirdrop =>
    simp only [hubExec] at hx; exc_norm at hx; exc_split at hx; exact HistExt.refl _
  | redelegateProxy src plan =>
    simp only [hubExec] at hx; exc_norm at hx; exc_split at hx; exact HistExt.refl _

/-- **Every history.** Whatever happens between two points of any history of the composed system
    (no pre-migration entries injected), the later hub state continues the earlier one's batch
    history: batch ids never go back, no entry's time / amounts / applied rates are ever rewritten,
    nothing released is ever touched again. -/
theorem C08_forward_only (s : Sys) (l1 l2 : List Step) (inv : ClaimInv s.hub) (hl : s.hub.legacy = [])
    (hnl : ∀ u b a, Step.env (.seedLegacy u b a) ∉ l1 ++ l2) :
    HistExt (s.steps l1).hub (s.steps (l1 ++ l2)).hub := by
  have split : s.steps (l1 ++ l2) = (s.steps l1).steps l2 := by
    unfold Sys.steps; rw [List.foldl_append]
  rw [split]
  have hn1 : ∀ u b a, Step.env (.seedLegacy u b a) ∉ l1 :=
    fun u b a hm => hnl u b a (List.mem_append_left _ hm)
  have hn2 : ∀ u b a, Step.env (.seedLegacy u b a) ∉ l2 :=
    fun u b a hm => hnl u b a (List.mem_append_right _ hm)
  have mid := C07_reachable s l1 inv hl hn1
  generalize s.steps l1 = x at mid ⊢
  -- induction over the second part, carrying the claim invariant along
  have key : ∀ (l : List Step) (y : Sys), ClaimInv y.hub → y.hub.legacy = [] →
      (∀ u b a, Step.env (.seedLegacy u b a) ∉ l) → HistExt x.hub y.hub → HistExt x.hub (y.steps l).hub := by
    intro l
    induction l with
    | nil => intro y _ _ _ he; exact he
    | cons st rest ih =>
      intro y iy ly hn he
      have hrest : ∀ u b a, Step.env (.seedLegacy u b a) ∉ rest :=
        fun u b a hm => hn u b a (List.mem_cons_of_mem _ hm)
      have hone : ∀ u b a, Step.env (.seedLegacy u b a) ∉ [st] := by
        intro u b a hm
        simp only [List.mem_cons, List.mem_nil_iff, or_false] at hm
        exact hn u b a (hm ▸ List.mem_cons_self ..)
      have nxt := C07_reachable y [st] iy ly hone
      show HistExt x.hub ((y.step st).steps rest).hub
      refine ih (y.step st) nxt.1 nxt.2 hrest (he.trans ?_)
      cases st with
      | env e =>
        have hne : ∀ u b a, e ≠ .seedLegacy u b a := by
          intro u b a hee; subst hee; exact hn u b a (List.mem_cons_self ..)
        show HistExt y.hub (y.env e).hub
        rw [(env_same y e hne).hub]; exact HistExt.refl _
      | tx m =>
        show HistExt y.hub (y.exec m).1.hub
        have := exec_inv (fun z => ClaimInv z.hub ∧ z.hub.legacy = [] ∧ HistExt y.hub z.hub)
          (by
            intro z m' z' ms hp hx
            cases handle_touch z z' m' ms hx with
            | none h _ _ _ => rw [h.hub]; exact hp
            | hub s1 sender funds hm _ _ _ _ hx' b t r d g =>
              have st := C07_hub_step _ _ _ _ _ _ _ hp.1 hp.2.1 hx'
              exact ⟨st.1, st.2, hp.2.2.trans (C08_hub_step_forward _ _ _ _ _ _ _ hp.1 hp.2.1 hx')⟩
            | bsei s1 sender funds tm _ _ hx' h t r d g => rw [h]; exact hp
            | stsei blk sender funds tm _ hx' h b r d g => rw [h]; exact hp
            | reward s1 sender funds rm _ _ _ _ hx' h b t d g => rw [h]; exact hp
            | disp env sender funds dm _ _ _ hx' h b t r g => rw [h]; exact hp
            | reg s1 sender funds rm _ h1 _ _ hx' h b t r d => rw [h]; exact hp)
          y m ⟨iy, ly, HistExt.refl _⟩
        exact this.2.2
  exact key l2 x mid.1 mid.2 hn2 (HistExt.refl _)

end Krp
