/-
  C08 — Unbonding time-lock holds and the batch lifecycle only moves forward.
-/
import Krp.Props.C07
namespace Krp
open HubSt

/-- An unbond undelegates the open batch only when more than one epoch period has passed since the
    previous undelegation; otherwise the history is not touched at all. When it does, the new entry
    carries the current time and `last_unbonded_time` moves to it. -/
theorem C08_undelegation_only_after_epoch (h h' : HubSt) (e : HubEnv) (amount : Nat) (user : Addr)
    (ms : List Msg) (bsei : Bool)
    (hx : (if bsei then h.unbondB e amount user else h.unbondS e amount user) = .ok (h', ms)) :
    ∃ st, h.actualState e = .ok st ∧ st.hist = h.hist ∧ st.batchId = h.batchId ∧
      st.lastUnbondedTime = h.lastUnbondedTime ∧ st.epoch = h.epoch ∧
      ((e.now - h.lastUnbondedTime > h.epoch ∧ h'.batchId = h.batchId + 1 ∧ h'.lastUnbondedTime = e.now ∧
          (∃ x, h'.hist h.batchId = some x ∧ x.time = e.now ∧ x.released = false) ∧
          ∀ i, i ≠ h.batchId → h'.hist i = h.hist i) ∨
       (¬ e.now - h.lastUnbondedTime > h.epoch ∧ h'.hist = h.hist ∧ h'.batchId = h.batchId ∧
          h'.lastUnbondedTime = h.lastUnbondedTime)) := by
  cases bsei <;> simp only [Bool.false_eq_true, if_false, if_true] at hx
  · obtain ⟨st, tok, hst, _, _, hcase⟩ := unbondS_spec h h' e amount user ms hx
    have sb := (actualState_spec h st e hst).1
    refine ⟨st, hst, sb.hist, sb.batchId, sb.lastUnb, sb.epoch, ?_⟩
    rcases hcase with ⟨hep, um, hp, _⟩ | ⟨hep, hh, _⟩
    · left
      have sp := processUndelegations_spec _ _ _ _ hp
      obtain ⟨_, _, _, _, _, _, _, _, _, bid, lu, hh, _⟩ := sp
      rw [sb.lastUnb, sb.epoch] at hep
      refine ⟨hep, by rw [bid]; show st.batchId + 1 = _; rw [sb.batchId], lu, ?_, ?_⟩
      · rw [hh]; show ∃ x, upd st.hist st.batchId _ h.batchId = some x ∧ _
        rw [← sb.batchId]; simp
      · intro i hi; rw [hh]
        show upd st.hist st.batchId _ i = h.hist i
        rw [upd_other _ _ _ _ (by rw [sb.batchId]; exact hi), sb.hist]
    · right
      rw [sb.lastUnb, sb.epoch] at hep
      rw [hh]; exact ⟨hep, sb.hist, sb.batchId, sb.lastUnb⟩
  · obtain ⟨st, supply, withFee, tok, hst, _, _, _, _, _, hcase⟩ := unbondB_spec h h' e amount user ms hx
    have sb := (actualState_spec h st e hst).1
    refine ⟨st, hst, sb.hist, sb.batchId, sb.lastUnb, sb.epoch, ?_⟩
    rcases hcase with ⟨hep, um, hp, _⟩ | ⟨hep, hh, _⟩
    · left
      have sp := processUndelegations_spec _ _ _ _ hp
      obtain ⟨_, _, _, _, _, _, _, _, _, bid, lu, hh, _⟩ := sp
      rw [sb.lastUnb, sb.epoch] at hep
      refine ⟨hep, by rw [bid]; show st.batchId + 1 = _; rw [sb.batchId], lu, ?_, ?_⟩
      · rw [hh]; show ∃ x, upd st.hist st.batchId _ h.batchId = some x ∧ _
        rw [← sb.batchId]; simp
      · intro i hi; rw [hh]
        show upd st.hist st.batchId _ i = h.hist i
        rw [upd_other _ _ _ _ (by rw [sb.batchId]; exact hi), sb.hist]
    · right
      rw [sb.lastUnb, sb.epoch] at hep
      rw [hh]; exact ⟨hep, sb.hist, sb.batchId, sb.lastUnb⟩

/-- Batches are numbered consecutively and each is undelegated at most once: an undelegation writes
    the slot of the open batch id — which was empty, because history exists only below it — and
    opens the next id. -/
theorem C08_consecutive_written_once (h h' : HubSt) (e : HubEnv) (ms : List Msg) (inv : ClaimInv h)
    (hx : h.processUndelegations e = .ok (h', ms)) :
    h.hist h.batchId = none ∧ h'.hist h.batchId ≠ none ∧ h'.batchId = h.batchId + 1 ∧
    (∀ i, h'.hist i ≠ none → i < h'.batchId) := by
  have sp := processUndelegations_spec h h' e ms hx
  have inv' := C07_undelegation_keeps_claims h h' e ms inv hx
  refine ⟨?_, ?_, sp.2.2.2.2.2.2.2.2.2.1, inv'.histBound⟩
  · cases hh : h.hist h.batchId with
    | none => rfl
    | some x => have := inv.histBound h.batchId (by rw [hh]; simp); omega
  · rw [sp.2.2.2.2.2.2.2.2.2.2.2.1]; simp

/-- No batch is released — hence no coin is paid for it — before the unbonding period has fully
    elapsed since its undelegation; a released entry never changes again; unreleased entries keep
    their time, amounts and applied rates. (`cutoff` = now − unbonding_period in WithdrawUnbonded.) -/
theorem C08_release_respects_time_lock (h h' : HubSt) (e : HubEnv) (sender : Addr) (ms : List Msg)
    (hx : h.withdraw e sender = .ok (h', ms)) :
    h.unbonding ≤ e.now ∧
    ∀ i x, h.hist i = some x → ∃ x', h'.hist i = some x' ∧ x'.time = x.time ∧ x'.bAmt = x.bAmt ∧
      x'.sAmt = x.sAmt ∧ x'.bApplied = x.bApplied ∧ x'.sApplied = x.sApplied ∧
      (x.released = true → x' = x) ∧
      (x.released = false → x'.released = true → x.time + h.unbonding ≤ e.now) := by
  obtain ⟨hnow, h1, hp, _, _, hh, _⟩ := withdraw_spec h h' e sender ms hx
  subst hh
  have sp := processWithdrawRate_spec h h1 _ _ hp
  have fs := delWait_fold_spec (h1.finished sender).2 sender h1
  refine ⟨hnow, fun i x hxi => ?_⟩
  obtain ⟨x', h1x, t, b, s, ba, sa, keep, lock, _⟩ := (sp.2.2.2.2.2.2.2.2.2.2.2 i).2 x hxi
  refine ⟨x', ?_, t, b, s, ba, sa, keep, fun hr hr' => ?_⟩
  · show ((h1.finished sender).2.foldl (fun hh i => hh.delWait sender i) h1).hist i = some x'
    rw [fs.1]; exact h1x
  · have := lock hr hr'; omega

/-- A withdrawal pays only for released batches: the entries it removes are exactly the caller's
    entries whose history record is released (so never for the open batch, never before release). -/
theorem C08_paid_batches_are_released (h : HubSt) (u : Addr) :
    ∀ i ∈ (h.finished u).2, ∃ x, h.hist i = some x ∧ x.released = true ∧ h.waitSet u i = true := by
  intro i hi
  simp only [finished, userBatches, List.mem_filter] at hi
  cases hxi : h.hist i with
  | none => simp [hxi] at hi
  | some x => simp [hxi] at hi; exact ⟨x, rfl, hi.2, hi.1.2⟩

/-! Non-vacuity: the boundary second. With epoch 30 an unbond 30 s after the previous undelegation
    does not undelegate, 31 s after does. -/
example : ¬ (1000030 - 1000000 > 30) ∧ (1000031 - 1000000 > 30) := by decide

end Krp
