/-
  C05 — Peg-recovery fee is bounded and never over-collects past the 1:1 peg.
  Four fee-charging paths: bond, unbond, convert stSei→bSei (fee on the minted bSei),
  convert bSei→stSei (fee on the burnt bSei).  `C = supply + pending requests` are the claims.
-/
import Krp.Lemmas.HubSpec
import Krp.Lemmas.Arith
namespace Krp
open HubSt

/-- Fee on a mint (bond, convert stSei→bSei): never negative, never above amount × fee rate, none
    at or above the threshold, and never past the peg: when charged, backing ≤ claims afterwards. -/
theorem C05_fee_on_mint (st : HubSt) (S m v out : Nat) (hx : st.pegFeeOnMint S m v = .ok out) :
    out ≤ m ∧ m - out ≤ mulDec m st.fee ∧ (st.thr ≤ st.bRate → out = m) ∧
    (st.bRate < st.thr → st.bBond + v ≤ S + out + st.reqB) := pegFeeOnMint_spec st S m v out hx

/-- Fee on a burn (unbond, convert bSei→stSei): same bounds; the fee never exceeds the current gap
    between claims and backing. -/
theorem C05_fee_on_burn (st : HubSt) (S amount out : Nat) (hx : st.pegFeeOnBurn S amount = .ok out) :
    out ≤ amount ∧ amount - out ≤ mulDec amount st.fee ∧ (st.thr ≤ st.bRate → out = amount) ∧
    (st.bRate < st.thr → st.bBond + (amount - out) ≤ S + st.reqB) := pegFeeOnBurn_spec st S amount out hx

/-- Bond never leaves the bSei pool above its claims when a fee was charged. -/
theorem C05_bond_not_past_peg (h h' : HubSt) (e : HubEnv) (sender : Addr) (funds : List (Denom × Nat))
    (ms : List Msg) (hx : h.bondB e sender funds = .ok (h', ms)) :
    ∃ st mint, h.actualState e = .ok st ∧
      (st.bRate < st.thr → h'.bBond ≤ (st.bSupplyQ e).toOption.getD 0 + mint + h.reqB) := by
  obtain ⟨p, st, mint, delegs, tok, _, hst, _, hfee, _, _, hh, _⟩ := bondB_spec h h' e sender funds ms hx
  have hf := pegFeeOnMint_spec st _ _ _ _ hfee
  have hs := (actualState_spec h st e hst).1
  refine ⟨st, mint, hst, fun hlt => ?_⟩
  rw [hh]; have := hf.2.2.2 hlt; rw [hs.reqB] at this; exact this

/-- Convert stSei→bSei: the same. -/
theorem C05_convert_stsei_bsei_not_past_peg (h h' : HubSt) (e : HubEnv) (amount : Nat) (user : Addr)
    (ms : List Msg) (hx : h.convertSB e amount user = .ok (h', ms)) :
    ∃ st bs mint, h.actualState e = .ok st ∧ st.bSupplyQ e = .ok bs ∧
      (st.bRate < st.thr → h'.bBond ≤ bs + mint + st.reqB) := by
  obtain ⟨st, sTok, bTok, bs, ss, mint, hst, _, _, _, hbs, _, hfee, _, _, hh, _⟩ := convertSB_spec h h' e amount user ms hx
  have hf := pegFeeOnMint_spec st _ _ _ _ hfee
  exact ⟨st, bs, mint, hst, hbs, fun hlt => by rw [hh]; exact hf.2.2.2 hlt⟩

/-- Unbond: after the request is recorded the backing does not exceed the claims (supply after the
    burn plus pending requests), and after an undelegation in the same transaction it exceeds the
    remaining claims by less than two base units. -/
theorem C05_unbond_not_past_peg (st : HubSt) (user : Addr) (S amount withFee : Nat)
    (hx : st.pegFeeOnBurn S amount = .ok withFee) (ha : amount ≤ S) (hlt : st.bRate < st.thr) :
    let st' := st.afterUnbondB user S amount withFee
    st'.bBond ≤ (S - amount) + st'.reqB ∧
    (st'.reqB ≤ D → st'.bBond - mulDec st'.reqB st'.bRate ≤ (S - amount) + 2) := by
  intro st'
  have hf := pegFeeOnBurn_spec st S amount withFee hx
  have h1 : st.bBond ≤ (S - amount) + (st.reqB + withFee) := by have := hf.2.2.2 hlt; omega
  refine ⟨h1, fun hR => ?_⟩
  show st.bBond - mulDec (st.reqB + withFee) (rateOf st.bBond (S - amount) (st.reqB + withFee)) ≤ _
  unfold rateOf
  split
  · rename_i hz
    rcases hz with hz | hz
    · omega
    · omega
  · rename_i hz
    exact undeleg_peg st.bBond (S - amount) (st.reqB + withFee) h1 hR (by omega)

/-- Convert bSei→stSei, partial: the pool ends at most two base units above its claims provided the
    fee charged respects the cap `fee × backing ≤ (claims − backing)(claims − amount)`. The code caps
    the fee by the current gap `claims − backing` only, which is not enough (D2, see the
    counterexample below). -/
theorem C05_convert_bsei_stsei_partial (h h' : HubSt) (e : HubEnv) (amount : Nat) (user : Addr)
    (ms : List Msg) (hx : h.convertBS e amount user = .ok (h', ms)) :
    ∃ st bs withFee, h.actualState e = .ok st ∧ st.bSupplyQ e = .ok bs ∧
      st.pegFeeOnBurn bs amount = .ok withFee ∧
      (st.bBond ≤ bs + st.reqB → 0 < bs + st.reqB → withFee ≤ D →
       st.bRate = st.bBond * D / (bs + st.reqB) →
       (amount - withFee) * st.bBond ≤ (bs + st.reqB - st.bBond) * (bs + st.reqB - amount) →
       h'.bBond ≤ (bs - amount) + st.reqB + 2) := by
  obtain ⟨st, sTok, bTok, bs, ss, withFee, hst, _, _, hbs, _, hfee, _, _, hle2, hh, _⟩ := convertBS_spec h h' e amount user ms hx
  have hf := pegFeeOnBurn_spec st _ _ _ hfee
  refine ⟨st, bs, withFee, hst, hbs, hfee, fun hBC hC hwD hr hcap => ?_⟩
  rw [hh]
  show st.bBond - mulDec withFee st.bRate ≤ _
  rw [hr]
  have := convert_peg st.bBond (bs + st.reqB) amount withFee hf.1 (by omega) hBC hwD hC hcap
  omega

/-- D2: the code's cap (the current gap) over-collects on convert bSei→stSei. 1000 bSei backed by
    900 (rate 0.9), fee 20 %, threshold 1, convert 500: fee = min(100, 1000 − 900) = 100, value
    removed = ⌊400 × 0.9⌋ = 360, so 540 of backing remain against 500 claims (rate 1.08). -/
theorem C05_convert_bsei_stsei_counterexample :
    let fee := min (mulDec 500 (D / 5)) (1000 + 0 - 900)
    900 - mulDec (500 - fee) (rateOf 900 1000 0) > (1000 - 500) + 0 + 2 := by decide

/-! Non-vacuity of the partial theorem's cap: with fee 10 the cap holds (10·900 ≤ 100·500). -/
example : (500 - 490) * 900 ≤ (1000 - 900) * (1000 - 500) := by decide

end Krp
