/-
  C14 — bSei reward pool is solvent and complete.

  `owed r a` = (global_index − index_a)·balance_a + pending_a  (atomics, exact because balances
  are integers).  Invariant `RewardSt.Inv`: Σ_holders owed ≤ prev_reward_balance·10^18, the holder
  balances sum to total_balance, no holder index is ahead of the global index.
  Property theorems only; lemmas in Krp/Lemmas/Reward.lean.
-/
import Krp.Lemmas.Reward
import Krp.Init
import Krp.Lemmas.Reach
import Krp.Lemmas.Wiring
import Krp.Lemmas.Bank
import Krp.Lemmas.NoSwap
namespace Krp
open RewardSt

/-- a freshly instantiated reward contract satisfies the invariant -/
theorem C14_inv_init (sender hub : Addr) (denom : Denom) (swap : Addr) (ds : List Denom) :
    (rewardInit sender hub denom swap ds).Inv := by
  constructor <;> simp [rewardInit, owed]

private theorem update_sum (r : RewardSt) (h : r.Inv) (k : Nat) :
    sumOn r.holders (fun a => (r.globalIndex + k - r.hIdx a) * r.hBal a + r.hPend a) =
      sumOn r.holders r.owed + k * r.totalBalance := by
  rw [← h.total, Nat.mul_comm k, ← sumOn_mul_right, ← sumOn_add]
  apply sumOn_congr
  intro a _
  have := h.idxLe a
  simp only [owed]
  rw [show r.globalIndex + k - r.hIdx a = (r.globalIndex - r.hIdx a) + k by omega, Nat.add_mul,
    Nat.mul_comm k]
  omega

/-- every successful message of every sender keeps the invariant: the sum of what holders are owed
    never exceeds the recorded reward balance, whatever the interleaving of index updates, mints,
    burns, transfers (increase/decrease) and claims. -/
theorem C14_inv_step (r r' : RewardSt) (self : Addr) (tk dp : Res Addr) (bb : Denom → Nat)
    (sender : Addr) (m : RewMsg) (ms : List Msg) (h : r.Inv)
    (hx : rewardExec r self tk dp bb sender m = .ok (r', ms)) : r'.Inv := by
  cases m with
  | claim rc =>
    simp only [rewardExec, accrual_ok r h] at hx
    exc_norm at hx
    exc_split at hx
    rename_i hq hlt
    exact claim_inv r h sender (by simp only [owed]; omega)
  | updateConfig a b c =>
    simp only [rewardExec] at hx; exc_norm at hx; exc_split at hx
    exact ⟨h.nodup, h.zero, h.idxLe, h.total, h.solvent⟩
  | setOwner a =>
    simp only [rewardExec] at hx; exc_norm at hx; exc_split at hx
    exact ⟨h.nodup, h.zero, h.idxLe, h.total, h.solvent⟩
  | acceptOwnership =>
    simp only [rewardExec] at hx; exc_norm at hx; exc_split at hx
    exact ⟨h.nodup, h.zero, h.idxLe, h.total, h.solvent⟩
  | swapToRewardDenom =>
    simp only [rewardExec] at hx; exc_norm at hx; exc_split at hx
    exact h
  | updateGlobalIndex =>
    simp only [rewardExec] at hx; exc_norm at hx; exc_split at hx
    · exact h
    · rename_i hle
      refine ⟨h.nodup, h.zero, fun a => Nat.le_trans (h.idxLe a) (Nat.le_add_right _ _), h.total, ?_⟩
      show sumOn r.holders (fun a => (r.globalIndex + fromRatio (bb r.rewardDenom - r.prevRewardBalance) r.totalBalance - r.hIdx a) * r.hBal a + r.hPend a) ≤ bb r.rewardDenom * D
      rw [update_sum r h]
      have hs := h.solvent
      have : fromRatio (bb r.rewardDenom - r.prevRewardBalance) r.totalBalance * r.totalBalance
          ≤ (bb r.rewardDenom - r.prevRewardBalance) * D := Nat.div_mul_le_self _ _
      have : bb r.rewardDenom * D = r.prevRewardBalance * D + (bb r.rewardDenom - r.prevRewardBalance) * D := by
        rw [← Nat.add_mul]; congr 1; omega
      omega
  | increase a amt =>
    simp only [rewardExec, accrual_ok r h] at hx
    exc_norm at hx; exc_split at hx
    exact settle_inv r h a (r.hBal a + amt) (r.totalBalance + amt) (by omega)
  | decrease a amt =>
    simp only [rewardExec, accrual_ok r h] at hx
    exc_norm at hx; exc_split at hx
    exact settle_inv r h a (r.hBal a - amt) (r.totalBalance - amt) (by omega)
  | updateSwapDenom d add =>
    simp only [rewardExec] at hx; exc_norm at hx; exc_split at hx
    all_goals exact ⟨h.nodup, h.zero, h.idxLe, h.total, h.solvent⟩

/-- ClaimRewards never fails for lack of funds: whenever the caller is owed at least one whole
    unit the claim succeeds, pays exactly the whole-unit part to the recipient, keeps the fraction,
    and lowers the recorded balance by exactly what it pays. -/
theorem C14_claim_pays (r : RewardSt) (self : Addr) (tk dp : Res Addr) (bb : Denom → Nat)
    (sender : Addr) (rc : Option Addr) (h : r.Inv) (hpos : D ≤ r.owed sender) :
    ∃ r', rewardExec r self tk dp bb sender (.claim rc) =
        .ok (r', [Msg.bankSend self (rc.getD sender) r.rewardDenom (r.owed sender / D)]) ∧
      r'.hPend sender = r.owed sender % D ∧
      r'.prevRewardBalance + r.owed sender / D = r.prevRewardBalance ∧
      r'.hBal sender = r.hBal sender := by
  have hsum := owed_le_sum r h sender
  have hsol := h.solvent
  have hq : 0 < r.owed sender / D := Nat.div_pos hpos D_pos
  have hle : r.owed sender / D ≤ r.prevRewardBalance := by
    have : r.owed sender / D * D ≤ r.owed sender := Nat.div_mul_le_self _ _
    exact Nat.le_of_mul_le_mul_right (by omega) D_pos
  simp only [rewardExec, accrual_ok r h]
  simp only [bind, Except.bind, pure, Except.pure, throw, throwThe, MonadExceptOf.throw, owed] at *
  rw [if_neg (by omega), if_neg (by omega)]
  refine ⟨_, rfl, ?_, ?_, ?_⟩
  · simp [setHolder]
  · simp only [setHolder]; omega
  · simp [setHolder]

/-- a claim worth less than one unit is refused and changes nothing (the fraction stays) -/
theorem C14_claim_below_unit (r : RewardSt) (self : Addr) (tk dp : Res Addr) (bb : Denom → Nat)
    (sender : Addr) (rc : Option Addr) (h : r.Inv) (hlt : r.owed sender < D) :
    ∃ e, rewardExec r self tk dp bb sender (.claim rc) = .error e := by
  simp only [rewardExec, accrual_ok r h, owed] at *
  simp only [bind, Except.bind, pure, Except.pure, throw, throwThe, MonadExceptOf.throw]
  rw [if_pos (Nat.div_eq_of_lt hlt)]
  exact ⟨_, rfl⟩

/-- **With no bSei holder an index update records nothing.** What has arrived stays unrecorded — the
    whole state of the reward contract is what it was — so that the first update with holders
    distributes it: the step of that update is (bank balance − recorded balance) per bSei, and the
    recorded balance has not moved. -/
theorem C14_update_without_holders_records_nothing (r r' : RewardSt) (self : Addr) (tk dp : Res Addr)
    (bb : Denom → Nat) (sender : Addr) (ms : List Msg) (hz : r.totalBalance = 0)
    (hx : rewardExec r self tk dp bb sender .updateGlobalIndex = .ok (r', ms)) :
    r' = r ∧ ms = [] := by
  simp only [rewardExec] at hx
  exc_norm at hx
  exc_split at hx
  all_goals first | exact ⟨rfl, rfl⟩ | contradiction

/-- an index update records exactly the contract's bank balance, so the recorded balance never
    exceeds the actual one; with no holders it records nothing and loses nothing -/
theorem C14_update_records_bank (r r' : RewardSt) (self : Addr) (tk dp : Res Addr) (bb : Denom → Nat)
    (sender : Addr) (ms : List Msg)
    (hx : rewardExec r self tk dp bb sender .updateGlobalIndex = .ok (r', ms)) :
    ms = [] ∧ ((r.totalBalance = 0 ∧ r' = r) ∨
      (r.totalBalance ≠ 0 ∧ r'.prevRewardBalance = bb r.rewardDenom ∧ r.prevRewardBalance ≤ bb r.rewardDenom)) := by
  simp only [rewardExec] at hx; exc_norm at hx; exc_split at hx
  · rename_i hz; exact ⟨rfl, Or.inl ⟨hz, rfl⟩⟩
  · rename_i hz hle; exact ⟨rfl, Or.inr ⟨hz, rfl, by omega⟩⟩

/-- completeness: an index update strands less than `total_balance` atomics (below one base unit
    inside the envelope, where total_balance ≤ 10^18) -/
theorem C14_update_dust (r r' : RewardSt) (self : Addr) (tk dp : Res Addr) (bb : Denom → Nat)
    (sender : Addr) (ms : List Msg) (h : r.Inv)
    (hx : rewardExec r self tk dp bb sender .updateGlobalIndex = .ok (r', ms)) :
    r'.prevRewardBalance * D + sumOn r.holders r.owed <
      sumOn r'.holders r'.owed + r.prevRewardBalance * D + r.totalBalance + 1 := by
  simp only [rewardExec] at hx; exc_norm at hx; exc_split at hx
  · omega
  · rename_i hz hle
    show bb r.rewardDenom * D + sumOn r.holders r.owed <
      sumOn r.holders (fun a => (r.globalIndex + fromRatio (bb r.rewardDenom - r.prevRewardBalance) r.totalBalance - r.hIdx a) * r.hBal a + r.hPend a) + r.prevRewardBalance * D + r.totalBalance + 1
    rw [update_sum r h]
    have hpos : 0 < r.totalBalance := Nat.pos_of_ne_zero hz
    have hlt := Nat.lt_div_mul_add (a := (bb r.rewardDenom - r.prevRewardBalance) * D) hpos
    have : bb r.rewardDenom * D = r.prevRewardBalance * D + (bb r.rewardDenom - r.prevRewardBalance) * D := by
      rw [← Nat.add_mul]; congr 1; omega
    unfold fromRatio
    omega

/-! Non-vacuity: a concrete state satisfying the invariant with a claimable holder. -/
def c14Example : RewardSt :=
  { owner := 1, newOwner := 1, hub := 100, rewardDenom := 1, swapContract := 106, swapDenoms := [],
    globalIndex := 2 * D, totalBalance := 3, prevRewardBalance := 6,
    hBal := upd (fun _ => 0) 5 3, hIdx := fun _ => 0, hPend := fun _ => 0, holders := [5] }

example : c14Example.Inv ∧ D ≤ c14Example.owed 5 := by
  refine ⟨⟨?_, ?_, ?_, ?_, ?_⟩, ?_⟩ <;> simp [c14Example, owed, upd, sumOn, D]

/-- **Every reachable state.** From any state in which the reward contract's invariant holds (the
    instantiated contract: `C14_inv_init`), after any history of the composed system — token
    transfers, mints and burns mirrored by the bSei token, index updates through the dispatcher,
    claims, failed transactions, anything else — the sum of what all holders are owed never exceeds
    the recorded reward balance, the recorded total equals the sum of mirrored balances, and no
    holder's checkpoint is ahead of the global index. -/
theorem C14_reachable (s : Sys) (l : List Step) (h : s.reward.Inv) : (s.steps l).reward.Inv := by
  exact steps_inv (fun x => x.reward.Inv)
    (by
      intro x m x' ms hp hx
      cases handle_touch x x' m ms hx with
      | none h _ _ _ => rw [h.reward]; exact hp
      | hub s1 sender funds hm _ _ _ _ hx' b t r d g => rw [r]; exact hp
      | bsei s1 sender funds tm _ _ hx' h t r d g => rw [r]; exact hp
      | stsei blk sender funds tm _ hx' h b r d g => rw [r]; exact hp
      | reward s1 sender funds rm _ _ _ _ hx' h b t d g => exact C14_inv_step _ _ _ _ _ _ _ _ _ hp hx'
      | disp env sender funds dm _ _ _ hx' h b t r g => rw [r]; exact hp
      | reg s1 sender funds rm _ h1 _ _ hx' h b t r d => rw [r]; exact hp)
    (by
      intro x e hp
      cases e with
      | seedLegacy u b a => exact hp
      | slash v n d => simp only [Sys.env]; split <;> exact hp
      | slashUnbonding v n d => simp only [Sys.env]; split <;> exact hp
      | _ => exact hp)
    l s h

example : genesisSys.reward.Inv := C14_inv_init 1 hubA 1 swapA [0, 1]

/-! ### The recorded balance is really there: reward contract vs. bank, over every history

  `prev_reward_balance` is what claims are paid from.  Invariant carried through the message queue:

      recorded balance + reward coins about to leave the contract (its own pending messages)
        ≤ the contract's bank balance in the reward denom

  Only messages *sent by* the reward contract can lower its bank balance (`handle_bank_ge`); it
  emits them at the front of the queue, so none is pending when the next index update records the
  bank balance. -/

/-- reward-denom coins message `m` takes out of the reward contract's account -/
def outflow (rd : Denom) : Msg → Nat
  | .bankSend src _ d amt => if src = rewardA ∧ d = rd then amt else 0
  | .wasm s _ _ f => if s = rewardA then fundsOf rd f else 0
  | _ => 0

def outflowAll (rd : Denom) (q : List Msg) : Nat := (q.map (outflow rd)).sum

/-- what the reward contract, and the swap stub answering it, put in the queue -/
def isRw : Msg → Bool
  | .bankSend src _ _ _ => src == rewardA || src == swapA
  | .wasm s _ (.swapDenom _ _ _ _) _ => s == rewardA
  | _ => false

theorem outflowAll_append (rd : Denom) (x y : List Msg) :
    outflowAll rd (x ++ y) = outflowAll rd x + outflowAll rd y := by simp [outflowAll]

theorem outflow_not_from (rd : Denom) (m : Msg) (h : m.sentFrom ≠ rewardA) : outflow rd m = 0 := by
  cases m <;> simp_all [outflow, Msg.sentFrom]

theorem outflowAll_not_from (rd : Denom) (q : List Msg) (h : ∀ x ∈ q, x.sentFrom ≠ rewardA) :
    outflowAll rd q = 0 := by
  induction q with
  | nil => rfl
  | cons m ms ih =>
    have := outflow_not_from rd m (h m (List.mem_cons_self ..))
    have r := ih (fun x hx => h x (List.mem_cons_of_mem _ hx))
    simp only [outflowAll, List.map_cons, List.sum_cons] at r ⊢
    omega

/-- **One reward-contract message, on the funds.** If the recorded balance is covered by the bank
    balance `bb` the handler sees, then after any accepted message everything it emits is of the
    expected shape and  recorded' + reward coins it sends out ≤ bb. -/
theorem reward_fund_step (r r' : RewardSt) (tok dsp : Res Addr) (bb : Denom → Nat) (sender : Addr)
    (m : RewMsg) (ms : List Msg) (hns : m ≠ .swapToRewardDenom)
    (hB : r.prevRewardBalance ≤ bb r.rewardDenom)
    (hx : rewardExec r rewardA tok dsp bb sender m = .ok (r', ms)) :
    (∀ x ∈ ms, isRw x = true) ∧ r'.prevRewardBalance + outflowAll r.rewardDenom ms ≤ bb r.rewardDenom := by
  cases m with
  | claim rcp =>
    simp only [rewardExec] at hx; exc_norm at hx; exc_split at hx
    rename_i hlt
    refine ⟨fun x hx' => ?_, ?_⟩
    · simp only [List.mem_cons, List.mem_nil_iff, or_false] at hx'; subst hx'; simp [isRw]
    · simp only [outflowAll, List.map_cons, List.map_nil, List.sum_cons, List.sum_nil, outflow, and_self, if_true,
        RewardSt.setHolder]
      omega
  | swapToRewardDenom => exact absurd rfl hns
  | updateGlobalIndex =>
    simp only [rewardExec] at hx; exc_norm at hx; exc_split at hx
    · exact ⟨(fun _ h => by cases h), by simpa [outflowAll] using hB⟩
    · exact ⟨(fun _ h => by cases h), by simp [outflowAll]⟩
  | increase a amt =>
    simp only [rewardExec] at hx; exc_norm at hx; exc_split at hx
    exact ⟨(fun _ h => by cases h), by simpa [outflowAll, RewardSt.setHolder] using hB⟩
  | decrease a amt =>
    simp only [rewardExec] at hx; exc_norm at hx; exc_split at hx
    exact ⟨(fun _ h => by cases h), by simpa [outflowAll, RewardSt.setHolder] using hB⟩
  | updateConfig a b c =>
    simp only [rewardExec] at hx; exc_norm at hx; exc_split at hx
    exact ⟨(fun _ h => by cases h), by simpa [outflowAll] using hB⟩
  | setOwner a =>
    simp only [rewardExec] at hx; exc_norm at hx; exc_split at hx
    exact ⟨(fun _ h => by cases h), by simpa [outflowAll] using hB⟩
  | acceptOwnership =>
    simp only [rewardExec] at hx; exc_norm at hx; exc_split at hx
    exact ⟨(fun _ h => by cases h), by simpa [outflowAll] using hB⟩
  | updateSwapDenom d add =>
    simp only [rewardExec] at hx; exc_norm at hx; exc_split at hx
    all_goals exact ⟨(fun _ h => by cases h), by simpa [outflowAll] using hB⟩

/-- everything carried from message to message; `o` = (owner, nominee) of the reward contract,
    `rd` its reward denom -/
structure FundInv (o : Addr × Addr) (rd : Denom) (s : Sys) (q : List Msg) : Prop where
  owner : s.reward.owner = o.1
  nominee : s.reward.newOwner = o.2
  ext1 : External o.1
  ext2 : External o.2
  denom : s.reward.rewardDenom = rd
  noSwap : ∀ m ∈ q, isRwSwap m = false
  senders : ∀ m ∈ q, ∀ a b c d, m = .wasm a b c d → a ≠ o.1 ∧ a ≠ o.2
  split : ∃ A rest, q = A ++ rest ∧ (∀ x ∈ A, isRw x = true) ∧ (∀ x ∈ rest, x.sentFrom ≠ rewardA) ∧
    s.reward.prevRewardBalance + outflowAll rd A ≤ s.chain.bank rewardA rd

theorem FundInv.drained {o : Addr × Addr} {rd : Denom} {s : Sys} (h : FundInv o rd s []) :
    s.reward.prevRewardBalance ≤ s.chain.bank rewardA s.reward.rewardDenom := by
  obtain ⟨A, rest, hq, _, _, hle⟩ := h.split
  have : A = [] := by
    cases A with
    | nil => rfl
    | cons p t => simp only [List.cons_append] at hq; cases hq
  subst this
  rw [h.denom]
  simpa [outflowAll] using hle

theorem internal_ne_ext {a x : Addr} (ha : a ∈ internal) (hx : External x) : a ≠ x :=
  fun h => hx (h ▸ ha)

theorem FundInv.step (o : Addr × Addr) (rd : Denom) (s s' : Sys) (m : Msg) (rest0 subs : List Msg)
    (inv : FundInv o rd s (m :: rest0)) (hx : s.handle m = .ok (s', subs)) :
    FundInv o rd s' (subs ++ rest0) := by
  obtain ⟨A, rest, hq, hA, hrest, hle⟩ := inv.split
  have sent := handle_sentBy s s' m subs hx
  have hsnd := inv.senders m (List.mem_cons_self ..)
  have restSenders : ∀ x ∈ rest0, ∀ a b c d, x = .wasm a b c d → a ≠ o.1 ∧ a ≠ o.2 :=
    fun x hx' => inv.senders x (List.mem_cons_of_mem _ hx')
  -- senders of what is emitted: the handling contract, an internal address
  have subSenders : ∀ x ∈ subs, ∀ a b c d, x = .wasm a b c d → a ≠ o.1 ∧ a ≠ o.2 := by
    intro x hx' a b c d hxe
    cases m with
    | wasm a0 b0 c0 d0 =>
      have hb := (sent.1 a0 b0 c0 d0 rfl) x hx'
      rw [hxe] at hb
      have hin : b0 ∈ internal := by
        cases handle_touch s s' _ subs hx with
        | none _ hm _ _ =>
          rcases hm with hm | ⟨_, _, _, _, heq, ht⟩
          · exact absurd rfl (hm _ _ _ _)
          · injection heq with _ e2 _ _; subst e2
            rcases ht with ht | ht <;> simp [ht, internal]
        | hub _ _ _ _ heq _ _ _ _ _ _ _ _ _ => injection heq with _ e2 _ _; simp [e2, internal]
        | bsei _ _ _ _ heq _ _ _ _ _ _ _ => injection heq with _ e2 _ _; simp [e2, internal]
        | stsei _ _ _ _ heq _ _ _ _ _ _ => injection heq with _ e2 _ _; simp [e2, internal]
        | reward _ _ _ _ heq _ _ _ _ _ _ _ _ _ => injection heq with _ e2 _ _; simp [e2, internal]
        | disp _ _ _ _ heq _ _ _ _ _ _ _ _ => injection heq with _ e2 _ _; simp [e2, internal]
        | reg _ _ _ _ heq _ _ _ _ _ _ _ _ _ => injection heq with _ e2 _ _; simp [e2, internal]
      have ha : a = b0 := hb
      rw [ha]
      exact ⟨internal_ne_ext hin inv.ext1, internal_ne_ext hin inv.ext2⟩
    | _ =>
      have := sent.2 (fun _ _ _ _ h => by cases h)
      rw [this] at hx'; cases hx'
  have allSenders : ∀ x ∈ subs ++ rest0, ∀ a b c d, x = .wasm a b c d → a ≠ o.1 ∧ a ≠ o.2 := by
    intro x hx' a b c d hxe
    rcases List.mem_append.mp hx' with h | h
    · exact subSenders x h a b c d hxe
    · exact restSenders x h a b c d hxe
  have allNoSwap : ∀ x ∈ subs ++ rest0, isRwSwap x = false := by
    intro x hx'
    rcases List.mem_append.mp hx' with h | h
    · exact handle_noSwap s s' m subs hx x h
    · exact inv.noSwap x (List.mem_cons_of_mem _ h)
  -- the reward contract's configuration: untouched unless its owner / nominee sent the message
  have cfg : s'.reward.owner = s.reward.owner ∧ s'.reward.newOwner = s.reward.newOwner ∧
      s'.reward.rewardDenom = s.reward.rewardDenom ∧ s'.reward.swapDenoms = s.reward.swapDenoms := by
    cases handle_touch s s' m subs hx with
    | none h _ _ _ => rw [h.reward]; exact ⟨rfl, rfl, rfl, rfl⟩
    | hub _ _ _ _ _ _ _ _ _ _ _ r _ _ => rw [r]; exact ⟨rfl, rfl, rfl, rfl⟩
    | bsei _ _ _ _ _ _ _ _ _ r _ _ => rw [r]; exact ⟨rfl, rfl, rfl, rfl⟩
    | stsei _ _ _ _ _ _ _ _ r _ _ => rw [r]; exact ⟨rfl, rfl, rfl, rfl⟩
    | disp _ _ _ _ _ _ _ _ _ _ _ r _ => rw [r]; exact ⟨rfl, rfl, rfl, rfl⟩
    | reg _ _ _ _ _ _ _ _ _ _ _ _ r _ => rw [r]; exact ⟨rfl, rfl, rfl, rfl⟩
    | reward s1 sender funds rm heq h1 _ _ hx' _ _ _ _ _ =>
      have hs := hsnd _ _ _ _ heq
      have c1 := rewardExec_config _ _ _ _ _ _ _ _ _ hx'
      have c2 := rewardExec_config2 _ _ _ _ _ _ _ _ _ hx'
      rcases c1 with c1 | c1 | c1
      · rcases c2 with c2 | c2
        · exact ⟨c1.2.1, c1.2.2, c2.1, c2.2.1⟩
        · exact absurd (c2.trans inv.owner) hs.1
      · exact absurd (c1.trans inv.owner) hs.1
      · exact absurd (c1.trans inv.nominee) hs.2
  have base : ∀ (A' rest' : List Msg), subs ++ rest0 = A' ++ rest' → (∀ x ∈ A', isRw x = true) →
      (∀ x ∈ rest', x.sentFrom ≠ rewardA) →
      s'.reward.prevRewardBalance + outflowAll rd A' ≤ s'.chain.bank rewardA rd →
      FundInv o rd s' (subs ++ rest0) :=
    fun A' rest' e1 e2 e3 e4 => ⟨cfg.1.trans inv.owner, cfg.2.1.trans inv.nominee, inv.ext1, inv.ext2,
      cfg.2.2.1.trans inv.denom, allNoSwap, allSenders, A', rest', e1, e2, e3, e4⟩
  cases A with
  | cons p A' =>
    -- the head is one of the reward contract's own pending messages (or the stub's answer)
    simp only [List.cons_append] at hq
    injection hq with h1 h2
    subst h1
    have hm := hA m (List.mem_cons_self ..)
    have hA' : ∀ x ∈ A', isRw x = true := fun x hx' => hA x (List.mem_cons_of_mem _ hx')
    simp only [outflowAll, List.map_cons, List.sum_cons] at hle
    cases m with
    | bankSend src dst d amt =>
      have hsub : subs = [] := sent.2 (fun _ _ _ _ h => by cases h)
      have hrw : s'.reward = s.reward := by
        cases handle_touch s s' _ subs hx with
        | none h _ _ _ => exact h.reward
        | hub _ _ _ _ heq _ _ _ _ _ _ _ _ _ => cases heq
        | bsei _ _ _ _ heq _ _ _ _ _ _ _ => cases heq
        | stsei _ _ _ _ heq _ _ _ _ _ _ => cases heq
        | reward _ _ _ _ heq _ _ _ _ _ _ _ _ _ => cases heq
        | disp _ _ _ _ heq _ _ _ _ _ _ _ _ => cases heq
        | reg _ _ _ _ heq _ _ _ _ _ _ _ _ _ => cases heq
      subst hsub
      refine base A' rest (by simp [h2]) hA' hrest ?_
      rw [hrw]
      by_cases hs : src = rewardA
      · subst hs
        by_cases hd : d = rd
        · subst hd
          have := (handle_bank_out s s' _ [] hx rewardA d).1 dst amt rfl
          simp only [outflow, and_self, if_true] at hle
          simp only [outflowAll] at hle ⊢; omega
        · have := (handle_bank_out s s' _ [] hx rewardA rd).2.1 dst d amt rfl hd
          simp only [outflow, hd, and_false, if_false] at hle
          simp only [outflowAll] at hle ⊢; omega
      · have := handle_bank_ge s s' _ [] hx rewardA rd (by simpa [Msg.sentFrom] using hs)
        simp only [outflow, hs, false_and, if_false] at hle
        simp only [outflowAll] at hle ⊢; omega
    | wasm a b c d =>
      cases c with
      | swapDenom sd amt dd to =>
        have ha : a = rewardA := by simpa [isRw] using hm
        subst ha
        cases handle_touch s s' _ subs hx with
        | none h _ hs hb =>
          have out := (handle_bank_out s s' _ subs hx rewardA rd).2.2 b _ d rfl
          have hsubRw : ∀ x ∈ subs, isRw x = true := by
            intro x hx'
            obtain ⟨t, dn, am, he⟩ := hb x hx'
            subst he; simp [isRw]
          have hsub0 : outflowAll rd subs = 0 :=
            outflowAll_not_from rd subs (fun x hx' => by rw [hs x hx']; decide)
          refine base (subs ++ A') rest (by rw [h2, List.append_assoc]) ?_ hrest ?_
          · intro x hx'
            rcases List.mem_append.mp hx' with h' | h'
            · exact hsubRw x h'
            · exact hA' x h'
          · rw [h.reward, outflowAll_append, hsub0]
            simp only [outflow, if_true] at hle
            simp only [outflowAll] at hle ⊢; omega
        | hub _ _ _ _ heq _ _ _ _ _ _ _ _ _ => injection heq with _ _ e3 _; cases e3
        | bsei _ _ _ _ heq _ _ _ _ _ _ _ => injection heq with _ _ e3 _; cases e3
        | stsei _ _ _ _ heq _ _ _ _ _ _ => injection heq with _ _ e3 _; cases e3
        | reward _ _ _ _ heq _ _ _ _ _ _ _ _ _ => injection heq with _ _ e3 _; cases e3
        | disp _ _ _ _ heq _ _ _ _ _ _ _ _ => injection heq with _ _ e3 _; cases e3
        | reg _ _ _ _ heq _ _ _ _ _ _ _ _ _ => injection heq with _ _ e3 _; cases e3
      | _ => simp [isRw] at hm
    | _ => simp [isRw] at hm
  | nil =>
    -- nothing of the reward contract's is pending
    simp only [List.nil_append] at hq
    have hmr : m.sentFrom ≠ rewardA := hrest m (by rw [← hq]; exact List.mem_cons_self ..)
    have hr0 : ∀ x ∈ rest0, x.sentFrom ≠ rewardA := fun x hx' => hrest x (by rw [← hq]; exact List.mem_cons_of_mem _ hx')
    have hB : s.reward.prevRewardBalance ≤ s.chain.bank rewardA rd := by simpa [outflowAll] using hle
    have bank' := handle_bank_ge s s' m subs hx rewardA rd hmr
    -- generic conclusion: reward contract untouched, emitted messages not from it
    have other : s'.reward = s.reward → (∀ x ∈ subs, x.sentFrom ≠ rewardA) → FundInv o rd s' (subs ++ rest0) := by
      intro hrw hsub
      refine base [] (subs ++ rest0) rfl (fun _ h => by cases h) ?_ ?_
      · intro x hx'
        rcases List.mem_append.mp hx' with h | h
        · exact hsub x h
        · exact hr0 x h
      · rw [hrw]; simp only [outflowAll, List.map_nil, List.sum_nil, Nat.add_zero]; omega
    cases handle_touch s s' m subs hx with
    | none h hm' hs _ => exact other h.reward (fun x hx' => by rw [hs x hx']; decide)
    | hub s1 sender funds hm' heq _ _ _ _ _ _ r _ _ =>
      exact other r (fun x hx' => by rw [(sent.1 _ _ _ _ heq) x hx']; decide)
    | bsei s1 sender funds tm heq _ _ _ _ r _ _ =>
      exact other r (fun x hx' => by rw [(sent.1 _ _ _ _ heq) x hx']; decide)
    | stsei blk sender funds tm heq _ _ _ r _ _ =>
      exact other r (fun x hx' => by rw [(sent.1 _ _ _ _ heq) x hx']; decide)
    | disp env sender funds dm heq _ _ _ _ _ _ r _ =>
      exact other r (fun x hx' => by rw [(sent.1 _ _ _ _ heq) x hx']; decide)
    | reg s1 sender funds rm heq _ _ _ _ _ _ _ r _ =>
      exact other r (fun x hx' => by rw [(sent.1 _ _ _ _ heq) x hx']; decide)
    | reward s1 sender funds rm heq h1 hmv hch hx' _ _ _ _ _ =>
      -- the handler sees the bank balance after the attached funds arrived
      have hs1 : s1.chain.bank rewardA rd ≥ s.chain.bank rewardA rd := by
        have := moveFunds_bank sender rewardA funds s s1 hmv rewardA rd
        have hne : ¬ rewardA = sender := by
          intro h; apply hmr; rw [heq]; exact h.symm
        simp only [hne, if_false] at this; omega
      have hnsw : rm ≠ .swapToRewardDenom := by
        intro h
        have := inv.noSwap m (List.mem_cons_self ..)
        rw [heq, h] at this; cases this
      have step := reward_fund_step s.reward s'.reward _ _ _ sender rm subs
        hnsw (by rw [inv.denom]; exact Nat.le_trans hB hs1) hx'
      refine base subs rest0 rfl step.1 hr0 ?_
      rw [inv.denom] at step
      rw [hch]; exact step.2

theorem env_bank_ge (s : Sys) (e : EnvOp) (a : Addr) (d : Denom) (ha : a ≠ hubA) :
    (s.env e).chain.bank a d ≥ s.chain.bank a d := by
  cases e with
  | advance dt => simp [Sys.env, Sys.setBank, upd, ha]
  | slash v n dd => simp only [Sys.env]; split <;> exact Nat.le_refl _
  | slashUnbonding v n dd => simp only [Sys.env]; split <;> exact Nat.le_refl _
  | donate x dd amt =>
    simp only [Sys.env, Sys.setBank, upd]
    by_cases h1 : a = x <;> by_cases h2 : d = dd <;> simp_all
  | _ => exact Nat.le_refl _

/-- a history step allowed under E3 for this theorem: an environment event, or a top-level contract
    call by an outside account that is neither the reward contract's owner nor its nominee -/
def RewQuiet (o : Addr × Addr) : Step → Prop
  | .env _ => True
  | .tx m => ∃ a b c d, m = .wasm a b c d ∧ External a ∧ a ≠ o.1 ∧ a ≠ o.2 ∧ isRwSwap m = false

/-- **Every reachable state: the recorded reward balance is in the bank.** From any state in which
    the reward contract's recorded balance is covered by its bank balance in the reward denom (owner
    and nominee outside accounts), after any history of any length of outside, non-owner transactions with any
    environment events interleaved, it still is. With `C14_reachable` (Σ owed ≤ recorded balance)
    this is: what holders can claim is always really there. -/
theorem C14_funded (s : Sys) (l : List Step)
    (e1 : External s.reward.owner) (e2 : External s.reward.newOwner)
    (hB : s.reward.prevRewardBalance ≤ s.chain.bank rewardA s.reward.rewardDenom)
    (hq : ∀ st ∈ l, RewQuiet (s.reward.owner, s.reward.newOwner) st) :
    (s.steps l).reward.prevRewardBalance ≤ (s.steps l).chain.bank rewardA (s.steps l).reward.rewardDenom := by
  have key : ∀ (l : List Step) (x : Sys),
      FundInv (s.reward.owner, s.reward.newOwner) s.reward.rewardDenom x [] →
      (∀ st ∈ l, RewQuiet (s.reward.owner, s.reward.newOwner) st) →
      FundInv (s.reward.owner, s.reward.newOwner) s.reward.rewardDenom (x.steps l) [] := by
    intro l
    induction l with
    | nil => intro x hx _; exact hx
    | cons st rest ih =>
      intro x inv hq'
      show FundInv _ _ ((x.step st).steps rest) []
      apply ih _ _ (fun st' h' => hq' st' (List.mem_cons_of_mem _ h'))
      have hst := hq' st (List.mem_cons_self ..)
      obtain ⟨A, rest', hq0, _, _, hle⟩ := inv.split
      have hA : A = [] := by
        cases A with
        | nil => rfl
        | cons p t => simp only [List.cons_append] at hq0; cases hq0
      subst hA
      have hB' : x.reward.prevRewardBalance ≤ x.chain.bank rewardA s.reward.rewardDenom := by
        simpa [outflowAll] using hle
      cases st with
      | env e =>
        show FundInv _ _ (x.env e) []
        have bge := env_bank_ge x e rewardA s.reward.rewardDenom (by decide)
        have rsame : (x.env e).reward = x.reward := by
          cases e with
          | seedLegacy u b a => rfl
          | slash v n d => simp only [Sys.env]; split <;> rfl
          | slashUnbonding v n d => simp only [Sys.env]; split <;> rfl
          | _ => rfl
        exact ⟨by rw [rsame]; exact inv.owner, by rw [rsame]; exact inv.nominee, inv.ext1, inv.ext2,
          by rw [rsame]; exact inv.denom, (fun _ h => by cases h), (fun _ h => by cases h),
          [], [], rfl, (fun _ h => by cases h), (fun _ h => by cases h),
          by rw [rsame]; simp only [outflowAll, List.map_nil, List.sum_nil, Nat.add_zero]; omega⟩
      | tx m =>
        obtain ⟨a, b, c, d, hm', hext, hn1, hn2, hnsw⟩ := hst
        show FundInv _ _ (x.exec m).1 []
        unfold Sys.exec
        split
        · rename_i x' hrun
          refine run_inv2 (FundInv _ _) (fun s0 m0 rest0 s1 subs0 => FundInv.step _ _ s0 s1 m0 rest0 subs0)
            400 x [m] x' ?_ hrun
          refine ⟨inv.owner, inv.nominee, inv.ext1, inv.ext2, inv.denom,
            (by intro x0 hx0; simp only [List.mem_cons, List.mem_nil_iff, or_false] at hx0; subst hx0; exact hnsw), ?_, [], [m], rfl,
            (fun _ h => by cases h), ?_, by simpa [outflowAll] using hB'⟩
          · intro m1 hm1 a1 b1 c1 d1 he1
            simp only [List.mem_cons, List.mem_nil_iff, or_false] at hm1
            subst hm1
            rw [hm'] at he1; injection he1 with e1' _ _ _
            rw [← e1']; exact ⟨hn1, hn2⟩
          · intro x0 hx0
            simp only [List.mem_cons, List.mem_nil_iff, or_false] at hx0
            subst hx0
            rw [hm']
            intro h
            apply hext
            have : a = rewardA := h
            rw [this]; simp [internal]
        · exact inv
  have fin := key l s ⟨rfl, rfl, e1, e2, rfl, (fun _ h => by cases h), (fun _ h => by cases h), [], [], rfl,
    (fun _ h => by cases h), (fun _ h => by cases h), by simpa [outflowAll] using hB⟩ hq
  exact fin.drained

/-- Non-vacuity: the genesis state of the corpus meets the premises. -/
example : External genesisSys.reward.owner ∧ External genesisSys.reward.newOwner ∧
    genesisSys.reward.prevRewardBalance ≤ genesisSys.chain.bank rewardA genesisSys.reward.rewardDenom := by
  refine ⟨?_, ?_, ?_⟩ <;> (try unfold External) <;> decide

/-- **ClaimRewards never fails for lack of funds — as a whole transaction.** In any state where
    the reward contract's invariant holds and its recorded balance is in the bank (every reachable
    state: `C14_reachable`, `C14_funded`), a holder who is owed at least one whole unit claims
    successfully: the handler accepts, the bank transfer it emits goes through, and exactly
    floor(owed) of the reward denom reaches the holder. -/
theorem C14_claim_tx_succeeds (s : Sys) (sender : Addr) (inv : s.reward.Inv)
    (hB : s.reward.prevRewardBalance ≤ s.chain.bank rewardA s.reward.rewardDenom)
    (hpos : D ≤ s.reward.owed sender) :
    ∃ s', s.exec (.wasm sender rewardA (.reward (.claim none)) []) = (s', .ok ()) ∧
      s'.chain.bank sender s.reward.rewardDenom + (if sender = rewardA then s.reward.owed sender / D else 0) =
        s.chain.bank sender s.reward.rewardDenom + s.reward.owed sender / D := by
  obtain ⟨r', hcl, _, hprev, _⟩ := C14_claim_pays s.reward rewardA (s.hubTokenOf s.reward.hub)
    (s.hubDispatcherOf s.reward.hub) (s.chain.bank rewardA) sender none inv hpos
  have hq : 0 < s.reward.owed sender / D := Nat.div_pos hpos D_pos
  have h1 : s.handle (.wasm sender rewardA (.reward (.claim none)) []) =
      .ok ({ s with reward := r' }, [Msg.bankSend rewardA sender s.reward.rewardDenom (s.reward.owed sender / D)]) := by
    simp only [Sys.handle, Sys.moveFunds, bind, Except.bind, pure, Except.pure]
    rw [if_neg (by decide), if_neg (by decide), if_neg (by decide), if_pos trivial]
    simp only [hcl, Option.getD]
  -- the transfer the claim emits
  obtain ⟨s1, hs1⟩ : ∃ x : Sys, x = { s with reward := r' } := ⟨_, rfl⟩
  rw [← hs1] at h1
  have hch : s1.chain = s.chain := by rw [hs1]
  have hbank : ¬ s1.chain.bank rewardA s.reward.rewardDenom < s.reward.owed sender / D := by
    rw [hch]; omega
  obtain ⟨s2, hs2⟩ : ∃ x : Sys, x = (s1.setBank rewardA s.reward.rewardDenom
      (s1.chain.bank rewardA s.reward.rewardDenom - s.reward.owed sender / D)).setBank sender s.reward.rewardDenom
      ((s1.setBank rewardA s.reward.rewardDenom
        (s1.chain.bank rewardA s.reward.rewardDenom - s.reward.owed sender / D)).chain.bank
          sender s.reward.rewardDenom + s.reward.owed sender / D) := ⟨_, rfl⟩
  have h2 : s1.handle (Msg.bankSend rewardA sender s.reward.rewardDenom (s.reward.owed sender / D)) = .ok (s2, []) := by
    simp only [Sys.handle, Sys.bankMove, bind, Except.bind, pure, Except.pure]
    rw [if_neg (by omega), if_neg hbank, hs2]
  refine ⟨s2, ?_, ?_⟩
  · unfold Sys.exec
    simp only [Sys.run, h1, List.nil_append, List.append_nil, h2]
  · rw [hs2]
    simp only [Sys.setBank, upd, hch]
    by_cases hs : sender = rewardA
    · subst hs; simp; omega
    · have : ¬ rewardA = sender := fun h => hs h.symm
      simp [hs, this]

end Krp
