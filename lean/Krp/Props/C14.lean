/-
  C14 — bSei reward pool is solvent and complete.

  `owed r a` = (global_index − index_a)·balance_a + pending_a  (atomics, exact because balances
  are integers).  Invariant `RewardSt.Inv`: Σ_holders owed ≤ prev_reward_balance·10^18, the holder
  balances sum to total_balance, no holder index is ahead of the global index.
  Property theorems only; lemmas in Krp/Lemmas/Reward.lean.
-/
import Krp.Lemmas.Reward
import Krp.Init
import Krp.Lemmas.Reach
namespace Krp
open RewardSt

/-- a freshly instantiated reward contract satisfies the invariant -/
theorem C14_inv_init (sender hub : Addr) (denom : Denom) (swap : Addr) (ds : List Denom) :
    (rewardInit sender hub denom swap ds).Inv := by
  constructor <;> simp [rewardInit, owed]

private theorem update_sum (r : RewardSt) (h : r.Inv) (k : Nat) :
    sumOn r.holders (fun a => (r.globalIndex + k - r.hIdx a) * r.hBal a + r.hPend a) =
      sumOn r.holders r.owed + k * r.totalBalance := by
  rw [← h.total, Nat.mul_comm k, ← sumOn_mul_right, ← sumOn_add]
  apply sumOn_congr
  intro a _
  have := h.idxLe a
  simp only [owed]
  rw [show r.globalIndex + k - r.hIdx a = (r.globalIndex - r.hIdx a) + k by omega, Nat.add_mul,
    Nat.mul_comm k]
  omega

/-- every successful message of every sender keeps the invariant: the sum of what holders are owed
    never exceeds the recorded reward balance, whatever the interleaving of index updates, mints,
    burns, transfers (increase/decrease) and claims. -/
theorem C14_inv_step (r r' : RewardSt) (self : Addr) (tk dp : Res Addr) (bb : Denom → Nat)
    (sender : Addr) (m : RewMsg) (ms : List Msg) (h : r.Inv)
    (hx : rewardExec r self tk dp bb sender m = .ok (r', ms)) : r'.Inv := by
  cases m with
  | claim rc =>
    simp only [rewardExec, accrual_ok r h] at hx
    exc_norm at hx
    exc_split at hx
    rename_i hq hlt
    exact claim_inv r h sender (by simp only [owed]; omega)
  | updateConfig a b c =>
    simp only [rewardExec] at hx; exc_norm at hx; exc_split at hx
    exact ⟨h.nodup, h.zero, h.idxLe, h.total, h.solvent⟩
  | setOwner a =>
    simp only [rewardExec] at hx; exc_norm at hx; exc_split at hx
    exact ⟨h.nodup, h.zero, h.idxLe, h.total, h.solvent⟩
  | acceptOwnership =>
    simp only [rewardExec] at hx; exc_norm at hx; exc_split at hx
    exact ⟨h.nodup, h.zero, h.idxLe, h.total, h.solvent⟩
  | swapToRewardDenom =>
    simp only [rewardExec] at hx; exc_norm at hx; exc_split at hx
    exact h
  | updateGlobalIndex =>
    simp only [rewardExec] at hx; exc_norm at hx; exc_split at hx
    · exact h
    · rename_i hle
      refine ⟨h.nodup, h.zero, fun a => Nat.le_trans (h.idxLe a) (Nat.le_add_right _ _), h.total, ?_⟩
      show sumOn r.holders (fun a => (r.globalIndex + fromRatio (bb r.rewardDenom - r.prevRewardBalance) r.totalBalance - r.hIdx a) * r.hBal a + r.hPend a) ≤ bb r.rewardDenom * D
      rw [update_sum r h]
      have hs := h.solvent
      have : fromRatio (bb r.rewardDenom - r.prevRewardBalance) r.totalBalance * r.totalBalance
          ≤ (bb r.rewardDenom - r.prevRewardBalance) * D := Nat.div_mul_le_self _ _
      have : bb r.rewardDenom * D = r.prevRewardBalance * D + (bb r.rewardDenom - r.prevRewardBalance) * D := by
        rw [← Nat.add_mul]; congr 1; omega
      omega
  | increase a amt =>
    simp only [rewardExec, accrual_ok r h] at hx
    exc_norm at hx; exc_split at hx
    exact settle_inv r h a (r.hBal a + amt) (r.totalBalance + amt) (by omega)
  | decrease a amt =>
    simp only [rewardExec, accrual_ok r h] at hx
    exc_norm at hx; exc_split at hx
    exact settle_inv r h a (r.hBal a - amt) (r.totalBalance - amt) (by omega)
  | updateSwapDenom d add =>
    simp only [rewardExec] at hx; exc_norm at hx; exc_split at hx
    all_goals exact ⟨h.nodup, h.zero, h.idxLe, h.total, h.solvent⟩

/-- ClaimRewards never fails for lack of funds: whenever the caller is owed at least one whole
    unit the claim succeeds, pays exactly the whole-unit part to the recipient, keeps the fraction,
    and lowers the recorded balance by exactly what it pays. -/
theorem C14_claim_pays (r : RewardSt) (self : Addr) (tk dp : Res Addr) (bb : Denom → Nat)
    (sender : Addr) (rc : Option Addr) (h : r.Inv) (hpos : D ≤ r.owed sender) :
    ∃ r', rewardExec r self tk dp bb sender (.claim rc) =
        .ok (r', [Msg.bankSend self (rc.getD sender) r.rewardDenom (r.owed sender / D)]) ∧
      r'.hPend sender = r.owed sender % D ∧
      r'.prevRewardBalance + r.owed sender / D = r.prevRewardBalance ∧
      r'.hBal sender = r.hBal sender := by
  have hsum := owed_le_sum r h sender
  have hsol := h.solvent
  have hq : 0 < r.owed sender / D := Nat.div_pos hpos D_pos
  have hle : r.owed sender / D ≤ r.prevRewardBalance := by
    have : r.owed sender / D * D ≤ r.owed sender := Nat.div_mul_le_self _ _
    exact Nat.le_of_mul_le_mul_right (by omega) D_pos
  simp only [rewardExec, accrual_ok r h]
  simp only [bind, Except.bind, pure, Except.pure, throw, throwThe, MonadExceptOf.throw, owed] at *
  rw [if_neg (by omega), if_neg (by omega)]
  refine ⟨_, rfl, ?_, ?_, ?_⟩
  · simp [setHolder]
  · simp only [setHolder]; omega
  · simp [setHolder]

/-- a claim worth less than one unit is refused and changes nothing (the fraction stays) -/
theorem C14_claim_below_unit (r : RewardSt) (self : Addr) (tk dp : Res Addr) (bb : Denom → Nat)
    (sender : Addr) (rc : Option Addr) (h : r.Inv) (hlt : r.owed sender < D) :
    ∃ e, rewardExec r self tk dp bb sender (.claim rc) = .error e := by
  simp only [rewardExec, accrual_ok r h, owed] at *
  simp only [bind, Except.bind, pure, Except.pure, throw, throwThe, MonadExceptOf.throw]
  rw [if_pos (Nat.div_eq_of_lt hlt)]
  exact ⟨_, rfl⟩

/-- an index update records exactly the contract's bank balance, so the recorded balance never
    exceeds the actual one; with no holders it records nothing and loses nothing -/
theorem C14_update_records_bank (r r' : RewardSt) (self : Addr) (tk dp : Res Addr) (bb : Denom → Nat)
    (sender : Addr) (ms : List Msg)
    (hx : rewardExec r self tk dp bb sender .updateGlobalIndex = .ok (r', ms)) :
    ms = [] ∧ ((r.totalBalance = 0 ∧ r' = r) ∨
      (r.totalBalance ≠ 0 ∧ r'.prevRewardBalance = bb r.rewardDenom ∧ r.prevRewardBalance ≤ bb r.rewardDenom)) := by
  simp only [rewardExec] at hx; exc_norm at hx; exc_split at hx
  · rename_i hz; exact ⟨rfl, Or.inl ⟨hz, rfl⟩⟩
  · rename_i hz hle; exact ⟨rfl, Or.inr ⟨hz, rfl, by omega⟩⟩

/-- completeness: an index update strands less than `total_balance` atomics (below one base unit
    inside the envelope, where total_balance ≤ 10^18) -/
theorem C14_update_dust (r r' : RewardSt) (self : Addr) (tk dp : Res Addr) (bb : Denom → Nat)
    (sender : Addr) (ms : List Msg) (h : r.Inv)
    (hx : rewardExec r self tk dp bb sender .updateGlobalIndex = .ok (r', ms)) :
    r'.prevRewardBalance * D + sumOn r.holders r.owed <
      sumOn r'.holders r'.owed + r.prevRewardBalance * D + r.totalBalance + 1 := by
  simp only [rewardExec] at hx; exc_norm at hx; exc_split at hx
  · omega
  · rename_i hz hle
    show bb r.rewardDenom * D + sumOn r.holders r.owed <
      sumOn r.holders (fun a => (r.globalIndex + fromRatio (bb r.rewardDenom - r.prevRewardBalance) r.totalBalance - r.hIdx a) * r.hBal a + r.hPend a) + r.prevRewardBalance * D + r.totalBalance + 1
    rw [update_sum r h]
    have hpos : 0 < r.totalBalance := Nat.pos_of_ne_zero hz
    have hlt := Nat.lt_div_mul_add (a := (bb r.rewardDenom - r.prevRewardBalance) * D) hpos
    have : bb r.rewardDenom * D = r.prevRewardBalance * D + (bb r.rewardDenom - r.prevRewardBalance) * D := by
      rw [← Nat.add_mul]; congr 1; omega
    unfold fromRatio
    omega

/-! Non-vacuity: a concrete state satisfying the invariant with a claimable holder. -/
def c14Example : RewardSt :=
  { owner := 1, newOwner := 1, hub := 100, rewardDenom := 1, swapContract := 106, swapDenoms := [],
    globalIndex := 2 * D, totalBalance := 3, prevRewardBalance := 6,
    hBal := upd (fun _ => 0) 5 3, hIdx := fun _ => 0, hPend := fun _ => 0, holders := [5] }

example : c14Example.Inv ∧ D ≤ c14Example.owed 5 := by
  refine ⟨⟨?_, ?_, ?_, ?_, ?_⟩, ?_⟩ <;> simp [c14Example, owed, upd, sumOn, D]

/-- **Every reachable state.** From any state in which the reward contract's invariant holds (the
    instantiated contract: `C14_inv_init`), after any history of the composed system — token
    transfers, mints and burns mirrored by the bSei token, index updates through the dispatcher,
    claims, failed transactions, anything else — the sum of what all holders are owed never exceeds
    the recorded reward balance, the recorded total equals the sum of mirrored balances, and no
    holder's checkpoint is ahead of the global index. -/
theorem C14_reachable (s : Sys) (l : List Step) (h : s.reward.Inv) : (s.steps l).reward.Inv := by
  exact steps_inv (fun x => x.reward.Inv)
    (by
      intro x m x' ms hp hx
      cases handle_touch x x' m ms hx with
      | none h _ _ _ => rw [h.reward]; exact hp
      | hub s1 sender funds hm _ _ _ hx' b t r d g => rw [r]; exact hp
      | bsei s1 sender funds tm _ _ hx' h t r d g => rw [r]; exact hp
      | stsei blk sender funds tm _ hx' h b r d g => rw [r]; exact hp
      | reward s1 sender funds rm _ _ hx' h b t d g => exact C14_inv_step _ _ _ _ _ _ _ _ _ hp hx'
      | disp env sender funds dm _ hx' h b t r g => rw [r]; exact hp
      | reg s1 sender funds rm _ h1 hx' h b t r d => rw [r]; exact hp)
    (by
      intro x e hp
      cases e with
      | seedLegacy u b a => exact hp
      | slash v n d => simp only [Sys.env]; split <;> exact hp
      | slashUnbonding v n d => simp only [Sys.env]; split <;> exact hp
      | _ => exact hp)
    l s h

example : genesisSys.reward.Inv := C14_inv_init 1 hubA 1 swapA [0, 1]

end Krp
