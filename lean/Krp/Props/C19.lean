/-
  C19 — A global index update delivers all staking rewards to the right parties.
  Composition of: hub.UpdateGlobalIndex (this file) → distribution withdrawals (this file) →
  dispatcher swap + dispatch (C17) → hub.BondRewards (C04_bond_rewards, C02) and
  reward.UpdateGlobalIndex (C14).
-/
import Krp.Props.C17
import Krp.Props.C04
import Krp.Props.C14
import Krp.Lemmas.HubFrame
namespace Krp
open HubSt

/-- The hub's part: it asks for the rewards of every validator it delegates to, then tells the
    dispatcher to swap (passing the booked pool totals) and to dispatch; of its own state only
    `last_index_modification` changes — pools, rates, batch, claims, history, prev_hub_balance and
    every parameter and address are untouched. -/
theorem C19_hub_update_global (h h' : HubSt) (e : HubEnv) (sender : Addr) (ms : List Msg)
    (hx : h.updateGlobal e sender = .ok (h', ms)) :
    ∃ disp, h.dispatcher = some disp ∧ (sender = h.updater ∨ h.registry = some sender) ∧
      ms = e.delegations.map (fun d => Msg.withdrawReward e.self d.1) ++
           [Msg.wasm e.self disp (.disp (.swap h.bBond h.sBond)) [],
            Msg.wasm e.self disp (.disp .dispatch) []] ∧
      h' = { h with lastIndexMod := e.now } := by
  unfold updateGlobal at hx
  exc_norm at hx
  by_cases hs : sender = h.updater
  · simp only [hs, ne_eq, not_true_eq_false, if_false] at hx
    exc_split at hx
    rename_i d hd
    exact ⟨d, hd, Or.inl hs, rfl, rfl⟩
  · simp only [hs, ne_eq, not_false_eq_true, if_true] at hx
    split at hx
    · cases hx
    · rename_i r hr
      split at hx
      · cases hx
      · rename_i hsr
        exc_split at hx
        rename_i d hd
        exact ⟨d, hd, Or.inr (by rw [hr]; congr 1; exact (Classical.not_not.mp hsr).symm), rfl, rfl⟩

/-- Withdrawing the rewards of a validator pays everything pending there (every coin) to the
    withdraw address and leaves nothing pending; nothing else on the chain or in any contract moves. -/
theorem C19_withdraw_reward_pays_all (s s' : Sys) (v : Addr) (ms : List Msg)
    (hx : s.handle (.withdrawReward hubA v) = .ok (s', ms)) :
    ms = [] ∧ (∀ d, d ∈ ([0, 1, 2] : List Denom) → s'.chain.pending v d = 0) ∧
    s'.hub = s.hub ∧ s'.bsei = s.bsei ∧ s'.stsei = s.stsei ∧ s'.reward = s.reward ∧ s'.disp = s.disp ∧
    s'.chain.deleg = s.chain.deleg ∧ (∀ w, w ≠ v → s'.chain.pending w = s.chain.pending w) := by
  simp only [Sys.handle] at hx
  exc_norm at hx
  exc_split at hx
  refine ⟨rfl, ?_, ?_⟩
  · intro d hd
    simp only [List.mem_cons, List.mem_nil_iff, or_false] at hd
    rcases hd with rfl | rfl | rfl <;> simp [List.foldl, Sys.setBank, upd]
  · simp [List.foldl, Sys.setBank, upd]
    intro w hw; simp [hw]

/-- The whole update, in the dispatcher: nothing is kept (C17), the stSei share is re-bonded to the
    hub without minting (C04), the bSei share reaches the reward contract followed by its index
    update (C14). Restated here as the conjunction that C19 composes. -/
theorem C19_dispatch_delivers (c : DispSt) (self : Addr) (stBal bBal : Nat)
    (hrate : c.keeperRate ≤ D) (hden : c.stDenom ≠ c.bDenom) :
    ∃ ms, dispatchMsgs c self stBal bBal = .ok ms ∧
      sentOf self c.bDenom ms = bBal ∧ sentOf self c.stDenom ms = stBal ∧
      Msg.wasm self c.rewardContract (.reward .updateGlobalIndex) [] ∈ ms := by
  obtain ⟨ms, h1, h2, h3, _, _, h6⟩ := C17_dispatch_conserves c self stBal bBal hrate hden
  exact ⟨ms, h1, h2, h3, h6⟩

/-- Re-bonding raises the stSei pool by exactly the re-bonded amount, mints nothing and leaves the
    bSei pool and rate alone (apart from slashing recognised by the same check). -/
theorem C19_rebond_raises_stsei_only (h h' : HubSt) (e : HubEnv) (sender : Addr) (funds : List (Denom × Nat))
    (ms : List Msg) (hx : h.bondR e sender funds = .ok (h', ms)) :
    ∃ st p, h.actualState e = .ok st ∧ paymentOf funds = .ok p ∧ h'.sBond = st.sBond + p ∧
      h'.bBond = st.bBond ∧ h'.bRate = st.bRate ∧ (∀ m ∈ ms, ∃ v a, m = Msg.delegate e.self v a) := by
  obtain ⟨st, p, S, hst, hp, _, hms, h1, h2, h3, _, _⟩ := C04_bond_rewards h h' e sender funds ms hx
  exact ⟨st, p, hst, hp, h1, h2, h3, C04_bond_rewards_mints_nothing h e p ms hms⟩

example : ∃ ms, dispatchMsgs { (default : DispSt) with keeperRate := D / 20, stDenom := 0, bDenom := 1 } 104 100 200 = .ok ms :=
  ⟨_, rfl⟩

end Krp
