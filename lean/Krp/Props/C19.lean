/-
  C19 — A global index update delivers all staking rewards to the right parties.
  Composition of: hub.UpdateGlobalIndex (this file) → distribution withdrawals (this file) →
  dispatcher swap + dispatch (C17) → hub.BondRewards (C04_bond_rewards, C02) and
  reward.UpdateGlobalIndex (C14).
-/
import Krp.Props.C17
import Krp.Props.C04
import Krp.Props.C14
import Krp.Lemmas.HubFrame
import Krp.Props.C02
import Krp.Props.C07
import Krp.Props.C06
import Krp.Lemmas.Bank
import Krp.Lemmas.Wiring
namespace Krp
open HubSt

/-- The hub's part: it asks for the rewards of every validator it delegates to, then tells the
    dispatcher to swap (passing the booked pool totals) and to dispatch; of its own state only
    `last_index_modification` changes — pools, rates, batch, claims, history, prev_hub_balance and
    every parameter and address are untouched. -/
theorem C19_hub_update_global (h h' : HubSt) (e : HubEnv) (sender : Addr) (ms : List Msg)
    (hx : h.updateGlobal e sender = .ok (h', ms)) :
    ∃ disp, h.dispatcher = some disp ∧ (sender = h.updater ∨ h.registry = some sender) ∧
      ms = e.delegations.map (fun d => Msg.withdrawReward e.self d.1) ++
           [Msg.wasm e.self disp (.disp (.swap h.bBond h.sBond)) [],
            Msg.wasm e.self disp (.disp .dispatch) []] ∧
      h' = { h with lastIndexMod := e.now } := by
  unfold updateGlobal at hx
  exc_norm at hx
  by_cases hs : sender = h.updater
  · simp only [hs, ne_eq, not_true_eq_false, if_false] at hx
    exc_split at hx
    rename_i d hd
    exact ⟨d, hd, Or.inl hs, rfl, rfl⟩
  · simp only [hs, ne_eq, not_false_eq_true, if_true] at hx
    split at hx
    · cases hx
    · rename_i r hr
      split at hx
      · cases hx
      · rename_i hsr
        exc_split at hx
        rename_i d hd
        exact ⟨d, hd, Or.inr (by rw [hr]; congr 1; exact (Classical.not_not.mp hsr).symm), rfl, rfl⟩

/-- Withdrawing the rewards of a validator pays everything pending there (every coin) to the
    withdraw address and leaves nothing pending; nothing else on the chain or in any contract moves. -/
theorem C19_withdraw_reward_pays_all (s s' : Sys) (v : Addr) (ms : List Msg)
    (hx : s.handle (.withdrawReward hubA v) = .ok (s', ms)) :
    ms = [] ∧ (∀ d, d ∈ ([0, 1, 2] : List Denom) → s'.chain.pending v d = 0) ∧
    s'.hub = s.hub ∧ s'.bsei = s.bsei ∧ s'.stsei = s.stsei ∧ s'.reward = s.reward ∧ s'.disp = s.disp ∧
    s'.chain.deleg = s.chain.deleg ∧ (∀ w, w ≠ v → s'.chain.pending w = s.chain.pending w) := by
  simp only [Sys.handle] at hx
  exc_norm at hx
  exc_split at hx
  refine ⟨rfl, ?_, ?_⟩
  · intro d hd
    simp only [List.mem_cons, List.mem_nil_iff, or_false] at hd
    rcases hd with rfl | rfl | rfl <;> simp [List.foldl, Sys.setBank, upd]
  · simp [List.foldl, Sys.setBank, upd]
    intro w hw; simp [hw]

/-- The whole update, in the dispatcher: nothing is kept (C17), the stSei share is re-bonded to the
    hub without minting (C04), the bSei share reaches the reward contract followed by its index
    update (C14). Restated here as the conjunction that C19 composes. -/
theorem C19_dispatch_delivers (c : DispSt) (self : Addr) (stBal bBal : Nat)
    (hrate : c.keeperRate ≤ D) (hden : c.stDenom ≠ c.bDenom) :
    ∃ ms, dispatchMsgs c self stBal bBal = .ok ms ∧
      sentOf self c.bDenom ms = bBal ∧ sentOf self c.stDenom ms = stBal ∧
      Msg.wasm self c.rewardContract (.reward .updateGlobalIndex) [] ∈ ms := by
  obtain ⟨ms, h1, h2, h3, _, _, h6⟩ := C17_dispatch_conserves c self stBal bBal hrate hden
  exact ⟨ms, h1, h2, h3, h6⟩

/-- Re-bonding raises the stSei pool by exactly the re-bonded amount, mints nothing and leaves the
    bSei pool and rate alone (apart from slashing recognised by the same check). -/
theorem C19_rebond_raises_stsei_only (h h' : HubSt) (e : HubEnv) (sender : Addr) (funds : List (Denom × Nat))
    (ms : List Msg) (hx : h.bondR e sender funds = .ok (h', ms)) :
    ∃ st p, h.actualState e = .ok st ∧ paymentOf funds = .ok p ∧ h'.sBond = st.sBond + p ∧
      h'.bBond = st.bBond ∧ h'.bRate = st.bRate ∧ (∀ m ∈ ms, ∃ v a, m = Msg.delegate e.self v a) := by
  obtain ⟨st, p, S, hst, hp, _, hms, h1, h2, h3, _, _⟩ := C04_bond_rewards h h' e sender funds ms hx
  exact ⟨st, p, hst, hp, h1, h2, h3, C04_bond_rewards_mints_nothing h e p ms hms⟩

/-- ... and the stSei rate the hub stores after re-bonding is the new pool over *all* stSei claims:
    the token's supply plus the requests still waiting in the open batch (whose stake is still in
    the pool) — also when the whole supply has been sent to Unbond and only requests remain. -/
theorem C19_rebond_rate_is_pool_over_claims (h h' : HubSt) (e : HubEnv) (sender : Addr) (funds : List (Denom × Nat))
    (ms : List Msg) (hx : h.bondR e sender funds = .ok (h', ms))
    (tok : Addr) (htok : h.stsei = some tok) (S : Nat) (hS : e.supplyOf tok = .ok S) :
    h'.sRate = rateOf h'.sBond S h'.reqS ∧ h'.reqS = h.reqS ∧
    (h'.sBond ≠ 0 → S + h.reqS ≠ 0 → h'.sRate = h'.sBond * D / (S + h.reqS)) := by
  obtain ⟨st, p, S', hst, _, hS', _, _, _, _, hr, _⟩ := C04_bond_rewards h h' e sender funds ms hx
  obtain ⟨_, st2, _, _, hst2, _, hh⟩ := bondR_spec h h' e sender funds ms hx
  have est : st2 = st := by rw [hst] at hst2; injection hst2 with h1; exact h1.symm
  have sb := (actualState_spec h st e hst).1
  have e1 : S' = S := by
    rw [hS']; simp only [sSupplyQ, sb.stsei, htok, hS]; rfl
  have e2 : h'.reqS = h.reqS := by rw [hh, est]; exact sb.reqS
  rw [e1] at hr
  refine ⟨by rw [e2]; exact hr, e2, fun hb hc => ?_⟩
  rw [hr, rateOf, if_neg (by intro hor; rcases hor with h1 | h1; exact hb h1; exact hc h1)]
  rfl

example : ∃ ms, dispatchMsgs { (default : DispSt) with keeperRate := D / 20, stDenom := 0, bDenom := 1 } 104 100 200 = .ok ms :=
  ⟨_, rfl⟩

/-! ### End to end: the whole UpdateGlobalIndex transaction

  The messages an index update can cause, by shape (`Flow`), are closed under handling in a wired
  system: reward withdrawals, the dispatcher's swap and dispatch, swap-contract calls and their
  payouts, the dispatcher's transfers, BondRewards, the hub's Delegate messages, the reward
  contract's index update.  Along that flow no token handler runs, the hub runs only BondRewards,
  and nobody reconfigures anything. -/

def Flow : Msg → Bool
  | .withdrawReward d _ => d == hubA
  | .wasm s t (.disp (.swap _ _)) f => s == hubA && t == dispA && f.isEmpty
  | .wasm s t (.disp .dispatch) f => s == hubA && t == dispA && f.isEmpty
  | .wasm s _ (.swapDenom _ _ _ none) _ => s == dispA
  | .bankSend src dst _ _ => (src == swapA || src == dispA) && dst != hubA
  | .wasm s t (.hub .bondRewards) _ => s == dispA && t == hubA
  | .delegate d _ _ => d == hubA
  | .wasm s t (.reward .updateGlobalIndex) f => s == dispA && t == rewardA && f.isEmpty
  | _ => false

/-- the wiring the index update relies on (E3) -/
structure Wired19 (s : Sys) : Prop where
  hubDisp : s.hub.dispatcher = some dispA
  dispHub : s.disp.hub = hubA
  dispRw : s.disp.rewardContract = rewardA
  keeper : s.disp.keeper ≠ hubA
  wa : s.chain.withdrawAddr ≠ hubA

def AllFlow (q : List Msg) : Prop := ∀ m ∈ q, Flow m = true

theorem AllFlow.append {x y : List Msg} (h1 : AllFlow x) (h2 : AllFlow y) : AllFlow (x ++ y) := by
  intro m hm
  rcases List.mem_append.mp hm with h | h
  · exact h1 m h
  · exact h2 m h

theorem coinMsgs_flow (c : DispSt) (x : Nat) (hh : c.hub = hubA) (hk : c.keeper ≠ hubA) (hr : c.rewardContract ≠ hubA) :
    (∀ ms, coinMsgsB c dispA x = .ok ms → AllFlow ms) ∧ (∀ ms, coinMsgsSt c dispA x = .ok ms → AllFlow ms) := by
  constructor
  · intro ms hx; unfold coinMsgsB at hx; exc_split at hx
    · intro m hm; cases hm
    · intro m hm; simp at hm; rcases hm with rfl | rfl <;> simp [Flow, hk, hr]
  · intro ms hx; unfold coinMsgsSt at hx; exc_split at hx
    · intro m hm; cases hm
    · intro m hm; simp at hm; subst hm; simp [Flow, hk]
    · intro m hm; simp at hm; rcases hm with rfl | rfl
      · simp [Flow, hk]
      · simp [Flow, hh]

theorem foldl_allP (P : Msg → Prop) (f : Res (Nat × Nat × List Msg) → Denom → Res (Nat × Nat × List Msg))
    (hstep : ∀ acc dn v, f acc dn = .ok v → ∃ v0, acc = .ok v0 ∧ ((∀ m ∈ v0.2.2, P m) → ∀ m ∈ v.2.2, P m)) :
    ∀ (l : List Denom) (acc : Res (Nat × Nat × List Msg)) (v : Nat × Nat × List Msg),
      l.foldl f acc = .ok v → ∃ v0, acc = .ok v0 ∧ ((∀ m ∈ v0.2.2, P m) → ∀ m ∈ v.2.2, P m) := by
  intro l
  induction l with
  | nil => intro acc v hx; exact ⟨v, hx, id⟩
  | cons d ds ih =>
    intro acc v hx
    simp only [List.foldl_cons] at hx
    obtain ⟨v1, h1, k1⟩ := ih (f acc d) v hx
    obtain ⟨v0, h0, k0⟩ := hstep acc d v1 h1
    exact ⟨v0, h0, fun h => k1 (k0 h)⟩

/-- everything the dispatcher's swap emits is a swap-contract call sent by the dispatcher -/
theorem dispSwap_shape (c c' : DispSt) (self : Addr) (env : DispEnv) (sender : Addr) (a b : Nat)
    (ms : List Msg) (hx : dispExec c self env sender (.swap a b) = .ok (c', ms)) :
    ∀ m ∈ ms, ∃ tg dn am dd fs, m = Msg.wasm self tg (.swapDenom dn am dd none) fs := by
  simp only [dispExec] at hx
  exc_norm at hx
  split at hx
  · cases hx
  · split at hx
    · cases hx
    · rename_i v hv
      have hs : ∀ m ∈ v.2.2, ∃ tg dn am dd fs, m = Msg.wasm self tg (.swapDenom dn am dd none) fs := by
        obtain ⟨v0, h0, k⟩ := foldl_allP (fun m => ∃ tg dn am dd fs, m = Msg.wasm self tg (.swapDenom dn am dd none) fs) _ (by
          intro acc dn v' hf
          cases acc with
          | error e => simp only [] at hf; cases hf
          | ok v0 =>
            refine ⟨v0, rfl, fun h0 => ?_⟩
            simp only [] at hf
            repeat' (split at hf <;> try (first | cases hf | contradiction))
            all_goals first
              | exact h0
              | (intro m hm
                 rcases List.mem_append.mp hm with h | h
                 · exact h0 m h
                 · simp at h; exact ⟨_, _, _, _, _, h⟩)) _ _ v hv
        injection h0 with h0; subst h0
        exact k (fun _ h => by cases h)
      repeat' (split at hx <;> try (first | cases hx | contradiction))
      all_goals first
        | exact hs
        | (intro m hm
           rcases List.mem_append.mp hm with h | h
           · exact hs m h
           · simp at h; exact ⟨_, _, _, _, _, h⟩)

/-- what the flow's messages do, one at a time: they emit flow messages, keep the wiring, never run a
    token handler, and the only hub handler they run is BondRewards -/
theorem flow_step (s s' : Sys) (m : Msg) (subs : List Msg) (w : Wired19 s) (hf : Flow m = true)
    (hx : s.handle m = .ok (s', subs)) :
    AllFlow subs ∧ Wired19 s' ∧ s'.bsei = s.bsei ∧ s'.stsei = s.stsei ∧ s'.reg = s.reg ∧ s'.disp = s.disp ∧
    ((s'.hub = s.hub ∧ ∀ sender funds, m ≠ .wasm sender hubA (.hub .bondRewards) funds) ∨
      ∃ s1 sender funds, m = .wasm sender hubA (.hub .bondRewards) funds ∧
        s.moveFunds sender hubA funds = .ok s1 ∧ s1.hub = s.hub ∧
        hubExec s.hub s1.hubEnv sender funds .bondRewards = .ok (s'.hub, subs)) := by
  have sent := handle_sentBy s s' m subs hx
  have wa' : s'.chain.withdrawAddr ≠ hubA := by
    rw [handle_withdrawAddr s s' m subs hx (by intro d a h; subst h; simp [Flow] at hf)]; exact w.wa
  cases handle_touch s s' m subs hx with
  | none h hmm _ hb =>
    have hne : ∀ sender funds, m ≠ .wasm sender hubA (.hub .bondRewards) funds := by
      intro sender funds hme
      rcases hmm with h0 | ⟨_, _, _, _, heq, ht⟩
      · exact h0 _ _ _ _ hme
      · rw [hme] at heq; injection heq with _ e2 _ _
        rcases ht with ht | ht <;> (rw [ht] at e2; cases e2)
    refine ⟨?_, ⟨by rw [h.hub]; exact w.hubDisp, by rw [h.disp]; exact w.dispHub, by rw [h.disp]; exact w.dispRw,
      by rw [h.disp]; exact w.keeper, wa'⟩, h.bsei, h.stsei, h.reg, h.disp, Or.inl ⟨h.hub, hne⟩⟩
    rcases hmm with hnw | ⟨a, b', c, d', heq, hbt⟩
    · rw [sent.2 hnw]; intro x hx'; cases hx'
    · subst heq
      -- a flow message addressed to a stub is a swap-contract call of the dispatcher
      cases c with
      | swapDenom sd am dd tgt =>
        cases tgt with
        | none =>
          have ha : a = dispA := by simpa [Flow] using hf
          intro x hx'
          obtain ⟨out, he⟩ := stub_payout s s' a b' sd am dd none d' subs hbt hx x hx'
          subst he; subst ha; rfl
        | some _ => simp [Flow] at hf
      | hub hm' =>
        cases hm' with
        | bondRewards =>
          simp [Flow] at hf
          rcases hbt with h0 | h0 <;> (rw [h0] at hf; exact absurd hf.2 (by decide))
        | _ => simp [Flow] at hf
      | disp dm =>
        cases dm with
        | swap x y =>
          simp [Flow] at hf
          rcases hbt with h0 | h0 <;> (rw [h0] at hf; exact absurd hf.1.2 (by decide))
        | dispatch =>
          simp [Flow] at hf
          rcases hbt with h0 | h0 <;> (rw [h0] at hf; exact absurd hf.1.2 (by decide))
        | _ => simp [Flow] at hf
      | reward rm =>
        cases rm with
        | updateGlobalIndex =>
          simp [Flow] at hf
          rcases hbt with h0 | h0 <;> (rw [h0] at hf; exact absurd hf.1.2 (by decide))
        | _ => simp [Flow] at hf
      | _ => simp [Flow] at hf
  | hub s1 sender funds hm heq h1 hmv hc hx' b t r d g =>
    subst heq
    cases hm with
    | bondRewards =>
      have hs : sender = dispA := by simpa [Flow] using hf
      have cfg := (HubSt.bond_frame s.hub s'.hub s1.hubEnv sender funds subs).2.2 (by
        simp only [hubExec] at hx'; split at hx'
        · cases hx'
        · exact hx')
      have dl : AllFlow subs := by
        simp only [hubExec] at hx'; split at hx'
        · cases hx'
        · obtain ⟨p, st, _, _, _, hd, _⟩ := HubSt.bondR_spec _ _ _ _ _ _ hx'
          obtain ⟨_, reg, vs, _, _, hall⟩ := C02_bond_delegated_in_full s.hub s1.hubEnv p subs hd
          intro x hx''
          obtain ⟨v, a, he, _, _⟩ := hall x hx''
          subst he; rfl
      exact ⟨dl, ⟨by rw [cfg.2.dispatcher]; exact w.hubDisp, by rw [d]; exact w.dispHub, by rw [d]; exact w.dispRw, by rw [d]; exact w.keeper, wa'⟩,
        b, t, g, d, Or.inr ⟨s1, sender, funds, rfl, hmv, h1.hub, hx'⟩⟩
    | _ => simp [Flow] at hf
  | bsei s1 sender funds tm heq _ _ _ _ _ _ _ => subst heq; simp [Flow] at hf
  | stsei blk sender funds tm heq _ _ _ _ _ _ => subst heq; simp [Flow] at hf
  | reward s1 sender funds rm heq h1 _ _ hx' h b t d g =>
    subst heq
    cases rm with
    | updateGlobalIndex =>
      have hms : subs = [] := (C14_update_records_bank _ _ _ _ _ _ _ _ hx').1
      refine ⟨(by rw [hms]; intro x hx''; cases hx''), ⟨by rw [h]; exact w.hubDisp, by rw [d]; exact w.dispHub,
        by rw [d]; exact w.dispRw, by rw [d]; exact w.keeper, wa'⟩, b, t, g, d, Or.inl ⟨h, fun _ _ hme => by cases hme⟩⟩
    | _ => simp [Flow] at hf
  | disp env sender funds dm heq _ _ hx' h b t r g =>
    subst heq
    cases dm with
    | swap a bb =>
      -- the dispatcher's state is untouched; it emits swap-contract calls sent by itself
      have sb := dispExec_sentBy _ _ _ _ _ _ _ hx'
      have cs : s'.disp = s.disp := by
        simp only [dispExec] at hx'
        exc_norm at hx'
        repeat' (split at hx' <;> try (first | (cases hx'; done) | contradiction))
        all_goals (injection hx' with hx'; injection hx' with e1 _; exact e1.symm)
      refine ⟨?_, ⟨by rw [h]; exact w.hubDisp, by rw [cs]; exact w.dispHub, by rw [cs]; exact w.dispRw, by rw [cs]; exact w.keeper, wa'⟩, b, t, g, cs, Or.inl ⟨h, fun _ _ hme => by cases hme⟩⟩
      have shape := dispSwap_shape _ _ _ _ _ _ _ _ hx'
      intro x hx''
      obtain ⟨tg, dn, am, dd, fs, he⟩ := shape x hx''
      subst he; rfl
    | dispatch =>
      have cs : s'.disp = s.disp := by
        have hx2 := hx'
        simp only [dispExec] at hx2; exc_norm at hx2
        split at hx2
        · cases hx2
        · split at hx2
          · cases hx2
          · injection hx2 with hx2; injection hx2 with e1 _; exact e1.symm
      refine ⟨?_, ⟨by rw [h]; exact w.hubDisp, by rw [cs]; exact w.dispHub, by rw [cs]; exact w.dispRw, by rw [cs]; exact w.keeper, wa'⟩, b, t, g, cs, Or.inl ⟨h, fun _ _ hme => by cases hme⟩⟩
      simp only [dispExec] at hx'; exc_norm at hx'
      split at hx'
      · cases hx'
      · split at hx'
        · cases hx'
        · rename_i ms' hd
          injection hx' with hx'; injection hx' with _ h2; subst h2
          unfold dispatchMsgs at hd
          split at hd
          · cases hd
          · rename_i m1 h1
            split at hd
            · cases hd
            · rename_i m2 h2
              injection hd with hd; subst hd
              refine AllFlow.append (AllFlow.append ((coinMsgs_flow s.disp _ w.dispHub w.keeper (by rw [w.dispRw]; decide)).1 m1 h1)
                ((coinMsgs_flow s.disp _ w.dispHub w.keeper (by rw [w.dispRw]; decide)).2 m2 h2)) ?_
              intro x hx''; simp at hx''; subst hx''; simp [Flow, w.dispRw]
    | _ => simp [Flow] at hf
  | reg s1 sender funds rm heq _ _ _ _ _ _ _ _ _ => subst heq; simp [Flow] at hf


/-- carried through the index update's message queue (`s0` = the state the transaction started in) -/
structure UgiInv (s0 s : Sys) (q : List Msg) : Prop where
  wired : Wired19 s
  flow : AllFlow q
  bsei : s.bsei = s0.bsei
  stsei : s.stsei = s0.stsei
  reg : s.reg = s0.reg
  claims : KeepsClaims s0.hub s.hub
  prev : s.hub.prevHubBalance = s0.hub.prevHubBalance
  bank : s.chain.bank hubA 0 = s0.chain.bank hubA 0 + delSum q

theorem UgiInv.step (s0 s s' : Sys) (m : Msg) (rest subs : List Msg)
    (inv : UgiInv s0 s (m :: rest)) (hx : s.handle m = .ok (s', subs)) : UgiInv s0 s' (subs ++ rest) := by
  have hf : Flow m = true := inv.flow m (List.mem_cons_self ..)
  have hrest : AllFlow rest := fun x hx' => inv.flow x (List.mem_cons_of_mem _ hx')
  obtain ⟨hsub, w', hb, ht, hg, _, hhub⟩ := flow_step s s' m subs inv.wired hf hx
  have hbank := inv.bank
  have dcons : delSum (m :: rest) = delSum [m] + delSum rest := by
    have := delSum_append [m] rest; simpa using this
  rw [dcons] at hbank
  have fin : KeepsClaims s0.hub s'.hub → s'.hub.prevHubBalance = s0.hub.prevHubBalance →
      s'.chain.bank hubA 0 + delSum [m] = s.chain.bank hubA 0 + delSum subs → UgiInv s0 s' (subs ++ rest) := by
    intro k p bk
    refine ⟨w', AllFlow.append hsub hrest, hb.trans inv.bsei, ht.trans inv.stsei, hg.trans inv.reg, k, p, ?_⟩
    rw [delSum_append]; omega
  rcases hhub with ⟨hsame, hnb⟩ | ⟨s1, sender, funds, hm, hmv, hh1, hx'⟩
  · -- the hub's state is untouched; its bank balance changes only when one of its Delegate messages runs
    have keep : KeepsClaims s0.hub s'.hub := by rw [hsame]; exact inv.claims
    have prev : s'.hub.prevHubBalance = s0.hub.prevHubBalance := by rw [hsame]; exact inv.prev
    have sent := handle_sentBy s s' m subs hx
    cases m with
    | delegate who v amt =>
      have hw : who = hubA := by simpa [Flow] using hf
      subst hw
      have hsubs : subs = [] := sent.2 (fun _ _ _ _ h => by cases h)
      simp only [Sys.handle] at hx
      exc_norm at hx
      exc_split at hx
      rename_i hge
      refine fin keep prev ?_
      rw [hsubs]
      simp only [delSum, if_true, Sys.setBank, upd_same, Nat.add_zero]
      omega
    | bankSend src dst d amt =>
      have hsubs : subs = [] := sent.2 (fun _ _ _ _ h => by cases h)
      have hs : src ≠ hubA ∧ dst ≠ hubA := by
        simp only [Flow, Bool.and_eq_true, Bool.or_eq_true, beq_iff_eq, bne_iff_ne] at hf
        refine ⟨?_, hf.2⟩
        rcases hf.1 with h | h <;> (rw [h]; decide)
      refine fin keep prev ?_
      rw [hsubs]
      simp only [Sys.handle] at hx; exc_norm at hx
      split at hx
      · cases hx
      · rename_i s1 h1
        have bo := bankMove_other s s1 src dst d amt h1 hubA (fun h => hs.1 h.symm) (fun h => hs.2 h.symm) 0
        cases hx
        rw [bo]
        simp [delSum]
    | withdrawReward who v =>
      have hsubs : subs = [] := sent.2 (fun _ _ _ _ h => by cases h)
      refine fin keep prev ?_
      rw [hsubs]
      simp only [Sys.handle] at hx; exc_norm at hx; exc_split at hx
      have hwa : ¬ hubA = s.chain.withdrawAddr := fun h => inv.wired.wa h.symm
      simp [List.foldl, Sys.setBank, upd, hwa, delSum]
    | wasm a b c d =>
      obtain ⟨s1, hmv, hch⟩ := handle_wasm_chain_eq s s' a b c d subs hx
      -- the target is not the hub (the only flow call to the hub is BondRewards)
      have hbh : b ≠ hubA := by
        intro hbh; subst hbh
        cases c with
        | hub hm' =>
          cases hm' with
          | bondRewards => exact hnb a d rfl
          | _ => simp [Flow] at hf
        | disp dm => cases dm <;> simp [Flow] at hf <;> exact absurd hf.1.2 (by decide)
        | reward rm => cases rm <;> simp [Flow] at hf <;> exact absurd hf.1.2 (by decide)
        | swapDenom sd am dd tgt => exact absurd hsame (by
            -- a swap-contract call addressed to the hub is a parse error: it cannot have succeeded
            intro _
            simp only [Sys.handle] at hx; exc_norm at hx
            split at hx
            · cases hx
            · rw [if_pos trivial] at hx; cases hx)
        | _ => simp [Flow] at hf
      -- nothing it emits is a Delegate of the hub
      have nodel : delSum subs = 0 :=
        (noStake_sums subs (sentBy_noStake b hbh subs (sent.1 a b c d rfl))).1
      -- and the hub's bank balance does not move
      have hbk : s'.chain.bank hubA 0 = s.chain.bank hubA 0 := by
        rw [hch]
        by_cases ha : a = hubA
        · -- the hub's own calls in the flow carry no funds
          have hd : d = [] := by
            subst ha
            cases c with
            | disp dm => cases dm <;> simp [Flow] at hf <;> (try exact absurd hf (by decide)) <;> simpa using hf.2
            | hub hm' => cases hm' <;> simp [Flow] at hf <;> exact absurd hf.1 (by decide)
            | reward rm => cases rm <;> simp [Flow] at hf <;> exact absurd hf.1.1 (by decide)
            | swapDenom sd am dd tgt => cases tgt <;> simp [Flow] at hf <;> exact absurd hf (by decide)
            | _ => simp [Flow] at hf
          subst hd
          simp only [Sys.moveFunds] at hmv
          injection hmv with hmv; subst hmv; rfl
        · exact moveFunds_other a b d s s1 hmv hubA (fun h => ha h.symm) (fun h => hbh h.symm) 0
      refine fin keep prev ?_
      rw [hbk, nodel]
      simp [delSum]
    | _ => simp [Flow] at hf
  · -- BondRewards: the attached coins arrive and exactly as much is about to be delegated
    subst hm
    have hs : sender = dispA := by simpa [Flow] using hf
    obtain ⟨s1', hmv', hch⟩ := handle_wasm_chain_eq s s' sender hubA _ funds subs hx
    have e1 : s1' = s1 := by rw [hmv] at hmv'; injection hmv' with h; exact h.symm
    rw [e1] at hch
    simp only [hubExec] at hx'
    split at hx'
    · cases hx'
    · obtain ⟨p, st, _, hpay, hst, hd, hh⟩ := HubSt.bondR_spec _ _ _ _ _ _ hx'
      have ds := delegs_stake s.hub s1.hubEnv p subs rfl hd
      have hp := paymentOf_funds funds p hpay
      have kst := actualState_keeps s.hub st s1.hubEnv hst
      have sbk := (HubSt.actualState_spec s.hub st s1.hubEnv hst).1
      have keep : KeepsClaims s0.hub s'.hub := by
        rw [hh]
        exact inv.claims.trans (kst.trans ⟨⟨rfl, rfl, rfl, rfl, rfl, rfl, rfl⟩, rfl⟩)
      have prev : s'.hub.prevHubBalance = s0.hub.prevHubBalance := by
        rw [hh]; show st.prevHubBalance = _; rw [sbk.prev]; exact inv.prev
      refine fin keep prev ?_
      have hin := moveFunds_in_eq sender hubA (by rw [hs]; decide) funds s s1 hmv 0
      rw [hch, hin, ds.2.1, hp]
      simp [delSum]

/-- **The whole UpdateGlobalIndex transaction, on the hub's side.** If the transaction succeeds — the
    hub's handler, every reward withdrawal, the dispatcher's swap and dispatch with the swap-contract
    calls, the keeper and reward-contract transfers, BondRewards with its delegations, the reward
    contract's index update — then at the end: both token ledgers are exactly as before (nothing is
    minted, burnt or moved), the registry is untouched, every unbonding claim, the batch history and
    the open batch are untouched, `prev_hub_balance` is unchanged, and the hub's liquid staking-denom
    balance is exactly what it was (what BondRewards brought in was delegated in full). -/
theorem C19_end_to_end (s s' : Sys) (sender : Addr) (w : Wired19 s)
    (hx : Sys.run 400 s [.wasm sender hubA (.hub .updateGlobalIndex) []] = .ok s') :
    s'.bsei = s.bsei ∧ s'.stsei = s.stsei ∧ s'.reg = s.reg ∧ KeepsClaims s.hub s'.hub ∧
    s'.hub.prevHubBalance = s.hub.prevHubBalance ∧ s'.chain.bank hubA 0 = s.chain.bank hubA 0 := by
  simp only [Sys.run] at hx
  split at hx
  · cases hx
  · rename_i s1 subs h1
    cases handle_touch s s1 _ subs h1 with
    | none _ hm' _ _ =>
      rcases hm' with hm' | ⟨_, _, _, _, heq, ht⟩
      · exact absurd rfl (hm' _ _ _ _)
      · injection heq with _ e2 _ _
        rcases ht with ht | ht <;> (rw [ht] at e2; cases e2)
    | bsei _ _ _ _ heq _ _ _ _ _ _ _ => injection heq with _ e2 _ _; cases e2
    | stsei _ _ _ _ heq _ _ _ _ _ _ => injection heq with _ e2 _ _; cases e2
    | reward _ _ _ _ heq _ _ _ _ _ _ _ _ _ => injection heq with _ e2 _ _; cases e2
    | disp _ _ _ _ heq _ _ _ _ _ _ _ _ => injection heq with _ e2 _ _; cases e2
    | reg _ _ _ _ heq _ _ _ _ _ _ _ _ _ => injection heq with _ e2 _ _; cases e2
    | hub s2 sender' funds hm heq h2 hmv hc hx' b t r d g =>
      injection heq with e1 _ e3 e4
      injection e3 with e3
      subst e1; subst e3; subst e4
      simp only [Sys.moveFunds] at hmv
      injection hmv with hmv; subst hmv
      -- the hub's own step
      have hp : s.hub.isPaused = false := by
        simp only [hubExec] at hx'
        split at hx'
        · cases hx'
        · rename_i h; simpa using h
      simp only [hubExec, hp, Bool.false_eq_true, if_false] at hx'
      obtain ⟨dsp, hdsp, _, hms, hh⟩ := C19_hub_update_global s.hub s1.hub s.hubEnv sender subs hx'
      have hd : dsp = dispA := by rw [w.hubDisp] at hdsp; injection hdsp with h; exact h.symm
      subst hd
      have inv1 : UgiInv s s1 (subs ++ []) := by
        rw [List.append_nil]
        refine ⟨⟨by rw [hh]; exact w.hubDisp, by rw [d]; exact w.dispHub, by rw [d]; exact w.dispRw,
          by rw [d]; exact w.keeper, by rw [hc.2.2]; exact w.wa⟩, ?_, b, t, g,
          by rw [hh]; exact ⟨⟨rfl, rfl, rfl, rfl, rfl, rfl, rfl⟩, rfl⟩, by rw [hh], ?_⟩
        · rw [hms]
          intro x hx''
          simp only [List.mem_append, List.mem_map, List.mem_cons, List.mem_nil_iff, or_false] at hx''
          rcases hx'' with ⟨dd, _, rfl⟩ | rfl | rfl <;> rfl
        · rw [hc.2.2]
          have : delSum subs = 0 := by
            rw [hms]
            refine (noStake_sums _ ?_).1
            intro x hx''
            simp only [List.mem_append, List.mem_map, List.mem_cons, List.mem_nil_iff, or_false] at hx''
            rcases hx'' with ⟨dd, _, rfl⟩ | rfl | rfl <;> rfl
          rw [this]; rfl
      have fin := run_inv2 (UgiInv s) (fun a m r a' sb => UgiInv.step s a a' m r sb) 399 s1 _ s' inv1 hx
      have hb := fin.bank
      simp only [delSum, Nat.add_zero] at hb
      exact ⟨fin.bsei, fin.stsei, fin.reg, fin.claims, fin.prev, hb⟩

/-! #### the delivery clauses: every pending reward is withdrawn, nothing stays in the dispatcher -/

/-- the dispatch message the hub emits last -/
def dMsg : Msg := .wasm hubA dispA (.disp .dispatch) []

/-- messages that can be pending after the dispatch: the dispatcher's transfers to others, BondRewards,
    the hub's delegations, the reward contract's index update — none can bring coins to the dispatcher -/
def post : Msg → Bool
  | .bankSend src dst _ _ => src == dispA && dst != dispA
  | .wasm s t (.hub .bondRewards) _ => s == dispA && t == hubA
  | .delegate d _ _ => d == hubA
  | .wasm s t (.reward .updateGlobalIndex) f => s == dispA && t == rewardA && f.isEmpty
  | _ => false

theorem sentOf_append (self : Addr) (d : Denom) (x y : List Msg) :
    sentOf self d (x ++ y) = sentOf self d x + sentOf self d y := by
  induction x with
  | nil => simp [sentOf]
  | cons m ms ih => cases m <;> simp only [List.cons_append, sentOf, ih] <;> omega

theorem sentOf_notFrom (self : Addr) (d : Denom) (q : List Msg) (h : ∀ x ∈ q, x.sentFrom ≠ self) :
    sentOf self d q = 0 := by
  induction q with
  | nil => rfl
  | cons m ms ih =>
    have hm := h m (List.mem_cons_self ..)
    have r := ih (fun x hx => h x (List.mem_cons_of_mem _ hx))
    cases m <;> simp_all [sentOf, Msg.sentFrom]

structure DeliverInv (s0 s : Sys) (q : List Msg) : Prop where
  base : UgiInv s0 s q
  cfg : s.disp = s0.disp
  pend : ∀ v ∈ valUniverse, s0.chain.delegSet v = true →
    (∀ d ∈ ([0, 1, 2] : List Denom), s.chain.pending v d = 0) ∨ Msg.withdrawReward hubA v ∈ q
  phase : (∃ pre, q = pre ++ [dMsg]) ∨
    ((∀ x ∈ q, post x = true) ∧
      s.chain.bank dispA s0.disp.stDenom = sentOf dispA s0.disp.stDenom q ∧
      s.chain.bank dispA s0.disp.bDenom = sentOf dispA s0.disp.bDenom q)

theorem coinMsgs_post (c : DispSt) (x : Nat) (hh : c.hub = hubA) (hk : c.keeper ≠ dispA) (hr : c.rewardContract ≠ dispA) :
    (∀ ms, coinMsgsB c dispA x = .ok ms → ∀ m ∈ ms, post m = true) ∧
    (∀ ms, coinMsgsSt c dispA x = .ok ms → ∀ m ∈ ms, post m = true) := by
  constructor
  · intro ms hx; unfold coinMsgsB at hx; exc_split at hx
    · intro m hm; cases hm
    · intro m hm; simp at hm; rcases hm with rfl | rfl <;> simp [post, hk, hr]
  · intro ms hx; unfold coinMsgsSt at hx; exc_split at hx
    · intro m hm; cases hm
    · intro m hm; simp at hm; subst hm; simp [post, hk]
    · intro m hm; simp at hm; rcases hm with rfl | rfl
      · simp [post, hk]
      · simp [post, hh]

theorem DeliverInv.step (s0 s s' : Sys) (m : Msg) (rest subs : List Msg)
    (hk : s0.disp.keeper ≠ dispA) (hrate : s0.disp.keeperRate ≤ D) (hden : s0.disp.stDenom ≠ s0.disp.bDenom)
    (inv : DeliverInv s0 s (m :: rest)) (hx : s.handle m = .ok (s', subs)) : DeliverInv s0 s' (subs ++ rest) := by
  have hf : Flow m = true := inv.base.flow m (List.mem_cons_self ..)
  have w := inv.base.wired
  obtain ⟨hsub, w', _, _, _, hdisp, hhub⟩ := flow_step s s' m subs w hf hx
  have base' := UgiInv.step s0 s s' m rest subs inv.base hx
  have cfg' : s'.disp = s0.disp := hdisp.trans inv.cfg
  have sent := handle_sentBy s s' m subs hx
  -- pending rewards
  have pend' : ∀ v ∈ valUniverse, s0.chain.delegSet v = true →
      (∀ d ∈ ([0, 1, 2] : List Denom), s'.chain.pending v d = 0) ∨ Msg.withdrawReward hubA v ∈ subs ++ rest := by
    intro v hu hv
    by_cases hmw : ∃ d v', m = .withdrawReward d v'
    · obtain ⟨d0, v', hme⟩ := hmw
      subst hme
      have hd0 : d0 = hubA := by simpa [Flow] using hf
      subst hd0
      have pw := C19_withdraw_reward_pays_all s s' v' subs hx
      by_cases hvv : v = v'
      · subst hvv; exact Or.inl pw.2.1
      · rcases inv.pend v hu hv with h0 | h0
        · left; intro d hd; rw [pw.2.2.2.2.2.2.2.2 v hvv]; exact h0 d hd
        · right
          rcases List.mem_cons.mp h0 with h1 | h1
          · injection h1 with _ e2; exact absurd e2 hvv
          · exact List.mem_append_right _ h1
    · have hp := handle_pending s s' m subs hx (fun d v' h => hmw ⟨d, v', h⟩)
      rcases inv.pend v hu hv with h0 | h0
      · left; intro d hd; rw [hp]; exact h0 d hd
      · right
        rcases List.mem_cons.mp h0 with h1 | h1
        · exact absurd ⟨hubA, v, h1.symm⟩ hmw
        · exact List.mem_append_right _ h1
  refine ⟨base', cfg', pend', ?_⟩
  rcases inv.phase with ⟨pre, hq⟩ | ⟨hpost, hst, hb⟩
  · cases pre with
    | cons p pre' =>
      -- still before the dispatch: it stays last
      simp only [List.cons_append] at hq
      injection hq with _ h2
      exact Or.inl ⟨subs ++ pre', by rw [h2, List.append_assoc]⟩
    | nil =>
      -- the dispatch itself: what it emits adds up to exactly what the dispatcher holds
      simp only [List.nil_append] at hq
      injection hq with h1 h2
      subst h1; subst h2
      right
      simp only [dMsg] at hx
      obtain ⟨s1, hmv, hch⟩ := handle_wasm_chain_eq s s' hubA dispA (.disp .dispatch) [] subs hx
      simp only [Sys.moveFunds] at hmv
      injection hmv with hmv; subst hmv
      cases handle_touch s s' _ subs hx with
      | none _ hmm _ _ =>
        rcases hmm with h0 | ⟨_, _, _, _, heq, ht⟩
        · exact absurd rfl (h0 _ _ _ _)
        · injection heq with _ e2 _ _
          rcases ht with ht | ht <;> (rw [ht] at e2; cases e2)
      | hub _ _ _ _ heq _ _ _ _ _ _ _ _ _ => injection heq with _ e2 _ _; cases e2
      | bsei _ _ _ _ heq _ _ _ _ _ _ _ => injection heq with _ e2 _ _; cases e2
      | stsei _ _ _ _ heq _ _ _ _ _ _ => injection heq with _ e2 _ _; cases e2
      | reward _ _ _ _ heq _ _ _ _ _ _ _ _ _ => injection heq with _ e2 _ _; cases e2
      | reg _ _ _ _ heq _ _ _ _ _ _ _ _ _ => injection heq with _ e2 _ _; cases e2
      | disp s1 sender funds dm heq hmv' hch' hx' _ _ _ _ _ =>
        injection heq with e1 _ e3 e4
        injection e3 with e3
        subst e1; subst e3; subst e4
        simp only [Sys.moveFunds] at hmv'
        injection hmv' with hmv'; subst hmv'
        have hms : dispatchMsgs s.disp dispA (s.chain.bank dispA s.disp.stDenom) (s.chain.bank dispA s.disp.bDenom) = .ok subs := by
          simp only [dispExec] at hx'; exc_norm at hx'
          split at hx'
          · cases hx'
          · split at hx'
            · cases hx'
            · rename_i ms' hd
              injection hx' with hx'; injection hx' with _ h2; subst h2; exact hd
        have hc0 := inv.cfg
        obtain ⟨ms, h1, h2, h3, _⟩ := C17_dispatch_conserves s.disp dispA (s.chain.bank dispA s.disp.stDenom)
          (s.chain.bank dispA s.disp.bDenom) (by rw [hc0]; exact hrate) (by rw [hc0]; exact hden)
        rw [hms] at h1; injection h1 with h1; subst h1
        refine ⟨?_, ?_, ?_⟩
        · -- everything it emits is a post-dispatch message
          rw [List.append_nil]
          have hms2 := hms
          unfold dispatchMsgs at hms2
          split at hms2
          · cases hms2
          · rename_i m1 hm1
            split at hms2
            · cases hms2
            · rename_i m2 hm2
              injection hms2 with hms2; subst hms2
              have cp := coinMsgs_post s.disp
              intro x hx''
              rcases List.mem_append.mp hx'' with h | h
              · rcases List.mem_append.mp h with h | h
                · exact (cp _ w.dispHub (by rw [hc0]; exact hk) (by rw [w.dispRw]; decide)).1 m1 hm1 x h
                · exact (cp _ w.dispHub (by rw [hc0]; exact hk) (by rw [w.dispRw]; decide)).2 m2 hm2 x h
              · simp at h; subst h; simp [post, w.dispRw]
        · rw [List.append_nil, hch', ← hc0]; exact h3.symm
        · rw [List.append_nil, hch', ← hc0]; exact h2.symm
  · -- after the dispatch: every message takes from the dispatcher exactly what it names
    right
    have hm : post m = true := hpost m (List.mem_cons_self ..)
    have hrestp : ∀ x ∈ rest, post x = true := fun x hx' => hpost x (List.mem_cons_of_mem _ hx')
    have scons : ∀ d, sentOf dispA d (m :: rest) = sentOf dispA d [m] + sentOf dispA d rest := by
      intro d; have := sentOf_append dispA d [m] rest; simpa using this
    rw [scons] at hst hb
    -- generic conclusion
    have fin : (∀ x ∈ subs, post x = true) → (∀ x ∈ subs, x.sentFrom ≠ dispA) →
        (∀ d, s'.chain.bank dispA d + sentOf dispA d [m] = s.chain.bank dispA d) →
        (∀ x ∈ subs ++ rest, post x = true) ∧
          s'.chain.bank dispA s0.disp.stDenom = sentOf dispA s0.disp.stDenom (subs ++ rest) ∧
          s'.chain.bank dispA s0.disp.bDenom = sentOf dispA s0.disp.bDenom (subs ++ rest) := by
      intro p1 p2 p3
      have z := fun d => sentOf_notFrom dispA d subs p2
      refine ⟨?_, ?_, ?_⟩
      · intro x hx'
        rcases List.mem_append.mp hx' with h | h
        · exact p1 x h
        · exact hrestp x h
      · rw [sentOf_append, z]; have := p3 s0.disp.stDenom; omega
      · rw [sentOf_append, z]; have := p3 s0.disp.bDenom; omega
    cases m with
    | bankSend src dst d amt =>
      have hs : src = dispA ∧ dst ≠ dispA := by simpa [post] using hm
      obtain ⟨hs1, hs2⟩ := hs
      subst hs1
      have hsubs : subs = [] := sent.2 (fun _ _ _ _ h => by cases h)
      subst hsubs
      refine fin (fun _ h => by cases h) (fun _ h => by cases h) ?_
      intro d'
      simp only [Sys.handle] at hx; exc_norm at hx
      split at hx
      · cases hx
      · rename_i s1 h1
        have bs := bankMove_src s s1 dispA dst d amt (fun h => hs2 h.symm) h1
        cases hx
        by_cases hd : d' = d
        · subst hd; simp only [sentOf, and_self, if_true, Nat.add_zero]; exact bs.1
        · simp only [sentOf, hd, and_false, if_false, Nat.add_zero]
          have hd' : ¬ d = d' := fun h => hd h.symm
          simp only [hd', and_false, if_false, Nat.add_zero]
          exact bs.2 d' hd
    | delegate who v amt =>
      have hsubs : subs = [] := sent.2 (fun _ _ _ _ h => by cases h)
      subst hsubs
      have hw : who = hubA := by simpa [post] using hm
      subst hw
      refine fin (fun _ h => by cases h) (fun _ h => by cases h) ?_
      intro d'
      simp only [Sys.handle] at hx; exc_norm at hx; exc_split at hx
      simp [sentOf, Sys.setBank, upd, show ¬ dispA = hubA from by decide]
    | wasm a b c f =>
      obtain ⟨s1, hmv, hch⟩ := handle_wasm_chain_eq s s' a b c f subs hx
      cases c with
      | hub hm' =>
        cases hm' with
        | bondRewards =>
          have hab : a = dispA ∧ b = hubA := by simpa [post] using hm
          obtain ⟨ha, hbb⟩ := hab
          subst ha; subst hbb
          have out := moveFunds_out_eq dispA hubA (by decide) f s s1 hmv
          have sb := sent.1 _ _ _ _ rfl
          refine fin ?_ (fun x hx' => by rw [sb x hx']; decide) ?_
          · -- its Delegate messages
            rcases hhub with ⟨_, hne⟩ | ⟨s2, sender2, funds2, heq2, _, _, hxx⟩
            · exact absurd rfl (hne _ _)
            · injection heq2 with e1 _ _ e4
              subst e1; subst e4
              simp only [hubExec] at hxx; split at hxx
              · cases hxx
              · obtain ⟨p, st, _, _, _, hd, _⟩ := HubSt.bondR_spec _ _ _ _ _ _ hxx
                obtain ⟨_, reg, vs, _, _, hall⟩ := C02_bond_delegated_in_full s.hub s2.hubEnv p subs hd
                intro x hx''
                obtain ⟨v, a, he, _, _⟩ := hall x hx''
                subst he; rfl
          · intro d'
            rw [hch]
            simp only [sentOf, if_true, Nat.add_zero]
            exact out d'
        | _ => simp [post] at hm
      | reward rm =>
        cases rm with
        | updateGlobalIndex =>
          have hab : (a = dispA ∧ b = rewardA) ∧ f = [] := by simpa [post] using hm
          obtain ⟨⟨ha, hbb⟩, hff⟩ := hab
          subst ha; subst hbb; subst hff
          simp only [Sys.moveFunds] at hmv
          injection hmv with hmv; subst hmv
          have hsubs : subs = [] := by
            cases handle_touch s s' _ subs hx with
            | reward s2 _ _ _ heq _ _ _ hx' _ _ _ _ _ =>
              injection heq with _ _ e3 _
              injection e3 with e3; subst e3
              exact (C14_update_records_bank _ _ _ _ _ _ _ _ hx').1
            | none _ hmm _ _ =>
              rcases hmm with h0 | ⟨_, _, _, _, heq, ht⟩
              · exact absurd rfl (h0 _ _ _ _)
              · injection heq with _ e2 _ _
                rcases ht with ht | ht <;> (rw [ht] at e2; cases e2)
            | hub _ _ _ _ heq _ _ _ _ _ _ _ _ _ => injection heq with _ e2 _ _; cases e2
            | bsei _ _ _ _ heq _ _ _ _ _ _ _ => injection heq with _ e2 _ _; cases e2
            | stsei _ _ _ _ heq _ _ _ _ _ _ => injection heq with _ e2 _ _; cases e2
            | disp _ _ _ _ heq _ _ _ _ _ _ _ _ => injection heq with _ e2 _ _; cases e2
            | reg _ _ _ _ heq _ _ _ _ _ _ _ _ _ => injection heq with _ e2 _ _; cases e2
          subst hsubs
          refine fin (fun _ h => by cases h) (fun _ h => by cases h) ?_
          intro d'
          rw [hch]; simp [sentOf]
        | _ => simp [post] at hm
      | _ => simp [post] at hm
    | _ => simp [post] at hm

/-- **The whole UpdateGlobalIndex transaction, the delivery clauses.** If the transaction succeeds
    in a wired system (keeper rate at most 1, the two reward denoms distinct, the keeper not the
    dispatcher itself), then at the end every reward that was pending on a validator the hub
    delegated to has been withdrawn, and the dispatcher holds nothing of either reward denom: every
    coin it held or received was sent on. -/
theorem C19_end_to_end_delivery (s s' : Sys) (sender : Addr) (w : Wired19 s)
    (hk : s.disp.keeper ≠ dispA) (hrate : s.disp.keeperRate ≤ D) (hden : s.disp.stDenom ≠ s.disp.bDenom)
    (hx : Sys.run 400 s [.wasm sender hubA (.hub .updateGlobalIndex) []] = .ok s') :
    (∀ v ∈ valUniverse, s.chain.delegSet v = true → ∀ d ∈ ([0, 1, 2] : List Denom), s'.chain.pending v d = 0) ∧
    s'.chain.bank dispA s.disp.stDenom = 0 ∧ s'.chain.bank dispA s.disp.bDenom = 0 := by
  simp only [Sys.run] at hx
  split at hx
  · cases hx
  · rename_i s1 subs h1
    cases handle_touch s s1 _ subs h1 with
    | none _ hm' _ _ =>
      rcases hm' with hm' | ⟨_, _, _, _, heq, ht⟩
      · exact absurd rfl (hm' _ _ _ _)
      · injection heq with _ e2 _ _
        rcases ht with ht | ht <;> (rw [ht] at e2; cases e2)
    | bsei _ _ _ _ heq _ _ _ _ _ _ _ => injection heq with _ e2 _ _; cases e2
    | stsei _ _ _ _ heq _ _ _ _ _ _ => injection heq with _ e2 _ _; cases e2
    | reward _ _ _ _ heq _ _ _ _ _ _ _ _ _ => injection heq with _ e2 _ _; cases e2
    | disp _ _ _ _ heq _ _ _ _ _ _ _ _ => injection heq with _ e2 _ _; cases e2
    | reg _ _ _ _ heq _ _ _ _ _ _ _ _ _ => injection heq with _ e2 _ _; cases e2
    | hub s2 sender' funds hm heq h2 hmv hc hx' b t r d g =>
      injection heq with e1 _ e3 e4
      injection e3 with e3
      subst e1; subst e3; subst e4
      simp only [Sys.moveFunds] at hmv
      injection hmv with hmv; subst hmv
      have hp : s.hub.isPaused = false := by
        simp only [hubExec] at hx'
        split at hx'
        · cases hx'
        · rename_i h; simpa using h
      simp only [hubExec, hp, Bool.false_eq_true, if_false] at hx'
      obtain ⟨dsp, hdsp, _, hms, hh⟩ := C19_hub_update_global s.hub s1.hub s.hubEnv sender subs hx'
      have hd : dsp = dispA := by rw [w.hubDisp] at hdsp; injection hdsp with h; exact h.symm
      subst hd
      have hflow : AllFlow subs := by
        rw [hms]
        intro x hx''
        simp only [List.mem_append, List.mem_map, List.mem_cons, List.mem_nil_iff, or_false] at hx''
        rcases hx'' with ⟨dd, _, rfl⟩ | rfl | rfl <;> rfl
      have base1 : UgiInv s s1 (subs ++ []) := by
        rw [List.append_nil]
        refine ⟨⟨by rw [hh]; exact w.hubDisp, by rw [d]; exact w.dispHub, by rw [d]; exact w.dispRw,
          by rw [d]; exact w.keeper, by rw [hc.2.2]; exact w.wa⟩, hflow, b, t, g,
          by rw [hh]; exact ⟨⟨rfl, rfl, rfl, rfl, rfl, rfl, rfl⟩, rfl⟩, by rw [hh], ?_⟩
        rw [hc.2.2]
        have : delSum subs = 0 := by
          rw [hms]
          refine (noStake_sums _ ?_).1
          intro x hx''
          simp only [List.mem_append, List.mem_map, List.mem_cons, List.mem_nil_iff, or_false] at hx''
          rcases hx'' with ⟨dd, _, rfl⟩ | rfl | rfl <;> rfl
        rw [this]; rfl
      have inv1 : DeliverInv s s1 (subs ++ []) := by
        refine ⟨base1, d, ?_, ?_⟩
        · -- a withdrawal for every validator the hub delegates to is in the queue
          intro v hu hv
          right
          rw [List.append_nil, hms]
          apply List.mem_append_left
          simp only [List.mem_map]
          refine ⟨(v, s.chain.deleg v), ?_, rfl⟩
          show (v, s.chain.deleg v) ∈ s.delegationsOf hubA
          unfold Sys.delegationsOf
          simp only [if_true, List.mem_map, List.mem_filter]
          exact ⟨v, ⟨hu, hv⟩, rfl⟩
        · left
          rw [List.append_nil, hms]
          exact ⟨(s.hubEnv.delegations.map fun d => Msg.withdrawReward hubA d.1) ++
            [.wasm hubA dispA (.disp (.swap s.hub.bBond s.hub.sBond)) []], by rw [List.append_assoc]; rfl⟩
      have fin := run_inv2 (DeliverInv s) (fun a m r a' sb => DeliverInv.step s a a' m r sb hk hrate hden) 399 s1 _ s' inv1 hx
      refine ⟨?_, ?_, ?_⟩
      · intro v hu hv dd hdd
        rcases fin.pend v hu hv with h0 | h0
        · exact h0 dd hdd
        · cases h0
      · rcases fin.phase with ⟨pre, hq⟩ | ⟨_, h1, _⟩
        · cases pre <;> simp at hq
        · simpa [sentOf] using h1
      · rcases fin.phase with ⟨pre, hq⟩ | ⟨_, _, h2⟩
        · cases pre <;> simp at hq
        · simpa [sentOf] using h2

/-! ### The pools' side of the transaction

  Before the dispatch message is handled only reward withdrawals, the dispatcher's swap, its
  swap-contract calls and their payouts run (`Pre`): the hub and the stake are untouched.  The dispatch
  emits at most one BondRewards; when it runs no Delegate is pending, so (no slash being unrecognised
  at the start) its slashing check changes nothing, the stSei pool grows by the payment and Delegate
  messages for exactly the payment are queued; each Delegate then moves its amount into the
  delegated stake. -/

def Pre : Msg → Bool
  | .withdrawReward d _ => d == hubA
  | .wasm s t (.disp (.swap _ _)) f => s == hubA && t == dispA && f.isEmpty
  | .wasm s _ (.swapDenom _ _ _ none) _ => s == dispA
  | .bankSend src dst _ _ => src == swapA && dst != hubA
  | _ => false

theorem pre_flow (m : Msg) (h : Pre m = true) : Flow m = true := by
  cases m with
  | wasm a b c f =>
    cases c with
    | disp dm => cases dm <;> simp_all [Pre, Flow]
    | swapDenom x y z t => cases t <;> simp_all [Pre, Flow]
    | _ => simp [Pre] at h
  | bankSend a b c d => simp_all [Pre, Flow]
  | withdrawReward a b => simp_all [Pre, Flow]
  | _ => simp [Pre] at h

def brCount : List Msg → Nat
  | [] => 0
  | m :: ms => (match m with | .wasm _ _ (.hub .bondRewards) _ => 1 | _ => 0) + brCount ms

theorem brCount_append (x y : List Msg) : brCount (x ++ y) = brCount x + brCount y := by
  induction x with
  | nil => simp [brCount]
  | cons m ms ih => simp only [List.cons_append, brCount, ih]; omega

/-- one `Pre` message: emits `Pre` messages, leaves the hub and the stake alone -/
theorem pre_step (s s' : Sys) (m : Msg) (subs : List Msg) (w : Wired19 s) (hp : Pre m = true)
    (hx : s.handle m = .ok (s', subs)) :
    (∀ x ∈ subs, Pre x = true) ∧ s'.hub = s.hub ∧ s'.chain.deleg = s.chain.deleg ∧
      s'.chain.delegSet = s.chain.delegSet := by
  have hf := pre_flow m hp
  obtain ⟨hsub, _, _, _, _, _, hhub⟩ := flow_step s s' m subs w hf hx
  have sent := handle_sentBy s s' m subs hx
  have hh : s'.hub = s.hub := by
    rcases hhub with ⟨h, _⟩ | ⟨_, _, _, heq, _⟩
    · exact h
    · subst heq; simp [Pre] at hp
  cases m with
  | withdrawReward who v =>
    have hsubs : subs = [] := sent.2 (fun _ _ _ _ h => by cases h)
    subst hsubs
    refine ⟨(fun _ h => by cases h), hh, ?_, ?_⟩
    all_goals
      simp only [Sys.handle] at hx
      exc_norm at hx
      exc_split at hx
      simp [List.foldl, Sys.setBank]
  | bankSend src dst d amt =>
    have hsubs : subs = [] := sent.2 (fun _ _ _ _ h => by cases h)
    subst hsubs
    refine ⟨(fun _ h => by cases h), hh, ?_, ?_⟩
    all_goals
      simp only [Sys.handle] at hx
      exc_norm at hx
      split at hx
      · cases hx
      · rename_i s1 h1
        unfold Sys.bankMove at h1
        exc_split at h1
        cases hx
        rfl
  | wasm a b c f =>
    have ch := handle_wasm_chain s s' a b c f subs hx
    refine ⟨?_, hh, ch.1, ch.2⟩
    cases c with
    | disp dm =>
      cases dm with
      | swap x y =>
        cases handle_touch s s' _ subs hx with
        | disp s1 sender funds dm heq _ _ hx' _ _ _ _ _ =>
          injection heq with _ _ e3 _
          injection e3 with e3; subst e3
          have shape := dispSwap_shape _ _ _ _ _ _ _ _ hx'
          intro x hx''
          obtain ⟨tg, dn, am, dd, fs, he⟩ := shape x hx''
          subst he; rfl
        | none _ hmm _ _ =>
          rcases hmm with h0 | ⟨_, _, _, _, heq, ht⟩
          · exact absurd rfl (h0 _ _ _ _)
          · injection heq with _ e2 _ _
            have hb : b = dispA := by simp [Pre] at hp; exact hp.1.2
            rcases ht with ht | ht <;> (rw [← e2, hb] at ht; cases ht)
        | hub _ _ _ _ heq _ _ _ _ _ _ _ _ _ => injection heq with _ _ e3 _; cases e3
        | bsei _ _ _ _ heq _ _ _ _ _ _ _ => injection heq with _ _ e3 _; cases e3
        | stsei _ _ _ _ heq _ _ _ _ _ _ => injection heq with _ _ e3 _; cases e3
        | reward _ _ _ _ heq _ _ _ _ _ _ _ _ _ => injection heq with _ _ e3 _; cases e3
        | reg _ _ _ _ heq _ _ _ _ _ _ _ _ _ => injection heq with _ _ e3 _; cases e3
      | _ => simp [Pre] at hp
    | swapDenom sd am dd tgt =>
      cases handle_touch s s' _ subs hx with
      | none _ _ _ hb =>
        intro x hx''
        obtain ⟨t, d, a', he⟩ := hb x hx''
        have hfx := hsub x hx''
        subst he
        simp only [Flow, Bool.and_eq_true, Bool.or_eq_true] at hfx
        simp only [Pre, Bool.and_eq_true]
        exact ⟨by decide, hfx.2⟩
      | hub _ _ _ _ heq _ _ _ _ _ _ _ _ _ => injection heq with _ _ e3 _; cases e3
      | bsei _ _ _ _ heq _ _ _ _ _ _ _ => injection heq with _ _ e3 _; cases e3
      | stsei _ _ _ _ heq _ _ _ _ _ _ => injection heq with _ _ e3 _; cases e3
      | reward _ _ _ _ heq _ _ _ _ _ _ _ _ _ => injection heq with _ _ e3 _; cases e3
      | disp _ _ _ _ heq _ _ _ _ _ _ _ _ => injection heq with _ _ e3 _; cases e3
      | reg _ _ _ _ heq _ _ _ _ _ _ _ _ _ => injection heq with _ _ e3 _; cases e3
    | _ => simp [Pre] at hp
  | _ => simp [Pre] at hp

theorem handle_delegate (s s' : Sys) (v : Addr) (amt : Nat) (subs : List Msg)
    (hx : s.handle (.delegate hubA v amt) = .ok (s', subs)) :
    amt ≠ 0 ∧ v ∈ valUniverse ∧ s'.hub = s.hub ∧
      s'.chain.deleg = upd s.chain.deleg v (s.chain.deleg v + amt) ∧
      s'.chain.delegSet = upd s.chain.delegSet v true := by
  simp only [Sys.handle] at hx
  exc_norm at hx
  exc_split at hx
  rename_i _ hz hin _
  exact ⟨hz, by simpa using hin, rfl, rfl, rfl⟩

theorem pre_counts (l : List Msg) (h : ∀ x ∈ l, Pre x = true) : delSum l = 0 ∧ brCount l = 0 := by
  induction l with
  | nil => exact ⟨rfl, rfl⟩
  | cons m ms ih =>
    have hm := h m (List.mem_cons_self ..)
    have r := ih (fun x hx => h x (List.mem_cons_of_mem _ hx))
    cases m with
    | wasm a b c f =>
      cases c with
      | hub hm' => simp [Pre] at hm
      | _ => simp [delSum, brCount, r.1, r.2]
    | delegate a b c => simp [Pre] at hm
    | _ => simp [delSum, brCount, r.1, r.2]

theorem stake_counts (l : List Msg) (h : ∀ x ∈ l, isStake x = true) : brCount l = 0 ∧ ∀ x ∈ l, x ≠ dMsg := by
  induction l with
  | nil => exact ⟨rfl, fun _ h => by cases h⟩
  | cons m ms ih =>
    have hm := h m (List.mem_cons_self ..)
    have r := ih (fun x hx => h x (List.mem_cons_of_mem _ hx))
    refine ⟨?_, ?_⟩
    · cases m <;> simp_all [isStake, brCount]
    · intro x hx
      rcases List.mem_cons.mp hx with rfl | hx
      · intro he; rw [he] at hm; simp [isStake, dMsg] at hm
      · exact r.2 x hx

theorem post_ne_dMsg (l : List Msg) (h : ∀ x ∈ l, post x = true) : ∀ x ∈ l, x ≠ dMsg := by
  intro x hx he
  have := h x hx
  rw [he] at this; simp [post, dMsg] at this

theorem coinMsgs_counts (c : DispSt) (x : Nat) :
    (∀ ms, coinMsgsB c dispA x = .ok ms → brCount ms = 0 ∧ delSum ms = 0) ∧
    (∀ ms, coinMsgsSt c dispA x = .ok ms → brCount ms ≤ 1 ∧ delSum ms = 0) := by
  constructor
  · intro ms hx; unfold coinMsgsB at hx; exc_split at hx <;> simp [brCount, delSum]
  · intro ms hx; unfold coinMsgsSt at hx; exc_split at hx <;> simp [brCount, delSum]

/-- carried through the queue of the index update for the pools' clause -/
structure PoolInv (s0 s : Sys) (q : List Msg) : Prop where
  dl : DeliverInv s0 s q
  chain : ChainOK s
  bb : s.hub.bBond = s0.hub.bBond
  pool : s.hub.sBond + totalDelegated s0 = s0.hub.sBond + totalDelegated s + delSum q
  mono : totalDelegated s0 ≤ totalDelegated s
  shape : (∃ pre, q = pre ++ [dMsg] ∧ ∀ x ∈ pre, Pre x = true) ∨
    ((∀ x ∈ q, post x = true) ∧ brCount q ≤ 1 ∧ (0 < delSum q → brCount q = 0))

set_option maxHeartbeats 2000000 in
theorem PoolInv.step (s0 s s' : Sys) (m : Msg) (rest subs : List Msg)
    (hk : s0.disp.keeper ≠ dispA) (hrate : s0.disp.keeperRate ≤ D) (hden : s0.disp.stDenom ≠ s0.disp.bDenom)
    (hns : s0.hub.bBond + s0.hub.sBond ≤ totalDelegated s0)
    (inv : PoolInv s0 s (m :: rest)) (hx : s.handle m = .ok (s', subs)) : PoolInv s0 s' (subs ++ rest) := by
  have dl' := DeliverInv.step s0 s s' m rest subs hk hrate hden inv.dl hx
  have w := inv.dl.base.wired
  have c := inv.chain
  have hf : Flow m = true := inv.dl.base.flow m (List.mem_cons_self ..)
  obtain ⟨hsub, _, _, _, _, hdisp, hhub⟩ := flow_step s s' m subs w hf hx
  have dcons : delSum (m :: rest) = delSum [m] + delSum rest := by
    have := delSum_append [m] rest; simpa using this
  have bcons : brCount (m :: rest) = brCount [m] + brCount rest := by
    have := brCount_append [m] rest; simpa using this
  have hpool := inv.pool
  rw [dcons] at hpool
  -- when the hub and the stake are untouched and neither `m` nor what it emits delegates
  have same : s'.hub = s.hub → s'.chain.deleg = s.chain.deleg → s'.chain.delegSet = s.chain.delegSet →
      delSum [m] = 0 → delSum subs = 0 →
      ChainOK s' ∧ s'.hub.bBond = s0.hub.bBond ∧
        s'.hub.sBond + totalDelegated s0 = s0.hub.sBond + totalDelegated s' + delSum (subs ++ rest) ∧
        totalDelegated s0 ≤ totalDelegated s' := by
    intro hh hd hds h1 h2
    have : totalDelegated s' = totalDelegated s := by unfold totalDelegated; rw [hd]
    refine ⟨⟨fun v hv => by rw [hd]; exact c.outside v hv, fun v hv => by rw [hd]; rw [hds] at hv; exact c.unset v hv⟩,
      by rw [hh]; exact inv.bb, ?_, by rw [this]; exact inv.mono⟩
    rw [delSum_append, h2, hh]
    rw [this]; omega
  rcases inv.shape with ⟨pre, hq, hpre⟩ | ⟨hpost, hbr, hdel⟩
  · cases pre with
    | cons p pre' =>
      simp only [List.cons_append] at hq
      injection hq with e1 e2
      subst e1
      have hp : Pre m = true := hpre m (List.mem_cons_self ..)
      obtain ⟨hsubp, hh, hd, hds⟩ := pre_step s s' m subs w hp hx
      have c1 := pre_counts [m] (fun x hx' => by simp at hx'; subst hx'; exact hp)
      have c2 := pre_counts subs hsubp
      obtain ⟨k1, k2, k3, k4⟩ := same hh hd hds c1.1 c2.1
      refine ⟨dl', k1, k2, k3, k4, Or.inl ⟨subs ++ pre', by rw [e2, List.append_assoc], ?_⟩⟩
      intro x hx'
      rcases List.mem_append.mp hx' with h | h
      · exact hsubp x h
      · exact hpre x (List.mem_cons_of_mem _ h)
    | nil =>
      simp only [List.nil_append] at hq
      injection hq with e1 e2
      subst e1; subst e2
      simp only [dMsg] at hx
      have ch := handle_wasm_chain s s' _ _ _ _ subs hx
      cases handle_touch s s' _ subs hx with
      | none _ hmm _ _ =>
        rcases hmm with h0 | ⟨_, _, _, _, heq, ht⟩
        · exact absurd rfl (h0 _ _ _ _)
        · injection heq with _ e2 _ _
          rcases ht with ht | ht <;> (rw [ht] at e2; cases e2)
      | hub _ _ _ _ heq _ _ _ _ _ _ _ _ _ => injection heq with _ e2 _ _; cases e2
      | bsei _ _ _ _ heq _ _ _ _ _ _ _ => injection heq with _ e2 _ _; cases e2
      | stsei _ _ _ _ heq _ _ _ _ _ _ => injection heq with _ e2 _ _; cases e2
      | reward _ _ _ _ heq _ _ _ _ _ _ _ _ _ => injection heq with _ e2 _ _; cases e2
      | reg _ _ _ _ heq _ _ _ _ _ _ _ _ _ => injection heq with _ e2 _ _; cases e2
      | disp s1 sender funds dm heq hmv' hch' hx' hh _ _ _ _ =>
        injection heq with e1 _ e3 e4
        injection e3 with e3
        subst e1; subst e3; subst e4
        have hc0 := inv.dl.cfg
        have hms : ∃ m1 m2 b1 b2, coinMsgsB s.disp dispA b1 = .ok m1 ∧ coinMsgsSt s.disp dispA b2 = .ok m2 ∧
            subs = m1 ++ m2 ++ [Msg.wasm dispA s.disp.rewardContract (.reward .updateGlobalIndex) []] := by
          simp only [dispExec] at hx'; exc_norm at hx'
          split at hx'
          · cases hx'
          · split at hx'
            · cases hx'
            · rename_i ms' hd
              injection hx' with hx'; injection hx' with _ h2; subst h2
              unfold dispatchMsgs at hd
              split at hd
              · cases hd
              · rename_i m1 hm1
                split at hd
                · cases hd
                · rename_i m2 hm2
                  injection hd with hd
                  exact ⟨m1, m2, _, _, hm1, hm2, hd.symm⟩
        obtain ⟨m1, m2, b1, b2, hm1, hm2, hsubs⟩ := hms
        have cp := coinMsgs_post s.disp
        have cc := coinMsgs_counts s.disp
        have p1 := (cp b1 w.dispHub (by rw [hc0]; exact hk) (by rw [w.dispRw]; decide)).1 m1 hm1
        have p2 := (cp b2 w.dispHub (by rw [hc0]; exact hk) (by rw [w.dispRw]; decide)).2 m2 hm2
        have n1 := (cc b1).1 m1 hm1
        have n2 := (cc b2).2 m2 hm2
        have dsub : delSum subs = 0 := by
          rw [hsubs, delSum_append, delSum_append, n1.2, n2.2]; rfl
        have bsub : brCount subs ≤ 1 := by
          rw [hsubs, brCount_append, brCount_append, n1.1]; simp [brCount]; exact n2.1
        obtain ⟨k1, k2, k3, k4⟩ := same hh ch.1 ch.2 rfl dsub
        refine ⟨dl', k1, k2, k3, k4, Or.inr ⟨?_, by rw [List.append_nil]; exact bsub, by rw [List.append_nil, dsub]; intro h; cases h⟩⟩
        rw [List.append_nil, hsubs]
        intro x hx''
        rcases List.mem_append.mp hx'' with h | h
        · rcases List.mem_append.mp h with h | h
          · exact p1 x h
          · exact p2 x h
        · simp at h; subst h; simp [post, w.dispRw]
  · -- after the dispatch
    have hm : post m = true := hpost m (List.mem_cons_self ..)
    have hrestp : ∀ x ∈ rest, post x = true := fun x hx' => hpost x (List.mem_cons_of_mem _ hx')
    rw [bcons] at hbr
    rw [dcons, bcons] at hdel
    have sent := handle_sentBy s s' m subs hx
    -- the new queue is still past the dispatch
    have postOf : (∀ x ∈ subs, x ≠ dMsg) → ∀ x ∈ subs ++ rest, post x = true := by
      intro hne
      rcases dl'.phase with ⟨pre, hq⟩ | ⟨h, _, _⟩
      · exfalso
        have : dMsg ∈ subs ++ rest := by rw [hq]; simp
        rcases List.mem_append.mp this with h | h
        · exact hne _ h rfl
        · exact post_ne_dMsg rest hrestp _ h rfl
      · exact h
    cases m with
    | bankSend src dst d amt =>
      have hsubs : subs = [] := sent.2 (fun _ _ _ _ h => by cases h)
      subst hsubs
      have hh : s'.hub = s.hub := by
        rcases hhub with ⟨h, _⟩ | ⟨_, _, _, heq, _⟩
        · exact h
        · cases heq
      have hch : s'.chain.deleg = s.chain.deleg ∧ s'.chain.delegSet = s.chain.delegSet := by
        simp only [Sys.handle] at hx
        exc_norm at hx
        split at hx
        · cases hx
        · rename_i s1 h1
          unfold Sys.bankMove at h1
          exc_split at h1
          cases hx
          exact ⟨rfl, rfl⟩
      obtain ⟨k1, k2, k3, k4⟩ := same hh hch.1 hch.2 rfl rfl
      refine ⟨dl', k1, k2, k3, k4, Or.inr ⟨postOf (fun _ h => by cases h), ?_, ?_⟩⟩
      · simp only [List.nil_append]; simp only [brCount] at hbr; omega
      · simp only [List.nil_append]; intro h; have := hdel (by simp only [delSum]; omega); simp only [brCount] at this; omega
    | delegate who v amt =>
      have hsubs : subs = [] := sent.2 (fun _ _ _ _ h => by cases h)
      subst hsubs
      have hw : who = hubA := by simpa [post] using hm
      subst hw
      have hh : s'.hub = s.hub := by
        rcases hhub with ⟨h, _⟩ | ⟨_, _, _, heq, _⟩
        · exact h
        · cases heq
      obtain ⟨hz, hv, _, hdg, hds⟩ := handle_delegate s s' v amt [] hx
      have hs := sum_upd valUniverse s.chain.deleg v (s.chain.deleg v + amt) valUniverse_nodup
      simp only [hv, if_true] at hs
      have hamt : 0 < amt := Nat.pos_of_ne_zero hz
      have hb0 : brCount rest = 0 := by
        have := hdel (by simp only [delSum, if_true]; omega)
        simp only [brCount] at this; omega
      refine ⟨dl', ⟨fun w' hw' => ?_, fun w' hw' => ?_⟩, by rw [hh]; exact inv.bb, ?_, ?_, Or.inr ⟨postOf (fun _ h => by cases h), ?_, ?_⟩⟩
      · have hne : w' ≠ v := fun h => hw' (h ▸ hv)
        rw [hdg, upd_other _ _ _ _ hne]; exact c.outside w' hw'
      · by_cases hwv : w' = v
        · subst hwv; rw [hds, upd_same] at hw'; cases hw'
        · rw [hds, upd_other _ _ _ _ hwv] at hw'
          rw [hdg, upd_other _ _ _ _ hwv]; exact c.unset w' hw'
      · rw [hh]
        unfold totalDelegated at hpool ⊢
        rw [hdg]
        simp only [delSum, if_true, List.nil_append] at hpool ⊢
        omega
      · have := inv.mono
        unfold totalDelegated at this ⊢
        rw [hdg]
        omega
      · simp only [List.nil_append, hb0]; omega
      · simp only [List.nil_append, hb0]; intro _; trivial
    | wasm a b cl f =>
      have ch := handle_wasm_chain s s' a b cl f subs hx
      cases cl with
      | hub hm' =>
        cases hm' with
        | bondRewards =>
          have hab : a = dispA ∧ b = hubA := by simpa [post] using hm
          obtain ⟨ha, hbb⟩ := hab
          subst ha; subst hbb
          -- it is the only BondRewards, and no Delegate is pending
          have hb0 : brCount rest = 0 := by simp only [brCount] at hbr; omega
          have hd0 : delSum rest = 0 := by
            by_cases h : 0 < delSum rest
            · have := hdel (by simp only [delSum]; omega); simp only [brCount] at this; omega
            · omega
          rcases hhub with ⟨_, hne⟩ | ⟨s1, sender2, funds2, heq2, hmv, hs1, hxx⟩
          · exact absurd rfl (hne _ _)
          · injection heq2 with e1 _ _ e4
            subst e1; subst e4
            have sk := moveFunds_staking dispA hubA f s s1 hmv
            have c1 : ChainOK s1 := ⟨fun w' hw' => by rw [sk.1]; exact c.outside w' hw',
              fun w' hw' => by rw [sk.1]; rw [sk.2] at hw'; exact c.unset w' hw'⟩
            have hT : ((s1.hubEnv.delegations).map (·.2)).sum = totalDelegated s := by
              rw [delegations_sum s1 c1]; unfold totalDelegated; rw [sk.1]
            simp only [hubExec] at hxx; split at hxx
            · cases hxx
            · obtain ⟨p, st, _, _, hst, hd, hh'⟩ := HubSt.bondR_spec _ _ _ _ _ _ hxx
              have hbooks : s.hub.bBond + s.hub.sBond ≤ totalDelegated s := by
                have := inv.bb
                simp only [delSum] at hpool
                omega
              obtain ⟨q1, q2, _⟩ := C06_no_slash_no_change s.hub st s1.hubEnv hst (by rw [hT]; exact hbooks)
              obtain ⟨stk, dsum, _⟩ := delegs_stake s.hub s1.hubEnv p subs rfl hd
              have sc := stake_counts subs stk
              have hTD : totalDelegated s' = totalDelegated s := by unfold totalDelegated; rw [ch.1]
              refine ⟨dl', ⟨fun w' hw' => by rw [ch.1]; exact c.outside w' hw',
                fun w' hw' => by rw [ch.1]; rw [ch.2] at hw'; exact c.unset w' hw'⟩, ?_, ?_,
                by rw [hTD]; exact inv.mono, Or.inr ⟨postOf sc.2, ?_, ?_⟩⟩
              · rw [hh']; show st.bBond = _; rw [q1]; exact inv.bb
              · rw [hh', delSum_append, dsum, hd0, hTD]
                show st.sBond + p + _ = _
                rw [q2]
                simp only [delSum] at hpool
                omega
              · rw [brCount_append, sc.1, hb0]; omega
              · intro _; rw [brCount_append, sc.1, hb0]
        | _ => simp [post] at hm
      | reward rm =>
        cases rm with
        | updateGlobalIndex =>
          have hh : s'.hub = s.hub := by
            rcases hhub with ⟨h, _⟩ | ⟨_, _, _, heq, _⟩
            · exact h
            · cases heq
          have hab : (a = dispA ∧ b = rewardA) ∧ f = [] := by simpa [post] using hm
          obtain ⟨⟨ha, hbb⟩, hff⟩ := hab
          subst ha; subst hbb; subst hff
          have hsubs : subs = [] := by
            cases handle_touch s s' _ subs hx with
            | reward s2 _ _ _ heq _ _ _ hx' _ _ _ _ _ =>
              injection heq with _ _ e3 _
              injection e3 with e3; subst e3
              exact (C14_update_records_bank _ _ _ _ _ _ _ _ hx').1
            | none _ hmm _ _ =>
              rcases hmm with h0 | ⟨_, _, _, _, heq, ht⟩
              · exact absurd rfl (h0 _ _ _ _)
              · injection heq with _ e2 _ _
                rcases ht with ht | ht <;> (rw [ht] at e2; cases e2)
            | hub _ _ _ _ heq _ _ _ _ _ _ _ _ _ => injection heq with _ e2 _ _; cases e2
            | bsei _ _ _ _ heq _ _ _ _ _ _ _ => injection heq with _ e2 _ _; cases e2
            | stsei _ _ _ _ heq _ _ _ _ _ _ => injection heq with _ e2 _ _; cases e2
            | disp _ _ _ _ heq _ _ _ _ _ _ _ _ => injection heq with _ e2 _ _; cases e2
            | reg _ _ _ _ heq _ _ _ _ _ _ _ _ _ => injection heq with _ e2 _ _; cases e2
          subst hsubs
          obtain ⟨k1, k2, k3, k4⟩ := same hh ch.1 ch.2 rfl rfl
          refine ⟨dl', k1, k2, k3, k4, Or.inr ⟨postOf (fun _ h => by cases h), ?_, ?_⟩⟩
          · simp only [List.nil_append]; simp only [brCount] at hbr; omega
          · simp only [List.nil_append]; intro h; have := hdel (by simp only [delSum]; omega); simp only [brCount] at this; omega
        | _ => simp [post] at hm
      | _ => simp [post] at hm
    | _ => simp [post] at hm

/-- the first step of the transaction: the hub's handler has run, its messages are queued, and
    the queue invariant holds -/
theorem ugi_start (s s' : Sys) (sender : Addr) (w : Wired19 s) (c : ChainOK s)
    (hx : Sys.run 400 s [.wasm sender hubA (.hub .updateGlobalIndex) []] = .ok s') :
    ∃ s1 subs, Sys.run 399 s1 (subs ++ []) = .ok s' ∧ PoolInv s s1 (subs ++ []) ∧ s1.reward = s.reward ∧
      ∃ pre, subs = pre ++ [dMsg] ∧ ∀ x ∈ pre, Pre x = true := by
  simp only [Sys.run] at hx
  split at hx
  · cases hx
  · rename_i s1 subs h1
    cases handle_touch s s1 _ subs h1 with
    | none _ hm' _ _ =>
      rcases hm' with hm' | ⟨_, _, _, _, heq, ht⟩
      · exact absurd rfl (hm' _ _ _ _)
      · injection heq with _ e2 _ _
        rcases ht with ht | ht <;> (rw [ht] at e2; cases e2)
    | bsei _ _ _ _ heq _ _ _ _ _ _ _ => injection heq with _ e2 _ _; cases e2
    | stsei _ _ _ _ heq _ _ _ _ _ _ => injection heq with _ e2 _ _; cases e2
    | reward _ _ _ _ heq _ _ _ _ _ _ _ _ _ => injection heq with _ e2 _ _; cases e2
    | disp _ _ _ _ heq _ _ _ _ _ _ _ _ => injection heq with _ e2 _ _; cases e2
    | reg _ _ _ _ heq _ _ _ _ _ _ _ _ _ => injection heq with _ e2 _ _; cases e2
    | hub s2 sender' funds hm heq h2 hmv hc hx' b t r d g =>
      injection heq with e1 _ e3 e4
      injection e3 with e3
      subst e1; subst e3; subst e4
      simp only [Sys.moveFunds] at hmv
      injection hmv with hmv; subst hmv
      have hp : s.hub.isPaused = false := by
        simp only [hubExec] at hx'
        split at hx'
        · cases hx'
        · rename_i h; simpa using h
      simp only [hubExec, hp, Bool.false_eq_true, if_false] at hx'
      obtain ⟨dsp, hdsp, _, hms, hh⟩ := C19_hub_update_global s.hub s1.hub s.hubEnv sender subs hx'
      have hd : dsp = dispA := by rw [w.hubDisp] at hdsp; injection hdsp with h; exact h.symm
      subst hd
      have hflow : AllFlow subs := by
        rw [hms]
        intro x hx''
        simp only [List.mem_append, List.mem_map, List.mem_cons, List.mem_nil_iff, or_false] at hx''
        rcases hx'' with ⟨dd, _, rfl⟩ | rfl | rfl <;> rfl
      have hdel0 : delSum subs = 0 := by
        rw [hms]
        refine (noStake_sums _ ?_).1
        intro x hx''
        simp only [List.mem_append, List.mem_map, List.mem_cons, List.mem_nil_iff, or_false] at hx''
        rcases hx'' with ⟨dd, _, rfl⟩ | rfl | rfl <;> rfl
      have base1 : UgiInv s s1 (subs ++ []) := by
        rw [List.append_nil]
        refine ⟨⟨by rw [hh]; exact w.hubDisp, by rw [d]; exact w.dispHub, by rw [d]; exact w.dispRw,
          by rw [d]; exact w.keeper, by rw [hc.2.2]; exact w.wa⟩, hflow, b, t, g,
          by rw [hh]; exact ⟨⟨rfl, rfl, rfl, rfl, rfl, rfl, rfl⟩, rfl⟩, by rw [hh], ?_⟩
        rw [hc.2.2, hdel0]; rfl
      have hsplit : subs = ((s.hubEnv.delegations.map fun d => Msg.withdrawReward hubA d.1) ++
            [.wasm hubA dispA (.disp (.swap s.hub.bBond s.hub.sBond)) []]) ++ [dMsg] := by
        rw [hms, List.append_assoc]; rfl
      have dl1 : DeliverInv s s1 (subs ++ []) := by
        refine ⟨base1, d, ?_, ?_⟩
        · intro v hu hv
          right
          rw [List.append_nil, hms]
          apply List.mem_append_left
          simp only [List.mem_map]
          refine ⟨(v, s.chain.deleg v), ?_, rfl⟩
          show (v, s.chain.deleg v) ∈ s.delegationsOf hubA
          unfold Sys.delegationsOf
          simp only [if_true, List.mem_map, List.mem_filter]
          exact ⟨v, ⟨hu, hv⟩, rfl⟩
        · left
          rw [List.append_nil]
          exact ⟨_, hsplit⟩
      have inv1 : PoolInv s s1 (subs ++ []) := by
        refine ⟨dl1, ⟨fun v hv => by rw [hc.2.2]; exact c.outside v hv, fun v hv => by
            rw [hc.2.2] at hv ⊢; exact c.unset v hv⟩, by rw [hh], ?_, ?_, Or.inl ⟨_, by rw [List.append_nil]; exact hsplit, ?_⟩⟩
        · rw [List.append_nil, hdel0, hh]
          have : totalDelegated s1 = totalDelegated s := by unfold totalDelegated; rw [hc.2.2]
          rw [this]; rfl
        · have : totalDelegated s1 = totalDelegated s := by unfold totalDelegated; rw [hc.2.2]
          rw [this]
        · intro x hx''
          simp only [List.mem_append, List.mem_map, List.mem_cons, List.mem_nil_iff, or_false] at hx''
          rcases hx'' with ⟨dd, _, rfl⟩ | rfl <;> rfl
      refine ⟨s1, subs, hx, inv1, r, _, hsplit, ?_⟩
      intro x hx''
      simp only [List.mem_append, List.mem_map, List.mem_cons, List.mem_nil_iff, or_false] at hx''
      rcases hx'' with ⟨dd, _, rfl⟩ | rfl <;> rfl

/-- **The whole UpdateGlobalIndex transaction, the pools.** If no slash is unrecognised when the
    transaction starts (booked stake ≤ delegated stake) and it succeeds, then at the end the bSei pool
    is exactly what it was and the stSei pool has grown by exactly the amount by which the hub's
    delegated stake has grown: what was re-bonded was delegated in full and booked to stSei alone. -/
theorem C19_end_to_end_pools (s s' : Sys) (sender : Addr) (w : Wired19 s) (c : ChainOK s)
    (hk : s.disp.keeper ≠ dispA) (hrate : s.disp.keeperRate ≤ D) (hden : s.disp.stDenom ≠ s.disp.bDenom)
    (hns : s.hub.bBond + s.hub.sBond ≤ totalDelegated s)
    (hx : Sys.run 400 s [.wasm sender hubA (.hub .updateGlobalIndex) []] = .ok s') :
    s'.hub.bBond = s.hub.bBond ∧
    s'.hub.sBond + totalDelegated s = s.hub.sBond + totalDelegated s' ∧
    totalDelegated s ≤ totalDelegated s' := by
  obtain ⟨s1, subs, hx, inv1, _, _⟩ := ugi_start s s' sender w c hx
  have fin := run_inv2 (PoolInv s) (fun a m r a' sb => PoolInv.step s a a' m r sb hk hrate hden hns) 399 s1 _ s' inv1 hx
  have hpool := fin.pool
  simp only [delSum, Nat.add_zero] at hpool
  exact ⟨fin.bb, hpool, fin.mono⟩

/-! ### The bSei holders' side of the transaction

  The reward contract is touched by exactly one message of the flow — its own index update, which
  the dispatch emits last — so it runs when every transfer has arrived, as the very last message of
  the transaction, and what it records is the contract's final bank balance. -/

theorem handle_reward_same (s s' : Sys) (m : Msg) (subs : List Msg) (hx : s.handle m = .ok (s', subs))
    (hne : ∀ sender rm f, m ≠ .wasm sender rewardA (.reward rm) f) : s'.reward = s.reward := by
  cases handle_touch s s' m subs hx with
  | none h _ _ _ => exact h.reward
  | hub _ _ _ _ _ _ _ _ _ _ _ r _ _ => exact r
  | bsei _ _ _ _ _ _ _ _ _ r _ _ => exact r
  | stsei _ _ _ _ _ _ _ _ r _ _ => exact r
  | reward _ _ _ _ heq _ _ _ _ _ _ _ _ _ => exact absurd heq (hne _ _ _)
  | disp _ _ _ _ _ _ _ _ _ _ _ r _ => exact r
  | reg _ _ _ _ _ _ _ _ _ _ _ _ r _ => exact r

def uMsg : Msg := .wasm dispA rewardA (.reward .updateGlobalIndex) []

def NoUgi (q : List Msg) : Prop := ∀ x ∈ q, ∀ sender rm f, x ≠ Msg.wasm sender rewardA (.reward rm) f

theorem NoUgi.append {x y : List Msg} (h1 : NoUgi x) (h2 : NoUgi y) : NoUgi (x ++ y) := by
  intro m hm
  rcases List.mem_append.mp hm with h | h
  · exact h1 m h
  · exact h2 m h

theorem pre_noUgi (l : List Msg) (h : ∀ x ∈ l, Pre x = true) : NoUgi l := by
  intro x hx sender rm f he
  have := h x hx
  rw [he] at this; simp [Pre] at this

theorem stake_noUgi (l : List Msg) (h : ∀ x ∈ l, isStake x = true) : NoUgi l := by
  intro x hx sender rm f he
  have := h x hx
  rw [he] at this; simp [isStake] at this

theorem coinMsgs_noUgi (c : DispSt) (x : Nat) (hh : c.hub = hubA) :
    (∀ ms, coinMsgsB c dispA x = .ok ms → NoUgi ms) ∧ (∀ ms, coinMsgsSt c dispA x = .ok ms → NoUgi ms) := by
  constructor
  · intro ms hx; unfold coinMsgsB at hx; exc_split at hx
    · intro m hm; cases hm
    · intro m hm; simp at hm; rcases hm with rfl | rfl <;> (intro _ _ _ he; cases he)
  · intro ms hx; unfold coinMsgsSt at hx; exc_split at hx
    · intro m hm; cases hm
    · intro m hm; simp at hm; subst hm; intro _ _ _ he; cases he
    · intro m hm; simp at hm; rcases hm with rfl | rfl
      · intro _ _ _ he; cases he
      · intro _ _ _ he; rw [hh] at he; injection he with _ e2 _ _; cases e2

/-- what the reward contract's index update leaves behind -/
def Recorded (s0 s : Sys) : Prop :=
  (s0.reward.totalBalance = 0 ∧ s.reward = s0.reward) ∨
  (s0.reward.totalBalance ≠ 0 ∧
    s.reward.prevRewardBalance = s.chain.bank rewardA s0.reward.rewardDenom ∧
    s0.reward.prevRewardBalance ≤ s.chain.bank rewardA s0.reward.rewardDenom ∧
    (s0.reward.Inv → s.reward.prevRewardBalance * D + sumOn s0.reward.holders s0.reward.owed <
      sumOn s.reward.holders s.reward.owed + s0.reward.prevRewardBalance * D + s0.reward.totalBalance + 1))

structure RewInv (s0 s : Sys) (q : List Msg) : Prop where
  pl : PoolInv s0 s q
  rw : (s.reward = s0.reward ∧ ((∃ pre, q = pre ++ [dMsg] ∧ ∀ x ∈ pre, Pre x = true) ∨
      ∃ pre, q = pre ++ [uMsg] ∧ NoUgi pre)) ∨ (q = [] ∧ Recorded s0 s)

theorem RewInv.step (s0 s s' : Sys) (m : Msg) (rest subs : List Msg)
    (hk : s0.disp.keeper ≠ dispA) (hrate : s0.disp.keeperRate ≤ D) (hden : s0.disp.stDenom ≠ s0.disp.bDenom)
    (hns : s0.hub.bBond + s0.hub.sBond ≤ totalDelegated s0)
    (inv : RewInv s0 s (m :: rest)) (hx : s.handle m = .ok (s', subs)) : RewInv s0 s' (subs ++ rest) := by
  have pl' := PoolInv.step s0 s s' m rest subs hk hrate hden hns inv.pl hx
  refine ⟨pl', ?_⟩
  have w := inv.pl.dl.base.wired
  rcases inv.rw with ⟨hr, hu⟩ | ⟨hq, _⟩
  swap
  · cases hq
  -- the queue's shape without its head
  by_cases hm : ∀ sender rm f, m ≠ Msg.wasm sender rewardA (.reward rm) f
  · -- some other message: the reward contract is untouched
    have hr' : s'.reward = s0.reward := (handle_reward_same s s' m subs hx hm).trans hr
    rcases hu with ⟨pre, hq, hpre⟩ | ⟨pre, hq, hp⟩
    · cases pre with
      | cons p pre' =>
        simp only [List.cons_append] at hq
        injection hq with e1 e2
        subst e1
        have hp : Pre m = true := hpre m (List.mem_cons_self ..)
        left
        refine ⟨hr', Or.inl ⟨subs ++ pre', by rw [e2, List.append_assoc], ?_⟩⟩
        intro x hx'
        rcases List.mem_append.mp hx' with h | h
        · exact (pre_step s s' m subs w hp hx).1 x h
        · exact hpre x (List.mem_cons_of_mem _ h)
      | nil =>
        -- the dispatch: the index update is the last thing it emits, and nothing else is queued
        simp only [List.nil_append] at hq
        injection hq with e1 e2
        subst e1; subst e2
        simp only [dMsg] at hx
        cases handle_touch s s' _ subs hx with
        | none _ hmm _ _ =>
          rcases hmm with h0 | ⟨_, _, _, _, heq, ht⟩
          · exact absurd rfl (h0 _ _ _ _)
          · injection heq with _ e2 _ _
            rcases ht with ht | ht <;> (rw [ht] at e2; cases e2)
        | hub _ _ _ _ heq _ _ _ _ _ _ _ _ _ => injection heq with _ e2 _ _; cases e2
        | bsei _ _ _ _ heq _ _ _ _ _ _ _ => injection heq with _ e2 _ _; cases e2
        | stsei _ _ _ _ heq _ _ _ _ _ _ => injection heq with _ e2 _ _; cases e2
        | reward _ _ _ _ heq _ _ _ _ _ _ _ _ _ => injection heq with _ e2 _ _; cases e2
        | reg _ _ _ _ heq _ _ _ _ _ _ _ _ _ => injection heq with _ e2 _ _; cases e2
        | disp s1 sender funds dm heq hmv' hch' hx' hh _ _ _ _ =>
          injection heq with e1 _ e3 e4
          injection e3 with e3
          subst e1; subst e3; subst e4
          have hms : ∃ m1 m2 b1 b2, coinMsgsB s.disp dispA b1 = .ok m1 ∧ coinMsgsSt s.disp dispA b2 = .ok m2 ∧
              subs = m1 ++ m2 ++ [Msg.wasm dispA s.disp.rewardContract (.reward .updateGlobalIndex) []] := by
            simp only [dispExec] at hx'; exc_norm at hx'
            split at hx'
            · cases hx'
            · split at hx'
              · cases hx'
              · rename_i ms' hd
                injection hx' with hx'; injection hx' with _ h2; subst h2
                unfold dispatchMsgs at hd
                split at hd
                · cases hd
                · rename_i m1 hm1
                  split at hd
                  · cases hd
                  · rename_i m2 hm2
                    injection hd with hd
                    exact ⟨m1, m2, _, _, hm1, hm2, hd.symm⟩
          obtain ⟨m1, m2, b1, b2, hm1, hm2, hsubs⟩ := hms
          have cu := coinMsgs_noUgi s.disp
          left
          refine ⟨hr', Or.inr ⟨m1 ++ m2, ?_, ((cu b1 w.dispHub).1 m1 hm1).append ((cu b2 w.dispHub).2 m2 hm2)⟩⟩
          rw [List.append_nil, hsubs, w.dispRw]; rfl
    · -- past the dispatch: bank transfers, BondRewards, Delegate; the index update stays last
      have hpost : ∀ x ∈ m :: rest, post x = true := by
        rcases inv.pl.shape with ⟨pre2, hq2, _⟩ | ⟨h, _, _⟩
        · exfalso
          rw [hq] at hq2
          have := (List.append_inj' hq2 rfl).2
          simp [uMsg, dMsg] at this
        · exact h
      have hrestU : ∃ pre', rest = pre' ++ [uMsg] ∧ NoUgi pre' := by
        cases pre with
        | nil =>
          simp only [List.nil_append] at hq
          injection hq with e1 _
          exact absurd e1 (hm _ _ _)
        | cons p pre' =>
          simp only [List.cons_append] at hq
          injection hq with _ e2
          exact ⟨pre', e2, fun x hx' => hp x (List.mem_cons_of_mem _ hx')⟩
      obtain ⟨pre', hq', hp'⟩ := hrestU
      have key : NoUgi subs → ((s'.reward = s0.reward ∧ ((∃ pre, subs ++ rest = pre ++ [dMsg] ∧ ∀ x ∈ pre, Pre x = true) ∨
          ∃ pre, subs ++ rest = pre ++ [uMsg] ∧ NoUgi pre)) ∨ (subs ++ rest = [] ∧ Recorded s0 s')) := by
        intro hs
        exact Or.inl ⟨hr', Or.inr ⟨subs ++ pre', by rw [hq', List.append_assoc], hs.append hp'⟩⟩
      have hpm : post m = true := hpost m (List.mem_cons_self ..)
      have sent := handle_sentBy s s' m subs hx
      cases m with
      | bankSend src dst d amt =>
        have hsubs : subs = [] := sent.2 (fun _ _ _ _ h => by cases h)
        subst hsubs
        exact key (fun _ h => by cases h)
      | delegate who v amt =>
        have hsubs : subs = [] := sent.2 (fun _ _ _ _ h => by cases h)
        subst hsubs
        exact key (fun _ h => by cases h)
      | wasm a b cl f =>
        cases cl with
        | hub hm' =>
          cases hm' with
          | bondRewards =>
            have hf : Flow (Msg.wasm a b (.hub .bondRewards) f) = true := inv.pl.dl.base.flow _ (List.mem_cons_self ..)
            obtain ⟨_, _, _, _, _, _, hhub⟩ := flow_step s s' _ subs w hf hx
            rcases hhub with ⟨_, hne⟩ | ⟨s2, sender2, funds2, heq2, _, _, hxx⟩
            · have hab : a = dispA ∧ b = hubA := by simpa [post] using hpm
              rw [hab.2] at hne
              exact absurd rfl (hne _ _)
            · injection heq2 with e1 e2 _ e4
              subst e1; subst e4
              simp only [hubExec] at hxx; split at hxx
              · cases hxx
              · obtain ⟨p, st, _, _, _, hd, _⟩ := HubSt.bondR_spec _ _ _ _ _ _ hxx
                obtain ⟨stk, _, _⟩ := delegs_stake s.hub s2.hubEnv p subs rfl hd
                exact key (stake_noUgi subs stk)
          | _ => simp [post] at hpm
        | reward rm => exact absurd rfl (hm a rm f |> fun h => by
            have hab : b = rewardA := by
              cases rm <;> simp [post] at hpm
              exact hpm.1.2
            rw [hab] at h; exact h)
        | _ => simp [post] at hpm
      | _ => simp [post] at hpm
  · -- the reward contract's index update itself: it is the last message of the transaction
    have hm' : ∃ sender rm f, m = Msg.wasm sender rewardA (.reward rm) f := by
      apply Classical.byContradiction
      intro hcon
      exact hm (fun a b c he => hcon ⟨a, b, c, he⟩)
    obtain ⟨sender, rm, f, hme⟩ := hm'
    subst hme
    have hrest : rest = [] ∧ Msg.wasm sender rewardA (.reward rm) f = uMsg := by
      rcases hu with ⟨pre, hq, hpre⟩ | ⟨pre, hq, hp⟩
      · exfalso
        cases pre with
        | nil =>
          simp only [List.nil_append] at hq
          injection hq with e1 _
          simp [dMsg] at e1
        | cons p pre' =>
          simp only [List.cons_append] at hq
          injection hq with e1 _
          have := hpre p (List.mem_cons_self ..)
          rw [← e1] at this; simp [Pre] at this
      · cases pre with
        | nil =>
          simp only [List.nil_append] at hq
          injection hq with e1 e2
          exact ⟨e2, e1⟩
        | cons p pre' =>
          simp only [List.cons_append] at hq
          injection hq with e1 _
          exact absurd e1.symm (hp p (List.mem_cons_self ..) _ _ _)
    obtain ⟨hrest, hmu⟩ := hrest
    subst hrest
    simp only [uMsg] at hmu
    injection hmu with e1 _ e3 e4
    injection e3 with e3
    subst e1; subst e3; subst e4
    right
    cases handle_touch s s' _ subs hx with
    | reward s1 sender' funds rm' heq h1 hmv hch hx' _ _ _ _ _ =>
      injection heq with e1 _ e3 e4
      injection e3 with e3
      subst e1; subst e3; subst e4
      simp only [Sys.moveFunds] at hmv
      injection hmv with hmv; subst hmv
      have hrec := C14_update_records_bank _ _ _ _ _ _ _ _ hx'
      refine ⟨by rw [hrec.1]; rfl, ?_⟩
      rcases hrec.2 with ⟨hz, he⟩ | ⟨hz, h1', h2'⟩
      · exact Or.inl ⟨by rw [← hr]; exact hz, by rw [he]; exact hr⟩
      · refine Or.inr ⟨by rw [← hr]; exact hz, by rw [h1', hch, hr], by rw [hch, ← hr]; exact h2', ?_⟩
        intro hinv
        have := C14_update_dust _ _ _ _ _ _ _ _ (by rw [hr]; exact hinv) hx'
        rw [hr] at this
        exact this
    | none _ hmm _ _ =>
      rcases hmm with h0 | ⟨_, _, _, _, heq, ht⟩
      · exact absurd rfl (h0 _ _ _ _)
      · injection heq with _ e2 _ _
        rcases ht with ht | ht <;> (rw [ht] at e2; cases e2)
    | hub _ _ _ _ heq _ _ _ _ _ _ _ _ _ => injection heq with _ e2 _ _; cases e2
    | bsei _ _ _ _ heq _ _ _ _ _ _ _ => injection heq with _ e2 _ _; cases e2
    | stsei _ _ _ _ heq _ _ _ _ _ _ => injection heq with _ e2 _ _; cases e2
    | disp _ _ _ _ heq _ _ _ _ _ _ _ _ => injection heq with _ e2 _ _; cases e2
    | reg _ _ _ _ heq _ _ _ _ _ _ _ _ _ => injection heq with _ e2 _ _; cases e2

/-- **The whole UpdateGlobalIndex transaction, the bSei holders.** Under the premises of
    `C19_end_to_end_pools`, at the end of a successful transaction: with no bSei held anywhere the
    reward contract is exactly as it was; otherwise the balance it has recorded is its whole final
    bank balance in the reward denom — everything delivered during the transaction has been
    booked — and (for a reward state satisfying the C14 invariant) the holders' total claimable
    reward has grown by everything newly recorded, up to less than `total_balance` atomics
    (below one base unit inside the envelope).  Nothing but this one index update touched the reward
    contract, and it ran as the last message of the transaction. -/
theorem C19_end_to_end_holders (s s' : Sys) (sender : Addr) (w : Wired19 s) (c : ChainOK s)
    (hk : s.disp.keeper ≠ dispA) (hrate : s.disp.keeperRate ≤ D) (hden : s.disp.stDenom ≠ s.disp.bDenom)
    (hns : s.hub.bBond + s.hub.sBond ≤ totalDelegated s)
    (hx : Sys.run 400 s [.wasm sender hubA (.hub .updateGlobalIndex) []] = .ok s') :
    Recorded s s' := by
  obtain ⟨s1, subs, hx, inv1, hr, hsh⟩ := ugi_start s s' sender w c hx
  have inv2 : RewInv s s1 (subs ++ []) := by
    obtain ⟨pre, hq, hp⟩ := hsh
    exact ⟨inv1, Or.inl ⟨hr, Or.inl ⟨pre, by rw [List.append_nil]; exact hq, hp⟩⟩⟩
  have fin := run_inv2 (RewInv s) (fun a m r a' sb => RewInv.step s a a' m r sb hk hrate hden hns) 399 s1 _ s' inv2 hx
  rcases fin.rw with ⟨_, hu⟩ | ⟨_, h⟩
  · -- the queue cannot drain without the index update having run
    exfalso
    rcases hu with ⟨pre, hq, _⟩ | ⟨pre, hq, _⟩ <;> cases pre <;> simp at hq
  · exact h

/-! Non-vacuity: a wired state with 1000 staked and 500 of pending rewards; the whole update
    succeeds (withdrawal, swap check, dispatch: 25 to the keeper, 475 re-bonded and delegated). -/
def rewardsPending : Sys :=
  { genesisSys with
    chain := { genesisSys.chain with deleg := upd genesisSys.chain.deleg 201 1000,
                                      delegSet := upd genesisSys.chain.delegSet 201 true,
                                      pending := upd genesisSys.chain.pending 201 (upd (genesisSys.chain.pending 201) 0 500) },
    hub := { genesisSys.hub with sBond := 1000 } }

example : Wired19 rewardsPending := ⟨rfl, rfl, rfl, by decide, by decide⟩
example : ∃ s', Sys.run 400 rewardsPending [.wasm 3 hubA (.hub .updateGlobalIndex) []] = .ok s' := ⟨_, rfl⟩
/-- the extra premises of `C19_end_to_end_delivery` hold in that state, its validator is in the
    universe and delegated to, and it did have rewards pending -/
example : rewardsPending.disp.keeper ≠ dispA ∧ rewardsPending.disp.keeperRate ≤ D ∧
    rewardsPending.disp.stDenom ≠ rewardsPending.disp.bDenom ∧ (201 : Addr) ∈ valUniverse ∧
    rewardsPending.chain.delegSet 201 = true ∧ rewardsPending.chain.pending 201 0 = 500 := by decide

/-- the premises of `C19_end_to_end_pools` hold in that state too, and the update re-bonds 475 there:
    the stSei pool and the delegated stake both go from 1000 to 1475 -/
example : ChainOK rewardsPending := by
  have hd : genesisSys.chain.deleg = fun _ => 0 := rfl
  have hs : genesisSys.chain.delegSet = fun _ => false := rfl
  refine ⟨fun v hv => ?_, fun v hv => ?_⟩
  · have : v ≠ 201 := fun h => hv (h ▸ by decide)
    simp [rewardsPending, upd, this, hd]
  · by_cases h : v = 201
    · subst h; simp [rewardsPending, upd] at hv
    · simp [rewardsPending, upd, h, hd]
example : rewardsPending.hub.bBond + rewardsPending.hub.sBond ≤ totalDelegated rewardsPending := by decide
example : ∃ s', Sys.run 400 rewardsPending [.wasm 3 hubA (.hub .updateGlobalIndex) []] = .ok s' ∧
    s'.hub.sBond = 1475 ∧ totalDelegated s' = 1475 ∧ s'.chain.bank dispA 0 = 0 := ⟨_, rfl, by decide, by decide, by decide⟩

/-- a state with bSei holders too: 600 booked to bSei (one holder with 600 mirrored), 400 to stSei,
    500 pending; the premises of `C19_end_to_end_holders` hold, the reward state satisfies the C14
    invariant and is not the trivial no-holder case, and after the update the reward contract has
    recorded its whole bank balance -/
def rewardsPending2 : Sys :=
  { rewardsPending with
    hub := { rewardsPending.hub with bBond := 600, sBond := 400 },
    reward := { rewardsPending.reward with totalBalance := 600, hBal := upd (fun _ => 0) 5 600, holders := [5] } }

example : Wired19 rewardsPending2 := ⟨rfl, rfl, rfl, by decide, by decide⟩
example : rewardsPending2.reward.Inv := by
  have hg : rewardsPending2.reward = { (rewardInit 1 hubA 1 swapA [0, 1]) with
      totalBalance := 600, hBal := upd (fun _ => 0) 5 600, holders := [5] } := rfl
  rw [hg]
  refine ⟨?_, ?_, ?_, ?_, ?_⟩ <;> simp [rewardInit, RewardSt.owed, upd, sumOn]
example : rewardsPending2.reward.totalBalance ≠ 0 ∧
    rewardsPending2.hub.bBond + rewardsPending2.hub.sBond ≤ totalDelegated rewardsPending2 := by decide
example : ∃ s', Sys.run 400 rewardsPending2 [.wasm 3 hubA (.hub .updateGlobalIndex) []] = .ok s' ∧
    s'.reward.prevRewardBalance = s'.chain.bank rewardA 1 ∧ 0 < s'.reward.prevRewardBalance :=
  ⟨_, rfl, by decide, by decide⟩

end Krp
