/-
  C19 — A global index update delivers all staking rewards to the right parties.
  Composition of: hub.UpdateGlobalIndex (this file) → distribution withdrawals (this file) →
  dispatcher swap + dispatch (C17) → hub.BondRewards (C04_bond_rewards, C02) and
  reward.UpdateGlobalIndex (C14).
-/
import Krp.Props.C17
import Krp.Props.C04
import Krp.Props.C14
import Krp.Lemmas.HubFrame
import Krp.Props.C02
import Krp.Props.C07
import Krp.Lemmas.Bank
import Krp.Lemmas.Wiring
namespace Krp
open HubSt

/-- The hub's part: it asks for the rewards of every validator it delegates to, then tells the
    dispatcher to swap (passing the booked pool totals) and to dispatch; of its own state only
    `last_index_modification` changes — pools, rates, batch, claims, history, prev_hub_balance and
    every parameter and address are untouched. -/
theorem C19_hub_update_global (h h' : HubSt) (e : HubEnv) (sender : Addr) (ms : List Msg)
    (hx : h.updateGlobal e sender = .ok (h', ms)) :
    ∃ disp, h.dispatcher = some disp ∧ (sender = h.updater ∨ h.registry = some sender) ∧
      ms = e.delegations.map (fun d => Msg.withdrawReward e.self d.1) ++
           [Msg.wasm e.self disp (.disp (.swap h.bBond h.sBond)) [],
            Msg.wasm e.self disp (.disp .dispatch) []] ∧
      h' = { h with lastIndexMod := e.now } := by
  unfold updateGlobal at hx
  exc_norm at hx
  by_cases hs : sender = h.updater
  · simp only [hs, ne_eq, not_true_eq_false, if_false] at hx
    exc_split at hx
    rename_i d hd
    exact ⟨d, hd, Or.inl hs, rfl, rfl⟩
  · simp only [hs, ne_eq, not_false_eq_true, if_true] at hx
    split at hx
    · cases hx
    · rename_i r hr
      split at hx
      · cases hx
      · rename_i hsr
        exc_split at hx
        rename_i d hd
        exact ⟨d, hd, Or.inr (by rw [hr]; congr 1; exact (Classical.not_not.mp hsr).symm), rfl, rfl⟩

/-- Withdrawing the rewards of a validator pays everything pending there (every coin) to the
    withdraw address and leaves nothing pending; nothing else on the chain or in any contract moves. -/
theorem C19_withdraw_reward_pays_all (s s' : Sys) (v : Addr) (ms : List Msg)
    (hx : s.handle (.withdrawReward hubA v) = .ok (s', ms)) :
    ms = [] ∧ (∀ d, d ∈ ([0, 1, 2] : List Denom) → s'.chain.pending v d = 0) ∧
    s'.hub = s.hub ∧ s'.bsei = s.bsei ∧ s'.stsei = s.stsei ∧ s'.reward = s.reward ∧ s'.disp = s.disp ∧
    s'.chain.deleg = s.chain.deleg ∧ (∀ w, w ≠ v → s'.chain.pending w = s.chain.pending w) := by
  simp only [Sys.handle] at hx
  exc_norm at hx
  exc_split at hx
  refine ⟨rfl, ?_, ?_⟩
  · intro d hd
    simp only [List.mem_cons, List.mem_nil_iff, or_false] at hd
    rcases hd with rfl | rfl | rfl <;> simp [List.foldl, Sys.setBank, upd]
  · simp [List.foldl, Sys.setBank, upd]
    intro w hw; simp [hw]

/-- The whole update, in the dispatcher: nothing is kept (C17), the stSei share is re-bonded to the
    hub without minting (C04), the bSei share reaches the reward contract followed by its index
    update (C14). Restated here as the conjunction that C19 composes. -/
theorem C19_dispatch_delivers (c : DispSt) (self : Addr) (stBal bBal : Nat)
    (hrate : c.keeperRate ≤ D) (hden : c.stDenom ≠ c.bDenom) :
    ∃ ms, dispatchMsgs c self stBal bBal = .ok ms ∧
      sentOf self c.bDenom ms = bBal ∧ sentOf self c.stDenom ms = stBal ∧
      Msg.wasm self c.rewardContract (.reward .updateGlobalIndex) [] ∈ ms := by
  obtain ⟨ms, h1, h2, h3, _, _, h6⟩ := C17_dispatch_conserves c self stBal bBal hrate hden
  exact ⟨ms, h1, h2, h3, h6⟩

/-- Re-bonding raises the stSei pool by exactly the re-bonded amount, mints nothing and leaves the
    bSei pool and rate alone (apart from slashing recognised by the same check). -/
theorem C19_rebond_raises_stsei_only (h h' : HubSt) (e : HubEnv) (sender : Addr) (funds : List (Denom × Nat))
    (ms : List Msg) (hx : h.bondR e sender funds = .ok (h', ms)) :
    ∃ st p, h.actualState e = .ok st ∧ paymentOf funds = .ok p ∧ h'.sBond = st.sBond + p ∧
      h'.bBond = st.bBond ∧ h'.bRate = st.bRate ∧ (∀ m ∈ ms, ∃ v a, m = Msg.delegate e.self v a) := by
  obtain ⟨st, p, S, hst, hp, _, hms, h1, h2, h3, _, _⟩ := C04_bond_rewards h h' e sender funds ms hx
  exact ⟨st, p, hst, hp, h1, h2, h3, C04_bond_rewards_mints_nothing h e p ms hms⟩

example : ∃ ms, dispatchMsgs { (default : DispSt) with keeperRate := D / 20, stDenom := 0, bDenom := 1 } 104 100 200 = .ok ms :=
  ⟨_, rfl⟩

/-! ### End to end: the whole UpdateGlobalIndex transaction

  The messages an index update can cause, by shape (`Flow`), are closed under handling in a wired
  system: reward withdrawals, the dispatcher's swap and dispatch, swap-contract calls and their
  payouts, the dispatcher's transfers, BondRewards, the hub's Delegate messages, the reward
  contract's index update.  Along that flow no token handler runs, the hub runs only BondRewards,
  and nobody reconfigures anything. -/

def Flow : Msg → Bool
  | .withdrawReward d _ => d == hubA
  | .wasm s t (.disp (.swap _ _)) f => s == hubA && t == dispA && f.isEmpty
  | .wasm s t (.disp .dispatch) f => s == hubA && t == dispA && f.isEmpty
  | .wasm s _ (.swapDenom _ _ _ none) _ => s == dispA
  | .bankSend src _ _ _ => src == swapA || src == dispA
  | .wasm s t (.hub .bondRewards) _ => s == dispA && t == hubA
  | .delegate d _ _ => d == hubA
  | .wasm s t (.reward .updateGlobalIndex) f => s == dispA && t == rewardA && f.isEmpty
  | _ => false

/-- the wiring the index update relies on (E3) -/
structure Wired19 (s : Sys) : Prop where
  hubDisp : s.hub.dispatcher = some dispA
  dispHub : s.disp.hub = hubA
  dispRw : s.disp.rewardContract = rewardA

def AllFlow (q : List Msg) : Prop := ∀ m ∈ q, Flow m = true

theorem AllFlow.append {x y : List Msg} (h1 : AllFlow x) (h2 : AllFlow y) : AllFlow (x ++ y) := by
  intro m hm
  rcases List.mem_append.mp hm with h | h
  · exact h1 m h
  · exact h2 m h

theorem coinMsgs_flow (c : DispSt) (x : Nat) (hh : c.hub = hubA) :
    (∀ ms, coinMsgsB c dispA x = .ok ms → AllFlow ms) ∧ (∀ ms, coinMsgsSt c dispA x = .ok ms → AllFlow ms) := by
  constructor
  · intro ms hx; unfold coinMsgsB at hx; exc_split at hx
    · intro m hm; cases hm
    · intro m hm; simp at hm; rcases hm with rfl | rfl <;> rfl
  · intro ms hx; unfold coinMsgsSt at hx; exc_split at hx
    · intro m hm; cases hm
    · intro m hm; simp at hm; subst hm; rfl
    · intro m hm; simp at hm; rcases hm with rfl | rfl
      · rfl
      · simp [Flow, hh]

theorem foldl_allP (P : Msg → Prop) (f : Res (Nat × Nat × List Msg) → Denom → Res (Nat × Nat × List Msg))
    (hstep : ∀ acc dn v, f acc dn = .ok v → ∃ v0, acc = .ok v0 ∧ ((∀ m ∈ v0.2.2, P m) → ∀ m ∈ v.2.2, P m)) :
    ∀ (l : List Denom) (acc : Res (Nat × Nat × List Msg)) (v : Nat × Nat × List Msg),
      l.foldl f acc = .ok v → ∃ v0, acc = .ok v0 ∧ ((∀ m ∈ v0.2.2, P m) → ∀ m ∈ v.2.2, P m) := by
  intro l
  induction l with
  | nil => intro acc v hx; exact ⟨v, hx, id⟩
  | cons d ds ih =>
    intro acc v hx
    simp only [List.foldl_cons] at hx
    obtain ⟨v1, h1, k1⟩ := ih (f acc d) v hx
    obtain ⟨v0, h0, k0⟩ := hstep acc d v1 h1
    exact ⟨v0, h0, fun h => k1 (k0 h)⟩

/-- everything the dispatcher's swap emits is a swap-contract call sent by the dispatcher -/
theorem dispSwap_shape (c c' : DispSt) (self : Addr) (env : DispEnv) (sender : Addr) (a b : Nat)
    (ms : List Msg) (hx : dispExec c self env sender (.swap a b) = .ok (c', ms)) :
    ∀ m ∈ ms, ∃ tg dn am dd fs, m = Msg.wasm self tg (.swapDenom dn am dd none) fs := by
  simp only [dispExec] at hx
  exc_norm at hx
  split at hx
  · cases hx
  · split at hx
    · cases hx
    · rename_i v hv
      have hs : ∀ m ∈ v.2.2, ∃ tg dn am dd fs, m = Msg.wasm self tg (.swapDenom dn am dd none) fs := by
        obtain ⟨v0, h0, k⟩ := foldl_allP (fun m => ∃ tg dn am dd fs, m = Msg.wasm self tg (.swapDenom dn am dd none) fs) _ (by
          intro acc dn v' hf
          cases acc with
          | error e => simp only [] at hf; cases hf
          | ok v0 =>
            refine ⟨v0, rfl, fun h0 => ?_⟩
            simp only [] at hf
            repeat' (split at hf <;> try (first | cases hf | contradiction))
            all_goals first
              | exact h0
              | (intro m hm
                 rcases List.mem_append.mp hm with h | h
                 · exact h0 m h
                 · simp at h; exact ⟨_, _, _, _, _, h⟩)) _ _ v hv
        injection h0 with h0; subst h0
        exact k (fun _ h => by cases h)
      repeat' (split at hx <;> try (first | cases hx | contradiction))
      all_goals first
        | exact hs
        | (intro m hm
           rcases List.mem_append.mp hm with h | h
           · exact hs m h
           · simp at h; exact ⟨_, _, _, _, _, h⟩)

/-- what the flow's messages do, one at a time: they emit flow messages, keep the wiring, never run a
    token handler, and the only hub handler they run is BondRewards -/
theorem flow_step (s s' : Sys) (m : Msg) (subs : List Msg) (w : Wired19 s) (hf : Flow m = true)
    (hx : s.handle m = .ok (s', subs)) :
    AllFlow subs ∧ Wired19 s' ∧ s'.bsei = s.bsei ∧ s'.stsei = s.stsei ∧ s'.reg = s.reg ∧
    (s'.hub = s.hub ∨ ∃ s1 sender funds, m = .wasm sender hubA (.hub .bondRewards) funds ∧
        s.moveFunds sender hubA funds = .ok s1 ∧ s1.hub = s.hub ∧
        hubExec s.hub s1.hubEnv sender funds .bondRewards = .ok (s'.hub, subs)) := by
  have sent := handle_sentBy s s' m subs hx
  cases handle_touch s s' m subs hx with
  | none h _ _ hb =>
    refine ⟨?_, ⟨by rw [h.hub]; exact w.hubDisp, by rw [h.disp]; exact w.dispHub, by rw [h.disp]; exact w.dispRw⟩,
      h.bsei, h.stsei, h.reg, Or.inl h.hub⟩
    intro x hx'
    obtain ⟨t, d, a, he⟩ := hb x hx'
    subst he; rfl
  | hub s1 sender funds hm heq h1 hmv hc hx' b t r d g =>
    subst heq
    cases hm with
    | bondRewards =>
      have hs : sender = dispA := by simpa [Flow] using hf
      have cfg := (HubSt.bond_frame s.hub s'.hub s1.hubEnv sender funds subs).2.2 (by
        simp only [hubExec] at hx'; split at hx'
        · cases hx'
        · exact hx')
      have dl : AllFlow subs := by
        simp only [hubExec] at hx'; split at hx'
        · cases hx'
        · obtain ⟨p, st, _, _, _, hd, _⟩ := HubSt.bondR_spec _ _ _ _ _ _ hx'
          obtain ⟨_, reg, vs, _, _, hall⟩ := C02_bond_delegated_in_full s.hub s1.hubEnv p subs hd
          intro x hx''
          obtain ⟨v, a, he, _, _⟩ := hall x hx''
          subst he; rfl
      exact ⟨dl, ⟨by rw [cfg.2.dispatcher]; exact w.hubDisp, by rw [d]; exact w.dispHub, by rw [d]; exact w.dispRw⟩,
        b, t, g, Or.inr ⟨s1, sender, funds, rfl, hmv, h1.hub, hx'⟩⟩
    | _ => simp [Flow] at hf
  | bsei s1 sender funds tm heq _ _ _ _ _ _ _ => subst heq; simp [Flow] at hf
  | stsei blk sender funds tm heq _ _ _ _ _ _ => subst heq; simp [Flow] at hf
  | reward s1 sender funds rm heq h1 _ _ hx' h b t d g =>
    subst heq
    cases rm with
    | updateGlobalIndex =>
      have hms : subs = [] := (C14_update_records_bank _ _ _ _ _ _ _ _ hx').1
      refine ⟨(by rw [hms]; intro x hx''; cases hx''), ⟨by rw [h]; exact w.hubDisp, by rw [d]; exact w.dispHub,
        by rw [d]; exact w.dispRw⟩, b, t, g, Or.inl h⟩
    | _ => simp [Flow] at hf
  | disp env sender funds dm heq hx' h b t r g =>
    subst heq
    cases dm with
    | swap a bb =>
      -- the dispatcher's state is untouched; it emits swap-contract calls sent by itself
      have sb := dispExec_sentBy _ _ _ _ _ _ _ hx'
      have cs : s'.disp = s.disp := by
        simp only [dispExec] at hx'
        exc_norm at hx'
        repeat' (split at hx' <;> try (first | (cases hx'; done) | contradiction))
        all_goals (injection hx' with hx'; injection hx' with e1 _; exact e1.symm)
      refine ⟨?_, ⟨by rw [h]; exact w.hubDisp, by rw [cs]; exact w.dispHub, by rw [cs]; exact w.dispRw⟩, b, t, g, Or.inl h⟩
      have shape := dispSwap_shape _ _ _ _ _ _ _ _ hx'
      intro x hx''
      obtain ⟨tg, dn, am, dd, fs, he⟩ := shape x hx''
      subst he; rfl
    | dispatch =>
      have cs : s'.disp = s.disp := by
        have hx2 := hx'
        simp only [dispExec] at hx2; exc_norm at hx2
        split at hx2
        · cases hx2
        · split at hx2
          · cases hx2
          · injection hx2 with hx2; injection hx2 with e1 _; exact e1.symm
      refine ⟨?_, ⟨by rw [h]; exact w.hubDisp, by rw [cs]; exact w.dispHub, by rw [cs]; exact w.dispRw⟩, b, t, g, Or.inl h⟩
      simp only [dispExec] at hx'; exc_norm at hx'
      split at hx'
      · cases hx'
      · split at hx'
        · cases hx'
        · rename_i ms' hd
          injection hx' with hx'; injection hx' with _ h2; subst h2
          unfold dispatchMsgs at hd
          split at hd
          · cases hd
          · rename_i m1 h1
            split at hd
            · cases hd
            · rename_i m2 h2
              injection hd with hd; subst hd
              refine AllFlow.append (AllFlow.append ((coinMsgs_flow s.disp _ w.dispHub).1 m1 h1)
                ((coinMsgs_flow s.disp _ w.dispHub).2 m2 h2)) ?_
              intro x hx''; simp at hx''; subst hx''; simp [Flow, w.dispRw]
    | _ => simp [Flow] at hf
  | reg s1 sender funds rm heq _ _ _ _ _ _ _ _ _ => subst heq; simp [Flow] at hf

end Krp
