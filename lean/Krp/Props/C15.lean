/-
  C15 — Reward accrual is proportional to holdings and independent of others' actions.
  `owed r a` is what holder `a` can claim, in atomics (whole units = owed / 10^18).
-/
import Krp.Lemmas.Reward
import Krp.Props.C14
import Krp.Props.C16
namespace Krp
open RewardSt

/-- An index update adds to every holder exactly `balance × ⌊R·10^18 / T⌋` atomics: a function of the
    holder's own balance, the delivered amount R and the total T only — not of the number of other
    holders, their order, or how the total is split among them. -/
theorem C15_accrual_formula (r r' : RewardSt) (self : Addr) (tk dp : Res Addr) (bb : Denom → Nat)
    (sender : Addr) (ms : List Msg) (h : r.Inv) (ht : r.totalBalance ≠ 0)
    (hx : rewardExec r self tk dp bb sender .updateGlobalIndex = .ok (r', ms)) (a : Addr) :
    r'.owed a = r.owed a +
      r.hBal a * fromRatio (bb r.rewardDenom - r.prevRewardBalance) r.totalBalance ∧
    r'.hBal a = r.hBal a := by
  simp only [rewardExec] at hx; exc_norm at hx; exc_split at hx
  have := h.idxLe a
  simp only [owed]
  generalize fromRatio (bb r.rewardDenom - r.prevRewardBalance) r.totalBalance = k
  refine ⟨?_, trivial⟩
  rw [show r.globalIndex + k - r.hIdx a = (r.globalIndex - r.hIdx a) + k by omega, Nat.add_mul,
    Nat.mul_comm k]
  omega

/-- **In every reachable state, "its balance" is the holder's bSei balance on the token's own
    ledger.** From a wired genesis (C16's hypotheses), after any history of outside non-owner
    transactions and environment events, an index update of the reward contract adds to every
    holder exactly its *bSei token balance* times the reward delivered per bSei in supply —
    whatever transfers, sends (to others or to itself), mints and burns the history contained. -/
theorem C15_accrual_follows_bsei_holdings (s : Sys) (l : List Step)
    (w : Wired s) (wf : s.bsei.WF) (hm : Mirror s.bsei s.reward bseiA rewardA [])
    (hq : ∀ st ∈ l, QuietStep (ownersOf s) st) (hi : s.reward.Inv)
    (self : Addr) (tk dp : Res Addr) (bb : Denom → Nat) (sender : Addr) (r' : RewardSt) (ms : List Msg)
    (hsup : (s.steps l).bsei.supply ≠ 0)
    (hx : rewardExec (s.steps l).reward self tk dp bb sender .updateGlobalIndex = .ok (r', ms)) (a : Addr) :
    r'.owed a = (s.steps l).reward.owed a +
      (s.steps l).bsei.bal a *
        fromRatio (bb (s.steps l).reward.rewardDenom - (s.steps l).reward.prevRewardBalance) (s.steps l).bsei.supply := by
  have mir := C16_reachable s l w wf hm hq
  have inv := C14_reachable s l hi
  have ht : (s.steps l).reward.totalBalance ≠ 0 := by rw [mir.2]; exact hsup
  have f := (C15_accrual_formula _ r' self tk dp bb sender ms inv ht hx a).1
  rw [mir.1 a, mir.2] at f
  exact f

/-- Splitting a holding over two accounts accrues exactly the same atomics in total. -/
theorem C15_split (b1 b2 k : Nat) : (b1 + b2) * k = b1 * k + b2 * k := Nat.add_mul b1 b2 k

/-- …and the whole units paid differ by less than one unit per account. -/
theorem C15_split_units (x y : Nat) : x / D + y / D ≤ (x + y) / D ∧ (x + y) / D ≤ x / D + y / D + 1 := by
  have hD : D = 1000000000000000000 := rfl
  rw [hD]; omega

/-- Mints, burns and transfers (IncreaseBalance / DecreaseBalance) settle first: what every holder
    is owed — the affected one included — is unchanged, so past rewards stay with whoever earned
    them and newly acquired tokens earn nothing from earlier updates. -/
theorem C15_balance_change_keeps_dues (r r' : RewardSt) (self : Addr) (tk dp : Res Addr)
    (bb : Denom → Nat) (sender a amt : Addr) (ms : List Msg) (h : r.Inv) (inc : Bool)
    (hx : rewardExec r self tk dp bb sender (if inc then .increase a amt else .decrease a amt) = .ok (r', ms))
    (x : Addr) :
    r'.owed x = r.owed x ∧ r'.globalIndex = r.globalIndex ∧ r'.hIdx a = r.globalIndex ∧
    (x ≠ a → r'.hBal x = r.hBal x ∧ r'.hIdx x = r.hIdx x ∧ r'.hPend x = r.hPend x) := by
  cases inc <;> simp only [Bool.false_eq_true, if_false, if_true] at hx <;>
    simp only [rewardExec, accrual_ok r h] at hx <;> exc_norm at hx <;> exc_split at hx
  all_goals
    refine ⟨?_, rfl, by simp [setHolder], fun hne => by simp [setHolder, upd, hne]⟩
    by_cases hxa : x = a
    · subst hxa; simp [owed, setHolder]
    · simp [owed, setHolder, upd, hxa]

/-- A claim by one holder changes nobody else's dues, balance or checkpoint. -/
theorem C15_claim_independent (r r' : RewardSt) (self : Addr) (tk dp : Res Addr) (bb : Denom → Nat)
    (sender : Addr) (rc : Option Addr) (ms : List Msg) (h : r.Inv)
    (hx : rewardExec r self tk dp bb sender (.claim rc) = .ok (r', ms)) (x : Addr) (hne : x ≠ sender) :
    r'.owed x = r.owed x ∧ r'.hBal x = r.hBal x ∧ r'.globalIndex = r.globalIndex := by
  simp only [rewardExec, accrual_ok r h] at hx; exc_norm at hx; exc_split at hx
  simp [owed, setHolder, upd, hne]

/-- Balance changes of two different holders commute: the observable holder records, the total and
    the index are the same in either order (so the order of other holders' operations between two
    index updates is irrelevant). -/
theorem C15_commute (r ra rab rb rba : RewardSt) (self : Addr) (tk dp : Res Addr) (bb : Denom → Nat)
    (s : Addr) (a b x y : Nat) (hab : a ≠ b) (h : r.Inv)
    (h1 : rewardExec r self tk dp bb s (.increase a x) = .ok (ra, []))
    (h2 : rewardExec ra self tk dp bb s (.increase b y) = .ok (rab, []))
    (h3 : rewardExec r self tk dp bb s (.increase b y) = .ok (rb, []))
    (h4 : rewardExec rb self tk dp bb s (.increase a x) = .ok (rba, [])) :
    rab.totalBalance = rba.totalBalance ∧ rab.globalIndex = rba.globalIndex ∧
    ∀ z, rab.hBal z = rba.hBal z ∧ rab.hIdx z = rba.hIdx z ∧ rab.hPend z = rba.hPend z := by
  simp only [rewardExec, accrual_ok r h] at h1 h3
  exc_norm at h1; exc_split at h1
  exc_norm at h3; exc_split at h3
  have hba : b ≠ a := fun e => hab e.symm
  have ha := Nat.not_lt.mpr (h.idxLe a)
  have hb := Nat.not_lt.mpr (h.idxLe b)
  simp only [rewardExec, accrual, setHolder, upd, hab, hba, if_false, ha, hb] at h2 h4
  exc_norm at h2; exc_split at h2
  exc_norm at h4; exc_split at h4
  refine ⟨by simp only []; omega, rfl, fun z => ?_⟩
  by_cases hza : z = a <;> by_cases hzb : z = b <;> simp_all [upd]

/-! Non-vacuity: the invariant used above holds of a concrete state with a holder. -/
def c15Example : RewardSt :=
  { owner := 1, newOwner := 1, hub := 100, rewardDenom := 1, swapContract := 106, swapDenoms := [],
    globalIndex := 2 * D, totalBalance := 3, prevRewardBalance := (6),
    hBal := upd (fun _ => 0) 5 3, hIdx := fun _ => 0, hPend := fun _ => 0, holders := [5] }

example : c15Example.Inv := by
  refine ⟨?_, ?_, ?_, ?_, ?_⟩ <;> simp [c15Example, owed, upd, sumOn, D]

end Krp
