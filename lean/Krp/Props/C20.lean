/-
  C20 — Stored parameters stay within their valid ranges under any update sequence.
-/
import Krp.Lemmas.HubFrame
import Krp.System
import Krp.Init
import Krp.Lemmas.Reach
import Krp.Props.C17
namespace Krp
open HubSt

/-- instantiate: the peg fee is rejected above 1, the threshold is clamped to 1 -/
theorem C20_hub_init_range (sender now epoch unb fee thr rd upd : Nat) (h : HubSt)
    (hx : hubInit sender now epoch unb fee thr rd upd = .ok h) :
    h.fee ≤ D ∧ h.thr ≤ D ∧ h.paused = some false := by
  unfold hubInit at hx
  split at hx
  · cases hx
  · injection hx with hx; subst hx
    exact ⟨by simp only []; omega, Nat.min_le_right _ _, rfl⟩

/-- UpdateParams: field by field, an omitted field keeps its stored value; the fee is rejected above 1
    and the threshold clamped; the pause flag is set to exactly what the message says (cleared when
    omitted, as the hub defines it). Only the owner gets this far. -/
theorem C20_update_params_fields (h h' : HubSt) (sender : Addr) (ep ub fee thr : Option Nat)
    (p : Option Bool) (rd : Option Denom) (hx : h.updateParams sender ep ub fee thr p rd = .ok h') :
    sender = h.creator ∧
    h'.epoch = ep.getD h.epoch ∧ h'.unbonding = ub.getD h.unbonding ∧ h'.fee = fee.getD h.fee ∧
    h'.thr = min (thr.getD h.thr) D ∧ h'.rewardDenom = rd.getD h.rewardDenom ∧ h'.paused = p ∧
    (∀ f, fee = some f → f ≤ D) ∧ SameConfig h h' ∧
    h'.bBond = h.bBond ∧ h'.sBond = h.sBond ∧ h'.bRate = h.bRate ∧ h'.sRate = h.sRate := by
  unfold updateParams at hx
  exc_norm at hx
  split at hx
  · cases hx
  · rename_i hs
    have hsend : sender = h.creator := Classical.not_not.mp hs
    cases fee with
    | none =>
      simp only [] at hx
      split at hx
      · cases hx
      · injection hx with hx; subst hx
        exact ⟨hsend, rfl, rfl, rfl, rfl, rfl, rfl, (fun f hf => by cases hf),
          ⟨rfl, rfl, rfl, rfl, rfl, rfl, rfl, rfl, rfl⟩, rfl, rfl, rfl, rfl⟩
    | some f =>
      simp only [] at hx
      split at hx
      · cases hx
      · rename_i hf
        split at hx
        · cases hx
        · injection hx with hx; subst hx
          exact ⟨hsend, rfl, rfl, rfl, rfl, rfl, rfl,
            (fun g hg => by injection hg with hg; subst hg; omega),
            ⟨rfl, rfl, rfl, rfl, rfl, rfl, rfl, rfl, rfl⟩, rfl, rfl, rfl, rfl⟩

/-- Every successful hub message of every sender keeps fee ≤ 1 and threshold ≤ 1; messages other
    than UpdateParams (and the migration's un-pause) do not touch any parameter at all. -/
theorem C20_hub_step_range (h h' : HubSt) (e : HubEnv) (sender : Addr) (funds : List (Denom × Nat))
    (m : HubMsg) (ms : List Msg) (hr : h.fee ≤ D ∧ h.thr ≤ D)
    (hx : hubExec h e sender funds m = .ok (h', ms)) :
    h'.fee ≤ D ∧ h'.thr ≤ D ∧
    ((∀ a b c d p r, m ≠ .updateParams a b c d p r) →
      h'.fee = h.fee ∧ h'.thr = h.thr ∧ h'.epoch = h.epoch ∧ h'.unbonding = h.unbonding ∧
      h'.rewardDenom = h.rewardDenom) := by
  have frame : (h'.fee = h.fee ∧ h'.thr = h.thr ∧ h'.epoch = h.epoch ∧ h'.unbonding = h.unbonding ∧
      h'.rewardDenom = h.rewardDenom) → h'.fee ≤ D ∧ h'.thr ≤ D ∧
      ((∀ a b c d p r, m ≠ .updateParams a b c d p r) →
        h'.fee = h.fee ∧ h'.thr = h.thr ∧ h'.epoch = h.epoch ∧ h'.unbonding = h.unbonding ∧
        h'.rewardDenom = h.rewardDenom) := by
    intro f; exact ⟨by rw [f.1]; exact hr.1, by rw [f.2.1]; exact hr.2, fun _ => f⟩
  have ofP : SameParams h h' → (h'.fee = h.fee ∧ h'.thr = h.thr ∧ h'.epoch = h.epoch ∧
      h'.unbonding = h.unbonding ∧ h'.rewardDenom = h.rewardDenom) :=
    fun p => ⟨p.fee, p.thr, p.epoch, p.unbonding, p.rewardDenom⟩
  cases m with
  | migrateWaitList limit =>
    simp only [hubExec] at hx
    split at hx
    · injection hx with hx; injection hx with h1 _; subst h1
      have := migrate_frame h limit
      exact frame ⟨this.2.1, this.2.2.1, this.2.2.2.1, this.2.2.2.2.1, this.2.2.2.2.2.1⟩
    · cases hx
  | updateParams ep ub fee thr p rd =>
    simp only [hubExec] at hx
    exc_norm at hx
    split at hx
    · cases hx
    · rename_i hh hup
      injection hx with hx; injection hx with h1 _; subst h1
      have := C20_update_params_fields h _ sender ep ub fee thr p rd hup
      refine ⟨?_, by rw [this.2.2.2.2.1]; exact Nat.min_le_right _ _, fun hne => absurd rfl (hne ep ub fee thr p rd)⟩
      rw [this.2.2.2.1]
      cases fee with
      | none => exact hr.1
      | some f => exact this.2.2.2.2.2.2.2.1 f rfl
  | receive user amt hook =>
    simp only [hubExec] at hx
    split at hx
    · cases hx
    · exc_norm at hx
      split at hx
      · cases hx
      · split at hx
        · cases hx
        · cases hook <;> simp only [] at hx
          · split at hx
            · exact frame (ofP (unbondB_frame _ _ _ _ _ _ hx).1)
            · split at hx
              · exact frame (ofP (unbondS_frame _ _ _ _ _ _ hx).1)
              · cases hx
          · split at hx
            · exact frame (ofP (convertBS_frame _ _ _ _ _ _ hx).1)
            · split at hx
              · exact frame (ofP (convertSB_frame _ _ _ _ _ _ hx).1)
              · cases hx
          · cases hx
  | bond => simp only [hubExec] at hx; split at hx; · cases hx
            exact frame (ofP ((bond_frame h h' e sender funds ms).1 hx).1)
  | bondForStSei => simp only [hubExec] at hx; split at hx; · cases hx
                    exact frame (ofP ((bond_frame h h' e sender funds ms).2.1 hx).1)
  | bondRewards => simp only [hubExec] at hx; split at hx; · cases hx
                   exact frame (ofP ((bond_frame h h' e sender funds ms).2.2 hx).1)
  | updateGlobalIndex =>
    simp only [hubExec] at hx; split at hx; · cases hx
    unfold updateGlobal at hx; exc_norm at hx; exc_split at hx
    all_goals exact frame ⟨rfl, rfl, rfl, rfl, rfl⟩
  | withdrawUnbonded =>
    simp only [hubExec] at hx; split at hx; · cases hx
    exact frame (ofP (withdraw_frame _ _ _ _ _ hx).1)
  | checkSlashing =>
    simp only [hubExec] at hx; split at hx; · cases hx
    exc_norm at hx
    split at hx
    · cases hx
    · rename_i st hst
      injection hx with hx; injection hx with h1 _; subst h1
      exact frame (ofP (actualState_frame _ _ _ hst).1)
  | updateConfig d r b s a rw u =>
    simp only [hubExec] at hx; split at hx; · cases hx
    unfold updateConfig at hx; exc_norm at hx; exc_split at hx
    exact frame ⟨rfl, rfl, rfl, rfl, rfl⟩
  | setOwner a =>
    simp only [hubExec] at hx; split at hx; · cases hx
    exc_norm at hx; exc_split at hx; exact frame ⟨rfl, rfl, rfl, rfl, rfl⟩
  | acceptOwnership =>
    simp only [hubExec] at hx; split at hx; · cases hx
    exc_norm at hx; exc_split at hx; exact frame ⟨rfl, rfl, rfl, rfl, rfl⟩
  | swapHook =>
    simp only [hubExec] at hx; split at hx; · cases hx
    exc_norm at hx; exc_split at hx; exact frame ⟨rfl, rfl, rfl, rfl, rfl⟩
  | claimAirdrop =>
    simp only [hubExec] at hx; split at hx; · cases hx
    exc_norm at hx; exc_split at hx; exact frame ⟨rfl, rfl, rfl, rfl, rfl⟩
  | redelegateProxy src plan =>
    simp only [hubExec] at hx; split at hx; · cases hx
    exc_norm at hx; exc_split at hx; exact frame ⟨rfl, rfl, rfl, rfl, rfl⟩

/-- Hub UpdateConfig, field by field: an omitted field keeps its value; the two token addresses can
    be written only once; no parameter changes. -/
theorem C20_hub_update_config_fields (h h' : HubSt) (self sender : Addr)
    (d r b s a rw u : Option Addr) (ms : List Msg)
    (hx : h.updateConfig self sender d r b s a rw u = .ok (h', ms)) :
    sender = h.creator ∧ SameParams h h' ∧
    h'.dispatcher = d.orElse (fun _ => h.dispatcher) ∧ h'.registry = r.orElse (fun _ => h.registry) ∧
    h'.bsei = b.orElse (fun _ => h.bsei) ∧ h'.stsei = s.orElse (fun _ => h.stsei) ∧
    h'.airdrop = a.orElse (fun _ => h.airdrop) ∧ h'.rewards = rw.orElse (fun _ => h.rewards) ∧
    h'.updater = u.getD h.updater ∧ h'.creator = h.creator ∧
    (b.isSome → h.bsei = none) ∧ (s.isSome → h.stsei = none) := by
  unfold updateConfig at hx
  exc_norm at hx
  exc_split at hx
  rename_i hs hb hst
  refine ⟨Classical.not_not.mp hs, ⟨rfl, rfl, rfl, rfl, rfl, rfl⟩, rfl, rfl, rfl, rfl, rfl, rfl, rfl, rfl, ?_, ?_⟩
  · intro hb'; cases hbs : h.bsei with
    | none => rfl
    | some x => exact absurd ⟨hb', by simp [hbs]⟩ hb
  · intro hs'; cases hss : h.stsei with
    | none => rfl
    | some x => exact absurd ⟨hs', by simp [hss]⟩ hst

/-- Dispatcher: the stSei reward denomination never changes, the keeper rate stays ≤ 1, and
    UpdateConfig applies exactly the fields present. -/
theorem C20_dispatcher_fields (c c' : DispSt) (self : Addr) (env : DispEnv) (sender : Addr)
    (m : DispMsg) (ms : List Msg) (hx : dispExec c self env sender m = .ok (c', ms)) :
    c'.stDenom = c.stDenom ∧
    (∀ hub rw sd bd k kr, m = .updateConfig hub rw sd bd k kr →
      sender = c.owner ∧ sd = none ∧ c'.hub = hub.getD c.hub ∧ c'.rewardContract = rw.getD c.rewardContract ∧
      c'.bDenom = bd.getD c.bDenom ∧ c'.keeper = k.getD c.keeper ∧ c'.keeperRate = kr.getD c.keeperRate ∧
      (∀ x, kr = some x → x ≤ D) ∧ c'.owner = c.owner ∧ c'.swapContract = c.swapContract ∧
      c'.oracle = c.oracle ∧ c'.swapDenoms = c.swapDenoms) := by
  cases m with
  | updateConfig hub rw sd bd k kr =>
    simp only [dispExec] at hx; exc_norm at hx
    split at hx
    · cases hx
    · rename_i hs
      have hsend : sender = c.owner := Classical.not_not.mp hs
      split at hx
      · cases hx
      · rename_i hsd
        have hsn : sd = none := by cases sd <;> simp_all
        cases kr with
        | none =>
          simp only [] at hx
          injection hx with hx; injection hx with h1 _; subst h1
          refine ⟨rfl, ?_⟩
          intro hub' rw' sd' bd' k' kr' heq
          injection heq with e1 e2 e3 e4 e5 e6
          subst e1; subst e2; subst e3; subst e4; subst e5; subst e6
          exact ⟨hsend, hsn, rfl, rfl, rfl, rfl, rfl, (fun x hx' => by cases hx'), rfl, rfl, rfl, rfl⟩
        | some x =>
          simp only [] at hx
          split at hx
          · cases hx
          · rename_i hxD
            injection hx with hx; injection hx with h1 _; subst h1
            refine ⟨rfl, ?_⟩
            intro hub' rw' sd' bd' k' kr' heq
            injection heq with e1 e2 e3 e4 e5 e6
            subst e1; subst e2; subst e3; subst e4; subst e5; subst e6
            exact ⟨hsend, hsn, rfl, rfl, rfl, rfl, rfl,
              (fun y hy => by injection hy with hy; subst hy; omega), rfl, rfl, rfl, rfl⟩
  | swap a b =>
    refine ⟨?_, fun _ _ _ _ _ _ h => by cases h⟩
    simp only [dispExec] at hx
    exc_norm at hx
    repeat' (split at hx <;> try (first | cases hx | contradiction))
    all_goals rfl
  | dispatch => refine ⟨?_, fun _ _ _ _ _ _ h => by cases h⟩; simp only [dispExec] at hx; exc_norm at hx; exc_split at hx; rfl
  | setOwner a => refine ⟨?_, fun _ _ _ _ _ _ h => by cases h⟩; simp only [dispExec] at hx; exc_norm at hx; exc_split at hx; rfl
  | acceptOwnership => refine ⟨?_, fun _ _ _ _ _ _ h => by cases h⟩; simp only [dispExec] at hx; exc_norm at hx; exc_split at hx; rfl
  | updateSwapContract a => refine ⟨?_, fun _ _ _ _ _ _ h => by cases h⟩; simp only [dispExec] at hx; exc_norm at hx; exc_split at hx; rfl
  | updateSwapDenom d add => refine ⟨?_, fun _ _ _ _ _ _ h => by cases h⟩; simp only [dispExec] at hx; exc_norm at hx; exc_split at hx <;> rfl
  | updateOracle a => refine ⟨?_, fun _ _ _ _ _ _ h => by cases h⟩; simp only [dispExec] at hx; exc_norm at hx; exc_split at hx; rfl

/-- A rejected message (of any contract, by any sender, at any depth of the message tree) changes
    nothing: the transaction function returns the state it started from. -/
theorem C20_rejected_changes_nothing (s : Sys) (m : Msg) (e : String)
    (hx : (s.exec m).2 = .error e) : (s.exec m).1 = s := by
  unfold Sys.exec at *
  split <;> simp_all

/-- **Every reachable state.** From any state with the ranges in force (in particular the
    instantiated one: `C20_hub_init_range`, `C17_keeper_rate_le_one`), after any history of any
    length the hub's peg recovery fee and exchange-rate threshold and the dispatcher's keeper rate
    are still at most 1, and the dispatcher's stSei reward denom is the one it was created with. -/
theorem C20_reachable (s : Sys) (l : List Step)
    (h1 : s.hub.fee ≤ D) (h2 : s.hub.thr ≤ D) (h3 : s.disp.keeperRate ≤ D) :
    (s.steps l).hub.fee ≤ D ∧ (s.steps l).hub.thr ≤ D ∧ (s.steps l).disp.keeperRate ≤ D ∧
    (s.steps l).disp.stDenom = s.disp.stDenom := by
  exact steps_inv
    (fun x => x.hub.fee ≤ D ∧ x.hub.thr ≤ D ∧ x.disp.keeperRate ≤ D ∧ x.disp.stDenom = s.disp.stDenom)
    (by
      intro x m x' ms hp hx
      obtain ⟨p1, p2, p3, p4⟩ := hp
      cases handle_touch x x' m ms hx with
      | none h _ _ _ => rw [h.hub, h.disp]; exact ⟨p1, p2, p3, p4⟩
      | hub s1 sender funds hm _ _ _ _ hx' b t r d g =>
        have st := C20_hub_step_range _ _ _ _ _ _ _ ⟨p1, p2⟩ hx'
        rw [d]; exact ⟨st.1, st.2.1, p3, p4⟩
      | bsei s1 sender funds tm _ _ hx' h t r d g => rw [h, d]; exact ⟨p1, p2, p3, p4⟩
      | stsei blk sender funds tm _ hx' h b r d g => rw [h, d]; exact ⟨p1, p2, p3, p4⟩
      | reward s1 sender funds rm _ _ _ _ hx' h b t d g => rw [h, d]; exact ⟨p1, p2, p3, p4⟩
      | disp env sender funds dm _ _ _ hx' h b t r g =>
        rw [h]
        exact ⟨p1, p2, C17_keeper_rate_le_one.2 _ _ _ _ _ _ _ p3 hx',
          by rw [(C20_dispatcher_fields _ _ _ _ _ _ _ hx').1]; exact p4⟩
      | reg s1 sender funds rm _ h1 _ _ hx' h b t r d => rw [h, d]; exact ⟨p1, p2, p3, p4⟩)
    (by
      intro x e hp
      cases e with
      | seedLegacy u b a => exact hp
      | slash v n d => simp only [Sys.env]; split <;> exact hp
      | slashUnbonding v n d => simp only [Sys.env]; split <;> exact hp
      | _ => exact hp)
    l s ⟨h1, h2, h3, rfl⟩

/-! Non-vacuity: an in-range instantiate succeeds. -/
example : ∃ h, hubInit 1 0 30 100 D D 1 3 = .ok h := ⟨_, rfl⟩

/-! Non-vacuity of `C20_reachable`: the genesis state. -/
example : genesisSys.hub.fee ≤ D ∧ genesisSys.hub.thr ≤ D ∧ genesisSys.disp.keeperRate ≤ D := by decide

end Krp
