/-
  C03 — Reported exchange rates equal backing over claims and price every mint/redeem.
  Rates are atomics (scale D = 10^18); `rateOf B S R = if B = 0 ∨ S + R = 0 then D else ⌊B·D/(S+R)⌋`.
-/
import Krp.Lemmas.HubSpec
import Krp.Lemmas.Registry
import Krp.Props.C12
namespace Krp
open HubSt

/-- Whenever stake is bonded (delegations exist and something is booked) the State query reports,
    for each token, bonded / (circulating supply + pending unbond requests) of the same moment —
    and exactly 1 when either is zero. A handler that forgot the pending-request term, or used a
    stale supply, would not satisfy this. -/
theorem C03_reported_rates (h st : HubSt) (e : HubEnv) (hx : h.actualState e = .ok st)
    (hd : e.delegations ≠ []) (hb : h.bBond + h.sBond ≠ 0) :
    ∃ bs ss, h.bSupplyQ e = .ok bs ∧ h.sSupplyQ e = .ok ss ∧
      st.bRate = (if st.bBond = 0 ∨ bs + h.reqB = 0 then D else st.bBond * D / (bs + h.reqB)) ∧
      st.sRate = (if st.sBond = 0 ∨ ss + h.reqS = 0 then D else st.sBond * D / (ss + h.reqS)) := by
  have hs := actualState_spec h st e hx
  rcases hs.2 with ⟨hc, _⟩ | ⟨bs, ss, _, _, hbs, hss, hrb, hrs, _⟩
  · rcases hc with hc | hc
    · exact absurd hc hd
    · exact absurd hc hb
  · exact ⟨bs, ss, hbs, hss, hrb, hrs⟩

/-- every rounding of a rate is in the pool's favour: rate × claims ≤ backing × 10^18 -/
theorem C03_rate_rounds_down (B S R : Nat) (h : 0 < B ∨ S + R = 0) :
    rateOf B S R * (S + R) ≤ B * D := rateOf_mul_le B S R h

/-- Bond for bSei mints ⌊payment / rate⌋ less only the peg fee; the minted tokens are never worth
    more than the payment; the pool grows by exactly the payment; the stored rate is the new
    backing over the new claims. No tokens for a zero payment: a payment is always positive. -/
theorem C03_bond_bsei (h h' : HubSt) (e : HubEnv) (sender : Addr) (funds : List (Denom × Nat))
    (ms : List Msg) (hx : h.bondB e sender funds = .ok (h', ms)) :
    ∃ p st mint tok, paymentOf funds = .ok p ∧ 0 < p ∧ h.actualState e = .ok st ∧
      mint ≤ decDiv p st.bRate ∧ (st.thr ≤ st.bRate → mint = decDiv p st.bRate) ∧
      mint * st.bRate ≤ p * D ∧
      h'.bBond = st.bBond + p ∧ h'.sBond = st.sBond ∧
      h'.bRate = rateOf (st.bBond + p) ((st.bSupplyQ e).toOption.getD 0 + mint) h.reqB ∧
      tokMsg e.self tok (.mint sender mint) ∈ ms := by
  obtain ⟨p, st, mint, delegs, tok, hp, hst, _, hfee, _, _, hh, hms⟩ := bondB_spec h h' e sender funds ms hx
  have hf := pegFeeOnMint_spec st _ _ _ _ hfee
  refine ⟨p, st, mint, tok, hp, paymentOf_pos funds p hp, hst, hf.1, hf.2.2.1, ?_, by rw [hh], by rw [hh], by rw [hh], by rw [hms]; simp⟩
  exact Nat.le_trans (Nat.mul_le_mul_right _ hf.1) (decDiv_mul_le p st.bRate)

/-- Bond for stSei mints exactly ⌊payment / rate⌋. -/
theorem C03_bond_stsei (h h' : HubSt) (e : HubEnv) (sender : Addr) (funds : List (Denom × Nat))
    (ms : List Msg) (hx : h.bondS e sender funds = .ok (h', ms)) :
    ∃ p st tok, paymentOf funds = .ok p ∧ 0 < p ∧ h.actualState e = .ok st ∧
      tokMsg e.self tok (.mint sender (decDiv p st.sRate)) ∈ ms ∧
      decDiv p st.sRate * st.sRate ≤ p * D ∧
      h'.sBond = st.sBond + p ∧ h'.bBond = st.bBond := by
  obtain ⟨p, st, delegs, tok, hp, hst, _, _, _, hh, hms⟩ := bondS_spec h h' e sender funds ms hx
  exact ⟨p, st, tok, hp, paymentOf_pos funds p hp, hst, by rw [hms]; simp, decDiv_mul_le _ _, by rw [hh], by rw [hh]⟩

/-- Convert stSei→bSei values the tokens at ⌊amount × source rate⌋ coins, moves exactly that value
    between the pools and mints ⌊value / destination rate⌋ bSei less only the peg fee. -/
theorem C03_convert_stsei_bsei (h h' : HubSt) (e : HubEnv) (amount : Nat) (user : Addr) (ms : List Msg)
    (hx : h.convertSB e amount user = .ok (h', ms)) :
    ∃ st mint sTok bTok, h.actualState e = .ok st ∧
      mint ≤ decDiv (mulDec amount st.sRate) st.bRate ∧
      (st.thr ≤ st.bRate → mint = decDiv (mulDec amount st.sRate) st.bRate) ∧
      h'.bBond = st.bBond + mulDec amount st.sRate ∧ h'.sBond + mulDec amount st.sRate = st.sBond ∧
      ms = [tokMsg e.self bTok (.mint user mint), tokMsg e.self sTok (.burn amount)] := by
  obtain ⟨st, sTok, bTok, bs, ss, mint, hst, _, _, _, _, _, hfee, hle, _, hh, hms⟩ := convertSB_spec h h' e amount user ms hx
  have hf := pegFeeOnMint_spec st _ _ _ _ hfee
  exact ⟨st, mint, sTok, bTok, hst, hf.1, hf.2.2.1, by rw [hh], by rw [hh]; simp only []; omega, hms⟩

/-- Convert bSei→stSei: the same with the fee taken on the bSei side first. -/
theorem C03_convert_bsei_stsei (h h' : HubSt) (e : HubEnv) (amount : Nat) (user : Addr) (ms : List Msg)
    (hx : h.convertBS e amount user = .ok (h', ms)) :
    ∃ st withFee sTok bTok, h.actualState e = .ok st ∧ withFee ≤ amount ∧
      (st.thr ≤ st.bRate → withFee = amount) ∧
      h'.bBond + mulDec withFee st.bRate = st.bBond ∧ h'.sBond = st.sBond + mulDec withFee st.bRate ∧
      ms = [tokMsg e.self sTok (.mint user (decDiv (mulDec withFee st.bRate) st.sRate)),
            tokMsg e.self bTok (.burn amount)] := by
  obtain ⟨st, sTok, bTok, bs, ss, withFee, hst, _, _, _, _, hfee, _, hle, _, hh, hms⟩ := convertBS_spec h h' e amount user ms hx
  have hf := pegFeeOnBurn_spec st _ _ _ hfee
  exact ⟨st, withFee, sTok, bTok, hst, hf.1, hf.2.2.1, by rw [hh]; simp only []; omega, by rw [hh], hms⟩

/-- A batch of unbond requests is undelegated for ⌊requests × rate⌋ coins per token, the history
    records the rates applied, and the books fall by exactly that amount. -/
theorem C03_batch_undelegation (h h' : HubSt) (e : HubEnv) (ms : List Msg)
    (hx : h.processUndelegations e = .ok (h', ms)) :
    h'.bBond + mulDec h.reqB h.bRate = h.bBond ∧ h'.sBond + mulDec h.reqS h.sRate = h.sBond ∧
    h'.hist h.batchId = some { time := e.now, bAmt := h.reqB, bApplied := h.bRate, bWithdraw := h.bRate,
                               sAmt := h.reqS, sApplied := h.sRate, sWithdraw := h.sRate, released := false } := by
  have hs := processUndelegations_spec h h' e ms hx
  refine ⟨by omega, by omega, ?_⟩
  rw [hs.2.2.2.2.2.2.2.2.2.2.2.1]; simp

/-- …and the Undelegate messages of that batch sum to exactly that amount. -/
def undelegatedBy : List Msg → Nat
  | [] => 0
  | Msg.undelegate _ _ a :: ms => a + undelegatedBy ms
  | _ :: ms => undelegatedBy ms

private theorem undelegatedBy_zip (self : Addr) (vs : List (Addr × Nat)) (plan : List Nat)
    (hl : plan.length = vs.length) :
    undelegatedBy (zipMsgs (fun v p => Msg.undelegate self v p) vs plan) = plan.sum := by
  induction vs generalizing plan with
  | nil => cases plan <;> simp_all [zipMsgs, undelegatedBy]
  | cons v vs ih =>
    cases plan with
    | nil => simp at hl
    | cons p ps =>
      simp only [zipMsgs, List.sum_cons]
      have := ih ps (by simpa using hl)
      split
      · rename_i hp; simp only [List.nil_append, this, hp]; omega
      · simp only [List.singleton_append, undelegatedBy, this]

theorem C03_undelegate_messages_sum (e : HubEnv) (claim : Nat) (ms : List Msg)
    (hx : pickValidator e claim = .ok ms) : undelegatedBy ms = claim := by
  unfold pickValidator at hx
  simp only [] at hx
  split at hx
  · cases hx
  · rename_i plan hplan
    injection hx with hx; subst hx
    have := C12_undeleg_conserves 0 claim _ plan hplan
    rw [undelegatedBy_zip _ _ _ (by simpa using this.2.1)]
    exact this.1

/-! Non-vacuity: rate 0.9, payment 1000 → 1111 tokens, worth at most the payment. -/
example : decDiv 1000 900000000000000000 = 1111 ∧ 1111 * 900000000000000000 ≤ 1000 * D := by decide

end Krp
