/-
  C03 — Reported exchange rates equal backing over claims and price every mint/redeem.
  Rates are atomics (scale D = 10^18); `rateOf B S R = if B = 0 ∨ S + R = 0 then D else ⌊B·D/(S+R)⌋`.
-/
import Krp.Lemmas.HubSpec
import Krp.Lemmas.Registry
import Krp.Props.C12
import Krp.Lemmas.TokensFixed
namespace Krp
open HubSt

/-- Whenever stake is bonded (delegations exist and something is booked) the State query reports,
    for each token, bonded / (circulating supply + pending unbond requests) of the same moment —
    and exactly 1 when either is zero. A handler that forgot the pending-request term, or used a
    stale supply, would not satisfy this. -/
theorem C03_reported_rates (h st : HubSt) (e : HubEnv) (hx : h.actualState e = .ok st)
    (hd : e.delegations ≠ []) (hb : h.bBond + h.sBond ≠ 0) :
    ∃ bs ss, h.bSupplyQ e = .ok bs ∧ h.sSupplyQ e = .ok ss ∧
      st.bRate = (if st.bBond = 0 ∨ bs + h.reqB = 0 then D else st.bBond * D / (bs + h.reqB)) ∧
      st.sRate = (if st.sBond = 0 ∨ ss + h.reqS = 0 then D else st.sBond * D / (ss + h.reqS)) := by
  have hs := actualState_spec h st e hx
  rcases hs.2 with ⟨hc, _⟩ | ⟨bs, ss, _, _, hbs, hss, hrb, hrs, _⟩
  · rcases hc with hc | hc
    · exact absurd hc hd
    · exact absurd hc hb
  · exact ⟨bs, ss, hbs, hss, hrb, hrs⟩

/-- every rounding of a rate is in the pool's favour: rate × claims ≤ backing × 10^18 -/
theorem C03_rate_rounds_down (B S R : Nat) (h : 0 < B ∨ S + R = 0) :
    rateOf B S R * (S + R) ≤ B * D := rateOf_mul_le B S R h

/-- Bond for bSei mints ⌊payment / rate⌋ less only the peg fee; the minted tokens are never worth
    more than the payment; the pool grows by exactly the payment; the stored rate is the new
    backing over the new claims. No tokens for a zero payment: a payment is always positive. -/
theorem C03_bond_bsei (h h' : HubSt) (e : HubEnv) (sender : Addr) (funds : List (Denom × Nat))
    (ms : List Msg) (hx : h.bondB e sender funds = .ok (h', ms)) :
    ∃ p st mint tok, paymentOf funds = .ok p ∧ 0 < p ∧ h.actualState e = .ok st ∧
      mint ≤ decDiv p st.bRate ∧ (st.thr ≤ st.bRate → mint = decDiv p st.bRate) ∧
      mint * st.bRate ≤ p * D ∧
      h'.bBond = st.bBond + p ∧ h'.sBond = st.sBond ∧
      h'.bRate = rateOf (st.bBond + p) ((st.bSupplyQ e).toOption.getD 0 + mint) h.reqB ∧
      tokMsg e.self tok (.mint sender mint) ∈ ms := by
  obtain ⟨p, st, mint, delegs, tok, hp, hst, _, hfee, _, _, hh, hms⟩ := bondB_spec h h' e sender funds ms hx
  have hf := pegFeeOnMint_spec st _ _ _ _ hfee
  refine ⟨p, st, mint, tok, hp, paymentOf_pos funds p hp, hst, hf.1, hf.2.2.1, ?_, by rw [hh], by rw [hh], by rw [hh], by rw [hms]; simp⟩
  exact Nat.le_trans (Nat.mul_le_mul_right _ hf.1) (decDiv_mul_le p st.bRate)

/-- Bond for stSei mints exactly ⌊payment / rate⌋. -/
theorem C03_bond_stsei (h h' : HubSt) (e : HubEnv) (sender : Addr) (funds : List (Denom × Nat))
    (ms : List Msg) (hx : h.bondS e sender funds = .ok (h', ms)) :
    ∃ p st tok, paymentOf funds = .ok p ∧ 0 < p ∧ h.actualState e = .ok st ∧
      tokMsg e.self tok (.mint sender (decDiv p st.sRate)) ∈ ms ∧
      decDiv p st.sRate * st.sRate ≤ p * D ∧
      h'.sBond = st.sBond + p ∧ h'.bBond = st.bBond := by
  obtain ⟨p, st, delegs, tok, hp, hst, _, _, _, hh, hms⟩ := bondS_spec h h' e sender funds ms hx
  exact ⟨p, st, tok, hp, paymentOf_pos funds p hp, hst, by rw [hms]; simp, decDiv_mul_le _ _, by rw [hh], by rw [hh]⟩

/-- Convert stSei→bSei values the tokens at ⌊amount × source rate⌋ coins, moves exactly that value
    between the pools and mints ⌊value / destination rate⌋ bSei less only the peg fee. -/
theorem C03_convert_stsei_bsei (h h' : HubSt) (e : HubEnv) (amount : Nat) (user : Addr) (ms : List Msg)
    (hx : h.convertSB e amount user = .ok (h', ms)) :
    ∃ st mint sTok bTok, h.actualState e = .ok st ∧
      mint ≤ decDiv (mulDec amount st.sRate) st.bRate ∧
      (st.thr ≤ st.bRate → mint = decDiv (mulDec amount st.sRate) st.bRate) ∧
      h'.bBond = st.bBond + mulDec amount st.sRate ∧ h'.sBond + mulDec amount st.sRate = st.sBond ∧
      ms = [tokMsg e.self bTok (.mint user mint), tokMsg e.self sTok (.burn amount)] := by
  obtain ⟨st, sTok, bTok, bs, ss, mint, hst, _, _, _, _, _, hfee, hle, _, hh, hms⟩ := convertSB_spec h h' e amount user ms hx
  have hf := pegFeeOnMint_spec st _ _ _ _ hfee
  exact ⟨st, mint, sTok, bTok, hst, hf.1, hf.2.2.1, by rw [hh], by rw [hh]; simp only []; omega, hms⟩

/-- Convert bSei→stSei: the same with the fee taken on the bSei side first. -/
theorem C03_convert_bsei_stsei (h h' : HubSt) (e : HubEnv) (amount : Nat) (user : Addr) (ms : List Msg)
    (hx : h.convertBS e amount user = .ok (h', ms)) :
    ∃ st withFee sTok bTok, h.actualState e = .ok st ∧ withFee ≤ amount ∧
      (st.thr ≤ st.bRate → withFee = amount) ∧
      h'.bBond + mulDec withFee st.bRate = st.bBond ∧ h'.sBond = st.sBond + mulDec withFee st.bRate ∧
      ms = [tokMsg e.self sTok (.mint user (decDiv (mulDec withFee st.bRate) st.sRate)),
            tokMsg e.self bTok (.burn amount)] := by
  obtain ⟨st, sTok, bTok, bs, ss, withFee, hst, _, _, _, _, hfee, _, hle, _, hh, hms⟩ := convertBS_spec h h' e amount user ms hx
  have hf := pegFeeOnBurn_spec st _ _ _ hfee
  exact ⟨st, withFee, sTok, bTok, hst, hf.1, hf.2.2.1, by rw [hh]; simp only []; omega, by rw [hh], hms⟩

/-- A batch of unbond requests is undelegated for ⌊requests × rate⌋ coins per token, the history
    records the rates applied, and the books fall by exactly that amount. -/
theorem C03_batch_undelegation (h h' : HubSt) (e : HubEnv) (ms : List Msg)
    (hx : h.processUndelegations e = .ok (h', ms)) :
    h'.bBond + mulDec h.reqB h.bRate = h.bBond ∧ h'.sBond + mulDec h.reqS h.sRate = h.sBond ∧
    h'.hist h.batchId = some { time := e.now, bAmt := h.reqB, bApplied := h.bRate, bWithdraw := h.bRate,
                               sAmt := h.reqS, sApplied := h.sRate, sWithdraw := h.sRate, released := false } := by
  have hs := processUndelegations_spec h h' e ms hx
  refine ⟨by omega, by omega, ?_⟩
  rw [hs.2.2.2.2.2.2.2.2.2.2.2.1]; simp

/-- …and the Undelegate messages of that batch sum to exactly that amount. -/
def undelegatedBy : List Msg → Nat
  | [] => 0
  | Msg.undelegate _ _ a :: ms => a + undelegatedBy ms
  | _ :: ms => undelegatedBy ms

private theorem undelegatedBy_zip (self : Addr) (vs : List (Addr × Nat)) (plan : List Nat)
    (hl : plan.length = vs.length) :
    undelegatedBy (zipMsgs (fun v p => Msg.undelegate self v p) vs plan) = plan.sum := by
  induction vs generalizing plan with
  | nil => cases plan <;> simp_all [zipMsgs, undelegatedBy]
  | cons v vs ih =>
    cases plan with
    | nil => simp at hl
    | cons p ps =>
      simp only [zipMsgs, List.sum_cons]
      have := ih ps (by simpa using hl)
      split
      · rename_i hp; simp only [List.nil_append, this, hp]; omega
      · simp only [List.singleton_append, undelegatedBy, this]

theorem C03_undelegate_messages_sum (e : HubEnv) (claim : Nat) (ms : List Msg)
    (hx : pickValidator e claim = .ok ms) : undelegatedBy ms = claim := by
  unfold pickValidator at hx
  simp only [] at hx
  split at hx
  · cases hx
  · rename_i plan hplan
    injection hx with hx; subst hx
    have := C12_undeleg_conserves 0 claim _ plan hplan
    rw [undelegatedBy_zip _ _ _ (by simpa using this.2.1)]
    exact this.1

/-! Non-vacuity: rate 0.9, payment 1000 → 1111 tokens, worth at most the payment. -/
example : decDiv 1000 900000000000000000 = 1111 ∧ 1111 * 900000000000000000 ≤ 1000 * D := by decide


/-! ### the State query in the composed system, in every reachable state -/

theorem env_tokens (s : Sys) (e : EnvOp) :
    (s.env e).hub.bsei = s.hub.bsei ∧ (s.env e).hub.stsei = s.hub.stsei := by
  by_cases h : ∃ u b a, e = .seedLegacy u b a
  · obtain ⟨u, b, a, rfl⟩ := h; exact ⟨rfl, rfl⟩
  · have := env_same s e (fun u b a he => h ⟨u, b, a, he⟩)
    rw [this.hub]; exact ⟨rfl, rfl⟩

/-- the token contracts registered in the hub stay registered through every history: transactions
    by anyone (the owner included — the addresses are write-once), failures, environment events -/
theorem tokens_registered_reachable (s : Sys) (l : List Step)
    (hb : s.hub.bsei = some bseiA) (hs : s.hub.stsei = some stseiA) :
    (s.steps l).hub.bsei = some bseiA ∧ (s.steps l).hub.stsei = some stseiA :=
  steps_inv (fun x => x.hub.bsei = some bseiA ∧ x.hub.stsei = some stseiA)
    (fun x m x' ms hp hx =>
      have k := handle_tokens x x' m ms hx
      ⟨k.bsei _ hp.1, k.stsei _ hp.2⟩)
    (fun x e hp => by rw [(env_tokens x e).1, (env_tokens x e).2]; exact hp) l s ⟨hb, hs⟩

/-- **The State query, in the composed system.** With the two tokens registered, whenever stake is
    bonded the rates the hub reports are the bonded stake of each pool over that token contract's
    own total supply of the same moment plus the requests waiting in the open batch — and since the
    supply is the sum of all account balances (`Token.WF`, C18), over *the holders' balances*. -/
theorem C03_system_state_query (s : Sys) (st : HubSt)
    (hb : s.hub.bsei = some bseiA) (hs : s.hub.stsei = some stseiA) (wb : s.bsei.WF) (ws : s.stsei.WF)
    (hx : s.hub.actualState s.hubEnv = .ok st)
    (hd : s.delegationsOf hubA ≠ []) (hbd : s.hub.bBond + s.hub.sBond ≠ 0) :
    st.bRate = rateOf st.bBond (sumOn s.bsei.holders s.bsei.bal) s.hub.reqB ∧
    st.sRate = rateOf st.sBond (sumOn s.stsei.holders s.stsei.bal) s.hub.reqS ∧
    st.bRate * (s.bsei.supply + s.hub.reqB) ≤ (if st.bBond = 0 then s.bsei.supply + s.hub.reqB else st.bBond) * D := by
  obtain ⟨bs, ss, hbs, hss, hrb, hrs⟩ := C03_reported_rates s.hub st s.hubEnv hx hd hbd
  have e1 : bs = s.bsei.supply := by
    simp only [bSupplyQ, hb, Sys.hubEnv, Sys.supplyOf, if_true] at hbs
    injection hbs with hbs; exact hbs.symm
  have e2 : ss = s.stsei.supply := by
    simp only [sSupplyQ, hs, Sys.hubEnv, Sys.supplyOf] at hss
    rw [if_pos trivial] at hss
    injection hss with hss; exact hss.symm
  subst e1; subst e2
  refine ⟨by rw [wb.sum]; exact hrb, by rw [ws.sum]; exact hrs, ?_⟩
  rw [hrb]
  split
  · rename_i hz
    split
    · exact Nat.le_of_eq (Nat.mul_comm _ _)
    · rename_i hne
      have : s.bsei.supply + s.hub.reqB = 0 := by
        rcases hz with hz | hz
        · exact absurd hz hne
        · exact hz
      rw [this]; simp
  · rename_i hz
    rw [if_neg (by intro h; exact hz (Or.inl h))]
    exact Nat.div_mul_le_self _ _

/-- **Every reachable state.** After any history from a state with both tokens registered and
    well-formed ledgers (genesis), the State query prices each token at bonded stake over the sum of
    the holders' balances plus the pending requests. -/
theorem C03_reachable_state_query (s : Sys) (l : List Step) (st : HubSt)
    (hb : s.hub.bsei = some bseiA) (hs : s.hub.stsei = some stseiA) (wb : s.bsei.WF) (ws : s.stsei.WF)
    (hx : (s.steps l).hub.actualState (s.steps l).hubEnv = .ok st)
    (hd : (s.steps l).delegationsOf hubA ≠ []) (hbd : (s.steps l).hub.bBond + (s.steps l).hub.sBond ≠ 0) :
    st.bRate = rateOf st.bBond (sumOn (s.steps l).bsei.holders (s.steps l).bsei.bal) (s.steps l).hub.reqB ∧
    st.sRate = rateOf st.sBond (sumOn (s.steps l).stsei.holders (s.steps l).stsei.bal) (s.steps l).hub.reqS := by
  have t := tokens_registered_reachable s l hb hs
  have w := C18_reachable s l wb ws
  have r := C03_system_state_query (s.steps l) st t.1 t.2 w.1 w.2.1 hx hd hbd
  exact ⟨r.1, r.2.1⟩

/-! Non-vacuity of `C03_reachable_state_query`: genesis has both tokens registered. -/
example : genesisSys.hub.bsei = some bseiA ∧ genesisSys.hub.stsei = some stseiA := by decide

end Krp
