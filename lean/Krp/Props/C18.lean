/-
  C18 — Both tokens conserve supply; only the hub mints and burns.
  `Token.WF`: holders duplicate-free, zero balance outside, Σ balances = total_supply.
-/
import Krp.Lemmas.Cw20
import Krp.Init
import Krp.Lemmas.Reach
namespace Krp
open Token

private theorem init_fold (bals : List (Addr × Nat)) (t : Token) (h : t.WF) :
    (bals.foldl (fun t x => { (t.setBal x.1 (t.bal x.1 + x.2)) with supply := t.supply + x.2 }) t).WF ∧
    (bals.foldl (fun t x => { (t.setBal x.1 (t.bal x.1 + x.2)) with supply := t.supply + x.2 }) t).minter = t.minter ∧
    (bals.foldl (fun t x => { (t.setBal x.1 (t.bal x.1 + x.2)) with supply := t.supply + x.2 }) t).hub = t.hub := by
  induction bals generalizing t with
  | nil => exact ⟨h, rfl, rfl⟩
  | cons x xs ih =>
    simp only [List.foldl_cons]
    have w := setBal_wf t h x.1 (t.bal x.1 + x.2) (t.supply + x.2) (by omega)
    have := ih _ w
    exact ⟨this.1, this.2.1, this.2.2⟩

/-- every instantiate message (repeated addresses included) yields a ledger whose balances sum to
    the total supply, with the hub as minter -/
theorem C18_init_wf (legacy : Bool) (hub : Addr) (bals : List (Addr × Nat)) (t : Token)
    (hx : tokInit legacy hub bals = .ok t) : t.WF ∧ t.minter = some hub ∧ t.hub = hub := by
  unfold tokInit at hx
  split at hx
  · cases hx
  · injection hx with hx; subst hx
    have w0 : (emptyToken legacy hub).WF := ⟨by simp [emptyToken], by simp [emptyToken], by simp [emptyToken]⟩
    have := init_fold bals (emptyToken legacy hub) w0
    exact ⟨this.1, by rw [this.2.1]; rfl, by rw [this.2.2]; rfl⟩

/-- the ledger step shared by both wrappers: every successful message of every sender keeps
    Σ balances = supply and the hub address; the minter changes only through UpdateMinter sent by
    the current minter; the supply changes only through Mint by the minter, Burn by the hub on its
    own balance, and BurnFrom within an unexpired allowance; allowance-based moves never exceed the
    allowance and lower it by exactly the amount. -/
theorem C18_core_step (t t' : Token) (b : Block) (sender : Addr) (m : TokMsg) (h : t.WF)
    (hx : t.core b sender m = .ok t') :
    t'.WF ∧ t'.hub = t.hub ∧ (t'.minter ≠ t.minter → t.minter = some sender) ∧
    (match m with
     | .mint _ amt => t.minter = some sender ∧ t'.supply = t.supply + amt
     | .burn amt => sender = t.hub ∧ t'.supply + amt = t.supply ∧ amt ≤ t.bal sender
     | .burnFrom o amt => t'.supply + amt = t.supply ∧ t.allowSet o sender = true ∧
         (t.allowExp o sender).isExpired b = false ∧ amt ≤ t.allowAmt o sender ∧
         t'.allowAmt o sender = t.allowAmt o sender - amt
     | .transferFrom o _ amt => t'.supply = t.supply ∧ t.allowSet o sender = true ∧
         (t.allowExp o sender).isExpired b = false ∧ amt ≤ t.allowAmt o sender ∧
         t'.allowAmt o sender = t.allowAmt o sender - amt
     | .sendFrom o _ amt _ => t'.supply = t.supply ∧ t.allowSet o sender = true ∧
         (t.allowExp o sender).isExpired b = false ∧ amt ≤ t.allowAmt o sender ∧
         t'.allowAmt o sender = t.allowAmt o sender - amt
     | _ => t'.supply = t.supply) := by
  cases m with
  | transfer to amt =>
    have := transfer_step _ _ h _ _ _ hx; have hsup := this.1.supply
    exact ⟨this.1.wf, this.1.hub, fun hn => absurd this.2 hn, by simp only []; omega⟩
  | burn amt =>
    simp only [Token.core] at hx; exc_split at hx
    rename_i hne
    have := burn_step _ _ h _ _ hx; have hsup := this.1.supply
    exact ⟨this.1.wf, this.1.hub, fun hn => absurd this.2.1 hn, Classical.not_not.mp hne, by omega, this.2.2⟩
  | send c amt hk =>
    have := transfer_step _ _ h _ _ _ hx; have hsup := this.1.supply
    exact ⟨this.1.wf, this.1.hub, fun hn => absurd this.2 hn, by simp only []; omega⟩
  | mint to amt =>
    have := mint_step _ _ h _ _ _ hx; have hsup := this.1.supply
    exact ⟨this.1.wf, this.1.hub, fun hn => absurd this.2.1 hn, this.2.2, by omega⟩
  | incAllow sp amt e =>
    have := incAllow_step _ _ h _ _ _ _ _ hx; have hsup := this.1.supply
    exact ⟨this.1.wf, this.1.hub, fun hn => absurd this.2 hn, by simp only []; omega⟩
  | decAllow sp amt e =>
    have := decAllow_step _ _ h _ _ _ _ _ hx; have hsup := this.1.supply
    exact ⟨this.1.wf, this.1.hub, fun hn => absurd this.2 hn, by simp only []; omega⟩
  | transferFrom o to amt =>
    have := transferFrom_step _ _ h _ _ _ _ _ hx; have hsup := this.1.supply
    exact ⟨this.1.wf, this.1.hub, fun hn => absurd this.2.1 hn, by omega, this.2.2⟩
  | burnFrom o amt =>
    have := burnFrom_step _ _ h _ _ _ _ hx; have hsup := this.1.supply
    exact ⟨this.1.wf, this.1.hub, fun hn => absurd this.2.1 hn, by omega, this.2.2⟩
  | sendFrom o c amt hk =>
    have := transferFrom_step _ _ h _ _ _ _ _ hx; have hsup := this.1.supply
    exact ⟨this.1.wf, this.1.hub, fun hn => absurd this.2.1 hn, by omega, this.2.2⟩
  | updateMinter n =>
    have hx' : t.updateMinter sender n = .ok t' := hx
    unfold Token.updateMinter at hx'
    split at hx'
    · cases hx'
    · rename_i hm
      injection hx' with hx'; subst hx'
      exact ⟨⟨h.nodup, h.zero, h.sum⟩, rfl, fun _ => Classical.not_not.mp hm, rfl⟩
  | updateMarketing => exact absurd hx (by simp [Token.core])

/-- bSei wrapper: every successful message is a `core` step (so all of C18_core_step applies), and
    bSei has no UpdateMinter at all: the minter stays the hub forever -/
theorem C18_bsei_step (t t' : Token) (b : Block) (self : Addr) (rw : Res Addr) (hubc sender : Addr)
    (m : TokMsg) (ms : List Msg) (h : t.WF)
    (hx : bseiExec t b self rw hubc sender m = .ok (t', ms)) :
    t.core b sender m = .ok t' ∧ t'.WF ∧ t'.minter = t.minter ∧ t'.hub = t.hub := by
  have hc := bsei_core _ _ _ _ _ _ _ _ _ hx
  have hs := C18_core_step _ _ _ _ _ h hc
  refine ⟨hc, hs.1, ?_, hs.2.1⟩
  cases m with
  | updateMinter n => simp only [bseiExec] at hx; exc_norm at hx; cases hx
  | updateMarketing => simp only [bseiExec] at hx; exc_norm at hx; cases hx
  | transfer to amt => exact (transfer_step _ _ h _ _ _ hc).2
  | send c amt hk => exact (transfer_step _ _ h _ _ _ hc).2
  | mint to amt => exact (mint_step _ _ h _ _ _ hc).2.1
  | incAllow sp amt e => exact (incAllow_step _ _ h _ _ _ _ _ hc).2
  | decAllow sp amt e => exact (decAllow_step _ _ h _ _ _ _ _ hc).2
  | transferFrom o to amt => exact (transferFrom_step _ _ h _ _ _ _ _ hc).2.1
  | burnFrom o amt => exact (burnFrom_step _ _ h _ _ _ _ hc).2.1
  | sendFrom o c amt hk => exact (transferFrom_step _ _ h _ _ _ _ _ hc).2.1
  | burn amt =>
    simp only [Token.core] at hc; exc_split at hc
    exact (burn_step _ _ h _ _ hc).2.1

/-- stSei wrapper: every successful message is a `core` step -/
theorem C18_stsei_step (t t' : Token) (b : Block) (self hubc sender : Addr)
    (m : TokMsg) (ms : List Msg) (h : t.WF)
    (hx : stseiExec t b self hubc sender m = .ok (t', ms)) :
    t.core b sender m = .ok t' ∧ t'.WF ∧ t'.hub = t.hub ∧ (t'.minter ≠ t.minter → t.minter = some sender) := by
  have hc := stsei_core _ _ _ _ _ _ _ _ hx
  have hs := C18_core_step _ _ _ _ _ h hc
  exact ⟨hc, hs.1, hs.2.1, hs.2.2.1⟩

/-- every burn of stSei, and every allowance burn of bSei, makes the hub refresh its rates in the
    same transaction (a CheckSlashing message to the hub is emitted) -/
theorem C18_burn_refreshes_rates (t t' : Token) (b : Block) (self : Addr) (rw : Res Addr) (hubc sender : Addr)
    (ms : List Msg) :
    (∀ amt, stseiExec t b self hubc sender (.burn amt) = .ok (t', ms) →
        Msg.wasm self t.hub (.hub .checkSlashing) [] ∈ ms) ∧
    (∀ o amt, stseiExec t b self hubc sender (.burnFrom o amt) = .ok (t', ms) →
        Msg.wasm self t.hub (.hub .checkSlashing) [] ∈ ms) ∧
    (∀ o amt, bseiExec t b self rw hubc sender (.burnFrom o amt) = .ok (t', ms) →
        Msg.wasm self t.hub (.hub .checkSlashing) [] ∈ ms) := by
  refine ⟨?_, ?_, ?_⟩
  · intro amt hx; simp only [stseiExec] at hx; exc_norm at hx; exc_split at hx; simp
  · intro o amt hx; simp only [stseiExec] at hx; exc_norm at hx; exc_split at hx; simp
  · intro o amt hx; simp only [bseiExec] at hx; exc_norm at hx; exc_split at hx; simp

/-! Non-vacuity -/
example : ∃ t, tokInit true 100 [(5, 10), (6, 7), (5, 20)] = .ok t ∧ t.supply = 37 ∧ t.bal 5 = 30 := by
  refine ⟨_, rfl, ?_, ?_⟩ <;> simp [Token.setBal, emptyToken, upd]

/-- **Every reachable state.** From any state in which both ledgers are consistent (in particular
    the instantiated one, `C18_init_wf`), after any history of any length — top-level messages of
    any sender to any contract with everything they trigger, failed transactions, slashing, time,
    reward accrual, donations — both tokens still satisfy Σ balances = total supply, no account
    outside the holder list has a balance, and both still name the same hub. -/
theorem C18_reachable (s : Sys) (l : List Step) (hb : s.bsei.WF) (hs : s.stsei.WF) :
    (s.steps l).bsei.WF ∧ (s.steps l).stsei.WF ∧
    (s.steps l).bsei.hub = s.bsei.hub ∧ (s.steps l).stsei.hub = s.stsei.hub ∧
    (s.steps l).bsei.minter = s.bsei.minter := by
  have key := steps_inv
    (fun x => x.bsei.WF ∧ x.stsei.WF ∧ x.bsei.hub = s.bsei.hub ∧ x.stsei.hub = s.stsei.hub ∧
      x.bsei.minter = s.bsei.minter)
    (by
      intro x m x' ms hp hx
      obtain ⟨p1, p2, p3, p4, p5⟩ := hp
      cases handle_touch x x' m ms hx with
      | none h _ _ _ => rw [h.bsei, h.stsei]; exact ⟨p1, p2, p3, p4, p5⟩
      | hub s1 sender funds hm _ _ _ _ hx' b t r d g => rw [b, t]; exact ⟨p1, p2, p3, p4, p5⟩
      | bsei s1 sender funds tm _ _ hx' h t r d g =>
        have st := C18_bsei_step _ _ _ _ _ _ _ _ _ p1 hx'
        rw [t]; exact ⟨st.2.1, p2, by rw [st.2.2.2]; exact p3, p4, by rw [st.2.2.1]; exact p5⟩
      | stsei blk sender funds tm _ hx' h b r d g =>
        have st := C18_stsei_step _ _ _ _ _ _ _ _ p2 hx'
        rw [b]; exact ⟨p1, st.2.1, p3, by rw [st.2.2.1]; exact p4, p5⟩
      | reward s1 sender funds rm _ _ _ _ hx' h b t d g => rw [b, t]; exact ⟨p1, p2, p3, p4, p5⟩
      | disp env sender funds dm _ _ _ hx' h b t r g => rw [b, t]; exact ⟨p1, p2, p3, p4, p5⟩
      | reg s1 sender funds rm _ h1 _ _ hx' h b t r d => rw [b, t]; exact ⟨p1, p2, p3, p4, p5⟩)
    (by
      intro x e hp
      cases e with
      | seedLegacy u b a => exact hp
      | slash v n d => simp only [Sys.env]; split <;> exact hp
      | slashUnbonding v n d => simp only [Sys.env]; split <;> exact hp
      | _ => exact hp)
    l s ⟨hb, hs, rfl, rfl, rfl⟩
  exact key

/-! Non-vacuity of `C18_reachable`: the genesis state. -/
example : genesisSys.bsei.WF ∧ genesisSys.stsei.WF :=
  ⟨(C18_init_wf true hubA [] _ rfl).1, (C18_init_wf false hubA [] _ rfl).1⟩

end Krp
