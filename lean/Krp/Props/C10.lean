/-
  C10 — Privileged operations are rejected for every unauthorised sender.
  Decision tables stated outright: for every state, payload and sender outside the message's
  principals the handler returns an error (and by A-CHAIN-1 / C20_rejected_changes_nothing the
  transaction changes nothing).  The tables are Appendix A of DESIGN.md.
-/
import Krp.Lemmas.HubFrame
import Krp.System
import Krp.Init
import Krp.Lemmas.Reach
namespace Krp
open HubSt

def isErr {α : Type} (r : Res α) : Prop := ∃ e, r = .error e

/-- who may send each hub message; `none` = public -/
def hubPrincipalOk (h : HubSt) (self sender : Addr) : HubMsg → Prop
  | .updateConfig .. | .updateParams .. | .setOwner _ => sender = h.creator
  | .acceptOwnership => sender = h.newOwner
  | .bondRewards => h.dispatcher = some sender
  | .redelegateProxy .. => h.registry = some sender
  | .updateGlobalIndex => sender = h.updater ∨ h.registry = some sender
  | .swapHook => sender = self
  | .claimAirdrop => h.airdrop = some sender
  | .receive .. => h.bsei = some sender ∨ h.stsei = some sender
  | _ => True

/-- Hub: every privileged message fails for every sender that is not its principal, in every
    state (paused or not), for every payload and funds. -/
theorem C10_hub (h : HubSt) (e : HubEnv) (sender : Addr) (funds : List (Denom × Nat)) (m : HubMsg)
    (hno : ¬ hubPrincipalOk h e.self sender m) : isErr (hubExec h e sender funds m) := by
  cases m with
  | updateConfig d r b s a rw u =>
    simp only [hubPrincipalOk] at hno
    simp only [hubExec]; split
    · exact ⟨_, rfl⟩
    · simp only [updateConfig, bind, Except.bind, throw, throwThe, MonadExceptOf.throw, if_pos hno]
      exact ⟨_, rfl⟩
  | updateParams ep ub f t p rd =>
    simp only [hubPrincipalOk] at hno
    simp only [hubExec, updateParams, bind, Except.bind, throw, throwThe, MonadExceptOf.throw, if_pos hno]
    exact ⟨_, rfl⟩
  | setOwner a =>
    simp only [hubPrincipalOk] at hno
    simp only [hubExec]; split
    · exact ⟨_, rfl⟩
    · simp only [if_pos hno, throw, throwThe, MonadExceptOf.throw]; exact ⟨_, rfl⟩
  | acceptOwnership =>
    simp only [hubPrincipalOk] at hno
    simp only [hubExec]; split
    · exact ⟨_, rfl⟩
    · simp only [if_pos hno, throw, throwThe, MonadExceptOf.throw]; exact ⟨_, rfl⟩
  | bondRewards =>
    simp only [hubPrincipalOk] at hno
    simp only [hubExec]; split
    · exact ⟨_, rfl⟩
    · unfold bondR
      split
      · exact ⟨_, rfl⟩
      · rename_i d hd
        have : sender ≠ d := fun e => hno (by rw [hd, e])
        rw [if_pos this]; exact ⟨_, rfl⟩
  | redelegateProxy src plan =>
    simp only [hubPrincipalOk] at hno
    simp only [hubExec]; split
    · exact ⟨_, rfl⟩
    · split
      · exact ⟨_, rfl⟩
      · rename_i r hr
        have : sender ≠ r := fun e => hno (by rw [hr, e])
        simp only [if_pos this, throw, throwThe, MonadExceptOf.throw]; exact ⟨_, rfl⟩
  | updateGlobalIndex =>
    simp only [hubPrincipalOk, not_or] at hno
    simp only [hubExec]; split
    · exact ⟨_, rfl⟩
    · unfold updateGlobal
      simp only [bind, Except.bind, throw, throwThe, MonadExceptOf.throw, if_pos hno.1]
      split
      · exact ⟨_, rfl⟩
      · rename_i r hr
        have : sender ≠ r := fun e => hno.2 (by rw [hr, e])
        simp only [if_pos this]; exact ⟨_, rfl⟩
  | swapHook =>
    simp only [hubPrincipalOk] at hno
    simp only [hubExec]; split
    · exact ⟨_, rfl⟩
    · simp only [if_pos hno, throw, throwThe, MonadExceptOf.throw]; exact ⟨_, rfl⟩
  | claimAirdrop =>
    simp only [hubPrincipalOk] at hno
    simp only [hubExec]; split
    · exact ⟨_, rfl⟩
    · split
      · exact ⟨_, rfl⟩
      · rename_i a ha
        have : sender ≠ a := fun e => hno (by rw [ha, e])
        simp only [if_pos this, throw, throwThe, MonadExceptOf.throw]; exact ⟨_, rfl⟩
  | receive user amt hook =>
    simp only [hubPrincipalOk, not_or] at hno
    simp only [hubExec]; split
    · exact ⟨_, rfl⟩
    · simp only [bind, Except.bind, throw, throwThe, MonadExceptOf.throw, pure, Except.pure]
      split
      · exact ⟨_, rfl⟩
      · split
        · exact ⟨_, rfl⟩
        · rename_i b hb _ s hs
          have nb : sender ≠ b := fun e => hno.1 (by rw [e]; assumption)
          have ns : sender ≠ s := fun e => hno.2 (by rw [e]; assumption)
          cases hook <;> simp only [if_neg nb, if_neg ns] <;> exact ⟨_, rfl⟩
  | bond => exact absurd trivial hno
  | bondForStSei => exact absurd trivial hno
  | withdrawUnbonded => exact absurd trivial hno
  | checkSlashing => exact absurd trivial hno
  | migrateWaitList l => exact absurd trivial hno

/-- Two-step ownership transfer of the hub: only the owner nominates, only the nominee accepts, and
    once accepted the previous owner has lost every owner right. -/
theorem C10_hub_ownership (h h1 h2 : HubSt) (e : HubEnv) (owner nominee : Addr) (ms1 ms2 : List Msg)
    (f : List (Denom × Nat))
    (hs : hubExec h e owner f (.setOwner nominee) = .ok (h1, ms1))
    (ha : hubExec h1 e nominee f .acceptOwnership = .ok (h2, ms2)) :
    owner = h.creator ∧ h1.creator = h.creator ∧ h1.newOwner = nominee ∧ h2.creator = nominee ∧
    (owner ≠ nominee → ∀ m, (∀ x, m = HubMsg.setOwner x ∨ True) →
      ¬ hubPrincipalOk h2 e.self owner (.setOwner 0) ∧
      ¬ hubPrincipalOk h2 e.self owner (.updateParams none none none none none none) ∧
      ¬ hubPrincipalOk h2 e.self owner (.updateConfig none none none none none none none)) := by
  simp only [hubExec] at hs ha
  split at hs
  · cases hs
  · split at ha
    · cases ha
    · exc_norm at hs; exc_split at hs
      exc_norm at ha; exc_split at ha
      rename_i h1' _ _
      refine ⟨Classical.not_not.mp h1', rfl, rfl, rfl, fun hne m _ => ?_⟩
      simp only [hubPrincipalOk]
      exact ⟨hne, hne, hne⟩

/-- The bSei and stSei token addresses cannot be changed once set. -/
theorem C10_token_addresses_write_once (h : HubSt) (e : HubEnv) (sender : Addr) (f : List (Denom × Nat))
    (d r b s a rw u : Option Addr)
    (hset : (b.isSome ∧ h.bsei.isSome) ∨ (s.isSome ∧ h.stsei.isSome)) :
    isErr (hubExec h e sender f (.updateConfig d r b s a rw u)) := by
  simp only [hubExec]; split
  · exact ⟨_, rfl⟩
  · unfold updateConfig
    simp only [bind, Except.bind, throw, throwThe, MonadExceptOf.throw, pure, Except.pure]
    split
    · exact ⟨_, rfl⟩
    · rcases hset with hb | hs
      · rw [if_pos hb]; exact ⟨_, rfl⟩
      · split
        · exact ⟨_, rfl⟩
        · first
          | exact ⟨_, rfl⟩
          | (rw [if_pos hs]; exact ⟨_, rfl⟩)

/-- Reward contract: balance mirroring only by the bSei token registered in the hub, index update
    and swap only by the dispatcher registered in the hub, configuration only by the owner,
    acceptance only by the nominee. -/
theorem C10_reward (r : RewardSt) (self : Addr) (tk dp : Res Addr) (bb : Denom → Nat) (sender : Addr)
    (m : RewMsg)
    (hno : match m with
      | .increase .. | .decrease .. => tk ≠ .ok sender
      | .updateGlobalIndex | .swapToRewardDenom => dp ≠ .ok sender
      | .updateConfig .. | .setOwner _ | .updateSwapDenom .. => sender ≠ r.owner
      | .acceptOwnership => sender ≠ r.newOwner
      | .claim _ => False) :
    isErr (rewardExec r self tk dp bb sender m) := by
  cases m <;> simp only [] at hno <;>
    simp only [rewardExec, bind, Except.bind, throw, throwThe, MonadExceptOf.throw, pure, Except.pure]
  case updateConfig => rw [if_pos hno]; exact ⟨_, rfl⟩
  case setOwner => rw [if_pos hno]; exact ⟨_, rfl⟩
  case acceptOwnership => rw [if_pos hno]; exact ⟨_, rfl⟩
  case updateSwapDenom => rw [if_pos hno]; exact ⟨_, rfl⟩
  all_goals
    first
    | (cases dp with
       | error e => exact ⟨_, rfl⟩
       | ok d =>
         have : sender ≠ d := fun e => hno (by rw [e])
         simp only [if_pos this]; exact ⟨_, rfl⟩)
    | (cases tk with
       | error e => exact ⟨_, rfl⟩
       | ok d =>
         have : sender ≠ d := fun e => hno (by rw [e])
         simp only [if_pos this]; exact ⟨_, rfl⟩)

/-- Dispatcher: swap and dispatch only by the hub, every update only by the owner, acceptance only
    by the nominee. -/
theorem C10_dispatcher (c : DispSt) (self : Addr) (env : DispEnv) (sender : Addr) (m : DispMsg)
    (hno : match m with
      | .swap .. | .dispatch => sender ≠ c.hub
      | .acceptOwnership => sender ≠ c.newOwner
      | _ => sender ≠ c.owner) :
    isErr (dispExec c self env sender m) := by
  cases m <;> simp only [] at hno <;>
    simp only [dispExec, bind, Except.bind, throw, throwThe, MonadExceptOf.throw, pure, Except.pure, if_pos hno] <;>
    exact ⟨_, rfl⟩

/-- Registry: AddValidator by the owner or the hub, RemoveValidator / UpdateConfig / SetOwner by the
    owner, AcceptOwnership by the nominee. (Redelegations is public, but only for an address that
    is not registered.) -/
theorem C10_registry (s : Sys) (sender : Addr) (m : RegMsg)
    (hno : match m with
      | .add _ => sender ≠ s.reg.owner ∧ sender ≠ s.reg.hub
      | .remove _ | .updateConfig _ | .setOwner _ => sender ≠ s.reg.owner
      | .acceptOwnership => sender ≠ s.reg.newOwner
      | .redelegations v => s.reg.vals.contains v = true) :
    isErr (s.regExec sender m) := by
  cases m <;> simp only [] at hno <;>
    simp only [Sys.regExec, bind, Except.bind, throw, throwThe, MonadExceptOf.throw, pure, Except.pure]
  case add => rw [if_pos hno]; exact ⟨_, rfl⟩
  case remove => rw [if_pos hno]; exact ⟨_, rfl⟩
  case redelegations => rw [if_pos hno]; exact ⟨_, rfl⟩
  case updateConfig => rw [if_pos hno]; exact ⟨_, rfl⟩
  case setOwner => rw [if_pos hno]; exact ⟨_, rfl⟩
  case acceptOwnership => rw [if_pos hno]; exact ⟨_, rfl⟩

/-- Tokens: Mint only by the minter (the hub), Burn only by the hub — both flavours. -/
theorem C10_tokens (t : Token) (b : Block) (self : Addr) (rw : Res Addr) (hubc sender : Addr) :
    (∀ to amt, t.minter ≠ some sender →
      isErr (bseiExec t b self rw hubc sender (.mint to amt)) ∧ isErr (stseiExec t b self hubc sender (.mint to amt))) ∧
    (∀ amt, sender ≠ t.hub →
      isErr (bseiExec t b self rw hubc sender (.burn amt)) ∧ isErr (stseiExec t b self hubc sender (.burn amt))) := by
  constructor
  · intro to amt hne
    constructor
    · simp only [bseiExec, bind, Except.bind, Token.mint]
      cases rw with
      | error e => exact ⟨_, rfl⟩
      | ok r =>
        simp only []
        by_cases hz : amt = 0
        · rw [if_pos hz]; exact ⟨_, rfl⟩
        · rw [if_neg hz, if_pos hne]; exact ⟨_, rfl⟩
    · simp only [stseiExec, bind, Except.bind, Token.mint]
      by_cases hz : amt = 0
      · rw [if_pos hz]; exact ⟨_, rfl⟩
      · rw [if_neg hz, if_pos hne]; exact ⟨_, rfl⟩
  · intro amt hne
    constructor
    · simp only [bseiExec, bind, Except.bind, throw, throwThe, MonadExceptOf.throw]
      cases rw with
      | error e => exact ⟨_, rfl⟩
      | ok r => simp only [if_pos hne]; exact ⟨_, rfl⟩
    · simp only [stseiExec, bind, Except.bind, throw, throwThe, MonadExceptOf.throw, if_pos hne]
      exact ⟨_, rfl⟩

/-! Non-vacuity: an arbitrary user is not the owner of a fresh hub. -/
example : ∃ h, hubInit 1 0 30 100 0 D 1 3 = .ok h ∧ ¬ hubPrincipalOk h 100 5 (.setOwner 5) :=
  ⟨_, rfl, by simp [hubPrincipalOk]⟩

/-! ### An accepted UpdateConfig makes the principals it names the principals

  The tables above are relative to the configuration a contract *stores*. These say that an accepted
  UpdateConfig stores every address it names and leaves every field it does not name alone — so the
  hub the owner designates is authorised afterwards and the former one is an ordinary sender. -/

theorem C10_dispatcher_update_applies (c c' : DispSt) (self : Addr) (env : DispEnv) (sender : Addr)
    (hub reward : Option Addr) (sd bd : Option Denom) (keeper : Option Addr) (rate : Option Nat) (ms : List Msg)
    (hx : dispExec c self env sender (.updateConfig hub reward sd bd keeper rate) = .ok (c', ms)) :
    c'.hub = hub.getD c.hub ∧ c'.rewardContract = reward.getD c.rewardContract ∧
    c'.keeper = keeper.getD c.keeper ∧ c'.keeperRate = rate.getD c.keeperRate ∧
    c'.bDenom = bd.getD c.bDenom ∧ c'.stDenom = c.stDenom ∧ c'.owner = c.owner ∧ c'.newOwner = c.newOwner ∧
    c'.swapContract = c.swapContract ∧ c'.swapDenoms = c.swapDenoms ∧ c'.oracle = c.oracle ∧ ms = [] := by
  simp only [dispExec, bind, Except.bind, throw, throwThe, MonadExceptOf.throw, pure, Except.pure] at hx
  split at hx
  · cases hx
  · split at hx
    · cases hx
    · cases rate with
      | none =>
        simp only [] at hx
        injection hx with h1; injection h1 with h1 h2; subst h1; subst h2
        exact ⟨rfl, rfl, rfl, rfl, rfl, rfl, rfl, rfl, rfl, rfl, rfl, rfl⟩
      | some r =>
        simp only [] at hx
        split at hx
        · cases hx
        · injection hx with h1; injection h1 with h1 h2; subst h1; subst h2
          exact ⟨rfl, rfl, rfl, rfl, rfl, rfl, rfl, rfl, rfl, rfl, rfl, rfl⟩

/-- ... in particular, after the owner re-points the dispatcher — whatever else travels in the same
    message — the former hub's swap and dispatch are refused. -/
theorem C10_dispatcher_former_hub_refused (c c' : DispSt) (self : Addr) (env env' : DispEnv) (sender newHub : Addr)
    (reward : Option Addr) (sd bd : Option Denom) (keeper : Option Addr) (rate : Option Nat) (ms : List Msg)
    (hx : dispExec c self env sender (.updateConfig (some newHub) reward sd bd keeper rate) = .ok (c', ms))
    (hne : c.hub ≠ newHub) (a b : Nat) :
    isErr (dispExec c' self env' c.hub .dispatch) ∧ isErr (dispExec c' self env' c.hub (.swap a b)) := by
  have h := (C10_dispatcher_update_applies c c' self env sender _ reward sd bd keeper rate ms hx).1
  simp only [Option.getD] at h
  exact ⟨C10_dispatcher c' self env' c.hub .dispatch (by simpa [h] using hne),
         C10_dispatcher c' self env' c.hub (.swap a b) (by simpa [h] using hne)⟩

theorem C10_reward_update_applies (r r' : RewardSt) (self : Addr) (tk dp : Res Addr) (bb : Denom → Nat) (sender : Addr)
    (hub : Option Addr) (denom : Option Denom) (swap : Option Addr) (ms : List Msg)
    (hx : rewardExec r self tk dp bb sender (.updateConfig hub denom swap) = .ok (r', ms)) :
    r'.hub = hub.getD r.hub ∧ r'.rewardDenom = denom.getD r.rewardDenom ∧ r'.swapContract = swap.getD r.swapContract ∧
    r'.owner = r.owner ∧ r'.newOwner = r.newOwner ∧ ms = [] := by
  simp only [rewardExec] at hx
  split at hx
  · cases hx
  · injection hx with h1; injection h1 with h1 h2; subst h1; subst h2
    exact ⟨rfl, rfl, rfl, rfl, rfl, rfl⟩

theorem C10_registry_update_applies (s : Sys) (r' : RegSt) (sender : Addr) (hub : Option Addr) (ms : List Msg)
    (hx : s.regExec sender (.updateConfig hub) = .ok (r', ms)) :
    r'.hub = hub.getD s.reg.hub ∧ r'.owner = s.reg.owner ∧ r'.newOwner = s.reg.newOwner ∧ r'.vals = s.reg.vals ∧ ms = [] := by
  simp only [Sys.regExec] at hx
  split at hx
  · cases hx
  · injection hx with h1; injection h1 with h1 h2; subst h1; subst h2
    exact ⟨rfl, rfl, rfl, rfl, rfl⟩

theorem C10_hub_update_applies (h h' : HubSt) (self sender : Addr)
    (disp reg bsei stsei airdrop rewards updater : Option Addr) (ms : List Msg)
    (hx : h.updateConfig self sender disp reg bsei stsei airdrop rewards updater = .ok (h', ms)) :
    (∀ d, disp = some d → h'.dispatcher = some d) ∧ (∀ g, reg = some g → h'.registry = some g) ∧
    (∀ a, airdrop = some a → h'.airdrop = some a) ∧ (∀ w, rewards = some w → h'.rewards = some w) ∧
    (∀ u, updater = some u → h'.updater = u) ∧
    (disp = none → h'.dispatcher = h.dispatcher) ∧ (reg = none → h'.registry = h.registry) ∧
    (updater = none → h'.updater = h.updater) ∧ h'.creator = h.creator := by
  simp only [HubSt.updateConfig, bind, Except.bind, throw, throwThe, MonadExceptOf.throw, pure, Except.pure] at hx
  split at hx
  · cases hx
  · split at hx
    · cases hx
    · split at hx
      · cases hx
      · injection hx with h1; injection h1 with h1 h2; subst h1
        refine ⟨?_, ?_, ?_, ?_, ?_, ?_, ?_, ?_, rfl⟩ <;> intros <;> simp_all [Option.orElse, Option.getD]


/-! ### As whole transactions

  Decision tables + atomicity: a privileged message from a non-principal is a failed transaction —
  the state of every contract and of the chain, attached funds included, is exactly what it was. -/

theorem C10_system_hub (s : Sys) (sender : Addr) (funds : List (Denom × Nat)) (hm : HubMsg)
    (hno : ¬ hubPrincipalOk s.hub hubA sender hm) :
    ∃ err, s.exec (.wasm sender hubA (.hub hm) funds) = (s, .error err) :=
  exec_rejected_hub s sender funds hm (fun e he => C10_hub s.hub e sender funds hm (by rw [he]; exact hno))

theorem C10_system_dispatcher (s : Sys) (sender : Addr) (funds : List (Denom × Nat)) (dm : DispMsg)
    (hno : match dm with
      | .swap .. | .dispatch => sender ≠ s.disp.hub
      | .acceptOwnership => sender ≠ s.disp.newOwner
      | _ => sender ≠ s.disp.owner) :
    ∃ err, s.exec (.wasm sender dispA (.disp dm) funds) = (s, .error err) :=
  exec_rejected_disp s sender funds dm (fun env => C10_dispatcher s.disp dispA env sender dm hno)

theorem C10_system_reward_owner (s : Sys) (sender : Addr) (funds : List (Denom × Nat)) (rm : RewMsg)
    (hm : (∃ a b c, rm = .updateConfig a b c) ∨ (∃ a, rm = .setOwner a) ∨ (∃ d b, rm = .updateSwapDenom d b))
    (hno : sender ≠ s.reward.owner) :
    ∃ err, s.exec (.wasm sender rewardA (.reward rm) funds) = (s, .error err) :=
  exec_rejected_reward s sender funds rm (fun tk dp bb => by
    rcases hm with ⟨a, b, c, rfl⟩ | ⟨a, rfl⟩ | ⟨d, b, rfl⟩ <;>
      exact C10_reward s.reward rewardA tk dp bb sender _ (by simpa using hno))

end Krp
