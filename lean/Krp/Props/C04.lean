/-
  C04 — No user operation dilutes holders: a rate falls only through slashing.

  Every theorem has the shape: if the rate `r` the operation starts from is a true ratio
  (`r·claims ≤ backing·10^18` — which is what `rateOf` yields whenever the pool is backed, C03) and
  positive, then the ratio of the pool after the operation is at least `r`, or the token's claims
  became zero (the definitional reset to 1).  The zero-backed state (booked stake 0 with claims
  outstanding, reported rate 1) violates the premise and is the known finding D6.
-/
import Krp.Lemmas.HubSpec
import Krp.Lemmas.Still
import Krp.Lemmas.RateStep
import Krp.Lemmas.RateHubG
import Krp.Lemmas.RatePending
namespace Krp
open HubSt

/-- the step shared by all cases: a true ratio for the new pool bounds the new reported rate -/
theorem C04_rate_after (r B' S' R' : Nat) (hr : 0 < r) (h : r * (S' + R') ≤ B' * D) :
    S' + R' = 0 ∨ r ≤ rateOf B' S' R' := by
  by_cases hc : S' + R' = 0
  · exact Or.inl hc
  · right
    have hC : 0 < S' + R' := Nat.pos_of_ne_zero hc
    have hB : 0 < B' := by
      apply Nat.pos_of_ne_zero
      intro hb; subst hb
      have : 0 < r * (S' + R') := Nat.mul_pos hr hC
      omega
    exact le_rateOf r B' S' R' hB hC h

/-- Bond (bSei): the payment joins the pool, at most ⌊payment/rate⌋ tokens are minted; the stSei
    pool is untouched. -/
theorem C04_bond_bsei (h h' : HubSt) (e : HubEnv) (sender : Addr) (funds : List (Denom × Nat))
    (ms : List Msg) (hx : h.bondB e sender funds = .ok (h', ms)) :
    ∃ st S mint, h.actualState e = .ok st ∧ S = (st.bSupplyQ e).toOption.getD 0 ∧
      h'.bRate = rateOf h'.bBond (S + mint) h.reqB ∧ h'.sBond = st.sBond ∧
      (st.bRate * (S + h.reqB) ≤ st.bBond * D → 0 < st.bRate →
        S + mint + h.reqB = 0 ∨ st.bRate ≤ h'.bRate) := by
  obtain ⟨p, st, mint, delegs, tok, hp, hst, hr0, hfee, _, _, hh, _⟩ := bondB_spec h h' e sender funds ms hx
  have hf := pegFeeOnMint_spec st _ _ _ _ hfee
  refine ⟨st, _, mint, hst, rfl, by rw [hh], by rw [hh], fun htrue hpos => ?_⟩
  rw [hh]
  show _ ∨ st.bRate ≤ rateOf (st.bBond + p) _ h.reqB
  have hm : mint * st.bRate ≤ p * D :=
    Nat.le_trans (Nat.mul_le_mul_right _ hf.1) (decDiv_mul_le p st.bRate)
  have key := rate_mono_add st.bRate st.bBond ((st.bSupplyQ e).toOption.getD 0 + h.reqB) p mint htrue hm
  rw [show (st.bSupplyQ e).toOption.getD 0 + h.reqB + mint = (st.bSupplyQ e).toOption.getD 0 + mint + h.reqB by omega] at key
  exact C04_rate_after _ _ _ _ hpos key

/-- Bond (stSei): exactly ⌊payment/rate⌋ stSei are minted against the payment. -/
theorem C04_bond_stsei (h h' : HubSt) (e : HubEnv) (sender : Addr) (funds : List (Denom × Nat))
    (ms : List Msg) (hx : h.bondS e sender funds = .ok (h', ms)) (S : Nat) :
    ∃ st p, h.actualState e = .ok st ∧ paymentOf funds = .ok p ∧ h'.sBond = st.sBond + p ∧
      h'.bBond = st.bBond ∧ h'.bRate = st.bRate ∧
      (st.sRate * (S + h.reqS) ≤ st.sBond * D → 0 < st.sRate →
        S + decDiv p st.sRate + h.reqS = 0 ∨
        st.sRate ≤ rateOf h'.sBond (S + decDiv p st.sRate) h.reqS) := by
  obtain ⟨p, st, delegs, tok, hp, hst, _, _, _, hh, _⟩ := bondS_spec h h' e sender funds ms hx
  refine ⟨st, p, hst, hp, by rw [hh], by rw [hh], by rw [hh], fun htrue hpos => ?_⟩
  rw [hh]
  have key := rate_mono_add st.sRate st.sBond (S + h.reqS) p (decDiv p st.sRate) htrue (decDiv_mul_le _ _)
  rw [show S + h.reqS + decDiv p st.sRate = S + decDiv p st.sRate + h.reqS by omega] at key
  exact C04_rate_after _ _ _ _ hpos key

/-- BondRewards raises the stSei rate and mints nothing: the only messages are Delegate messages,
    the stSei pool grows by the payment, the bSei pool and rate are untouched. -/
theorem C04_bond_rewards (h h' : HubSt) (e : HubEnv) (sender : Addr) (funds : List (Denom × Nat))
    (ms : List Msg) (hx : h.bondR e sender funds = .ok (h', ms)) :
    ∃ st p S, h.actualState e = .ok st ∧ paymentOf funds = .ok p ∧ S = (st.sSupplyQ e).toOption.getD 0 ∧
      h.delegMsgs e p = .ok ms ∧ h'.sBond = st.sBond + p ∧ h'.bBond = st.bBond ∧ h'.bRate = st.bRate ∧
      h'.sRate = rateOf h'.sBond S h.reqS ∧
      (st.sRate * (S + h.reqS) ≤ st.sBond * D → 0 < st.sRate → S + h.reqS = 0 ∨ st.sRate ≤ h'.sRate) := by
  obtain ⟨p, st, _, hp, hst, hms, hh⟩ := bondR_spec h h' e sender funds ms hx
  refine ⟨st, p, _, hst, hp, rfl, hms, by rw [hh], by rw [hh], by rw [hh], by rw [hh], fun htrue hpos => ?_⟩
  rw [hh]
  have key : st.sRate * ((st.sSupplyQ e).toOption.getD 0 + h.reqS) ≤ (st.sBond + p) * D := by
    rw [Nat.add_mul]; omega
  exact C04_rate_after _ _ _ _ hpos key

private theorem zipMsgs_mem (mk : Addr → Nat → Msg) (vs : List (Addr × Nat)) (pl : List Nat) (m : Msg)
    (hm : m ∈ zipMsgs mk vs pl) : ∃ v a, m = mk v a := by
  induction vs generalizing pl with
  | nil => simp [zipMsgs] at hm
  | cons v vs ih =>
    cases pl with
    | nil => simp [zipMsgs] at hm
    | cons q qs =>
      simp only [zipMsgs, List.mem_append] at hm
      rcases hm with hm | hm
      · split at hm
        · simp at hm
        · simp at hm; exact ⟨_, _, hm⟩
      · exact ih qs hm

/-- Delegate messages only: `delegMsgs` never addresses a token contract (no mint). -/
theorem C04_bond_rewards_mints_nothing (h : HubSt) (e : HubEnv) (p : Nat) (ms : List Msg)
    (hx : h.delegMsgs e p = .ok ms) : ∀ m ∈ ms, ∃ v a, m = Msg.delegate e.self v a := by
  unfold delegMsgs at hx
  exc_split at hx
  intro m hm
  exact zipMsgs_mem _ _ _ m hm

/-- Unbond request (bSei), before any undelegation: the tokens are burnt, the request (less the peg
    fee) stays in the claim base, the backing is unchanged. -/
theorem C04_unbond_request_bsei (st : HubSt) (user : Addr) (S amount withFee : Nat)
    (hw : withFee ≤ amount) (ha : amount ≤ S) (hpos : 0 < st.bRate)
    (htrue : st.bRate * (S + st.reqB) ≤ st.bBond * D) :
    let st' := st.afterUnbondB user S amount withFee
    st'.bBond = st.bBond ∧ st'.sBond = st.sBond ∧ st'.sRate = st.sRate ∧
    st'.bRate = rateOf st'.bBond (S - amount) st'.reqB ∧
    ((S - amount) + st'.reqB = 0 ∨ st.bRate ≤ st'.bRate) := by
  intro st'
  refine ⟨rfl, rfl, rfl, rfl, ?_⟩
  show _ ∨ st.bRate ≤ rateOf st.bBond (S - amount) (st.reqB + withFee)
  have : st.bRate * ((S - amount) + (st.reqB + withFee)) ≤ st.bBond * D := by
    refine Nat.le_trans (Nat.mul_le_mul_left _ ?_) htrue
    omega
  exact C04_rate_after _ _ _ _ hpos this

/-- Batch undelegation: for each token ⌊requests × rate⌋ of backing leaves together with the
    requests; neither ratio falls. `Sb`, `Ss` are the token supplies at that moment. -/
theorem C04_undelegation (h h' : HubSt) (e : HubEnv) (ms : List Msg) (Sb Ss : Nat)
    (hx : h.processUndelegations e = .ok (h', ms))
    (hb : h.bRate * (Sb + h.reqB) ≤ h.bBond * D) (hs : h.sRate * (Ss + h.reqS) ≤ h.sBond * D)
    (hbp : 0 < h.bRate) (hsp : 0 < h.sRate) :
    (Sb + h'.reqB = 0 ∨ h.bRate ≤ rateOf h'.bBond Sb h'.reqB) ∧
    (Ss + h'.reqS = 0 ∨ h.sRate ≤ rateOf h'.sBond Ss h'.reqS) := by
  have sp := processUndelegations_spec h h' e ms hx
  obtain ⟨_, hls, hlb, es, eb, _, _, rb, rs, _⟩ := sp
  rw [rb, rs, es, eb]
  constructor
  · have := rate_mono_sub h.bRate h.bBond (Sb + h.reqB) h.reqB (mulDec h.reqB h.bRate) hb (mulDec_mul_le _ _) hlb
    rw [show Sb + h.reqB - h.reqB = Sb + 0 by omega] at this
    exact C04_rate_after _ _ _ _ hbp this
  · have := rate_mono_sub h.sRate h.sBond (Ss + h.reqS) h.reqS (mulDec h.reqS h.sRate) hs (mulDec_mul_le _ _) hls
    rw [show Ss + h.reqS - h.reqS = Ss + 0 by omega] at this
    exact C04_rate_after _ _ _ _ hsp this

/-- Convert stSei→bSei: value leaves the stSei pool with the burnt stSei and joins the bSei pool
    against at most ⌊value/rate⌋ new bSei; neither rate falls. -/
theorem C04_convert_stsei_bsei (h h' : HubSt) (e : HubEnv) (amount : Nat) (user : Addr) (ms : List Msg)
    (hx : h.convertSB e amount user = .ok (h', ms)) :
    ∃ st bs ss mint, h.actualState e = .ok st ∧ st.bSupplyQ e = .ok bs ∧ st.sSupplyQ e = .ok ss ∧
      h'.bRate = rateOf h'.bBond (bs + mint) st.reqB ∧ h'.sRate = rateOf h'.sBond (ss - amount) st.reqS ∧
      (st.bRate * (bs + st.reqB) ≤ st.bBond * D → 0 < st.bRate →
        bs + mint + st.reqB = 0 ∨ st.bRate ≤ h'.bRate) ∧
      (st.sRate * (ss + st.reqS) ≤ st.sBond * D → 0 < st.sRate →
        (ss - amount) + st.reqS = 0 ∨ st.sRate ≤ h'.sRate) := by
  obtain ⟨st, sTok, bTok, bs, ss, mint, hst, _, _, _, hbs, hss, hfee, hle, hle2, hh, _⟩ := convertSB_spec h h' e amount user ms hx
  have hf := pegFeeOnMint_spec st _ _ _ _ hfee
  refine ⟨st, bs, ss, mint, hst, hbs, hss, by rw [hh], by rw [hh], fun htrue hpos => ?_, fun htrue hpos => ?_⟩
  · rw [hh]
    have hm : mint * st.bRate ≤ mulDec amount st.sRate * D :=
      Nat.le_trans (Nat.mul_le_mul_right _ hf.1) (decDiv_mul_le _ _)
    have key := rate_mono_add st.bRate st.bBond (bs + st.reqB) _ mint htrue hm
    rw [show bs + st.reqB + mint = bs + mint + st.reqB by omega] at key
    exact C04_rate_after _ _ _ _ hpos key
  · rw [hh]
    have key := rate_mono_sub st.sRate st.sBond (ss + st.reqS) amount (mulDec amount st.sRate) htrue (mulDec_mul_le _ _) hle
    rw [show ss + st.reqS - amount = (ss - amount) + st.reqS by omega] at key
    exact C04_rate_after _ _ _ _ hpos key

/-- Convert bSei→stSei: symmetric. -/
theorem C04_convert_bsei_stsei (h h' : HubSt) (e : HubEnv) (amount : Nat) (user : Addr) (ms : List Msg)
    (hx : h.convertBS e amount user = .ok (h', ms)) :
    ∃ st bs ss withFee, h.actualState e = .ok st ∧ st.bSupplyQ e = .ok bs ∧ st.sSupplyQ e = .ok ss ∧
      h'.bRate = rateOf h'.bBond (bs - amount) st.reqB ∧
      h'.sRate = rateOf h'.sBond (ss + decDiv (mulDec withFee st.bRate) st.sRate) st.reqS ∧
      (st.bRate * (bs + st.reqB) ≤ st.bBond * D → 0 < st.bRate →
        (bs - amount) + st.reqB = 0 ∨ st.bRate ≤ h'.bRate) ∧
      (st.sRate * (ss + st.reqS) ≤ st.sBond * D → 0 < st.sRate →
        ss + decDiv (mulDec withFee st.bRate) st.sRate + st.reqS = 0 ∨ st.sRate ≤ h'.sRate) := by
  obtain ⟨st, sTok, bTok, bs, ss, withFee, hst, _, _, hbs, hss, hfee, _, hle, hle2, hh, _⟩ := convertBS_spec h h' e amount user ms hx
  have hf := pegFeeOnBurn_spec st _ _ _ hfee
  refine ⟨st, bs, ss, withFee, hst, hbs, hss, by rw [hh], by rw [hh], fun htrue hpos => ?_, fun htrue hpos => ?_⟩
  · rw [hh]
    have hv : mulDec withFee st.bRate * D ≤ amount * st.bRate :=
      Nat.le_trans (mulDec_mul_le _ _) (Nat.mul_le_mul_right _ hf.1)
    have key := rate_mono_sub st.bRate st.bBond (bs + st.reqB) amount (mulDec withFee st.bRate) htrue hv hle
    rw [show bs + st.reqB - amount = (bs - amount) + st.reqB by omega] at key
    exact C04_rate_after _ _ _ _ hpos key
  · rw [hh]
    have key := rate_mono_add st.sRate st.sBond (ss + st.reqS) (mulDec withFee st.bRate)
      (decDiv (mulDec withFee st.bRate) st.sRate) htrue (decDiv_mul_le _ _)
    rw [show ss + st.reqS + decDiv (mulDec withFee st.bRate) st.sRate =
      ss + decDiv (mulDec withFee st.bRate) st.sRate + st.reqS by omega] at key
    exact C04_rate_after _ _ _ _ hpos key

/-- A slashing check with nothing slashed, a withdrawal, a token transfer or a registry operation
    does not touch pools, supplies or pending requests, hence no rate: see C06_no_slash_no_change;
    the coin value ⌊balance × rate⌋ of a passive holder is monotone in the rate, so along any
    slash-free history it never shrinks. -/
theorem C04_passive_value_mono (bal r r' : Nat) (h : r ≤ r') : mulDec bal r ≤ mulDec bal r' :=
  Nat.div_le_div_right (Nat.mul_le_mul_left _ h)

/-- a list of successive rates, each at least its predecessor -/
def Nondecreasing : List Nat → Prop
  | [] => True
  | [_] => True
  | a :: b :: t => a ≤ b ∧ Nondecreasing (b :: t)

/-- lifting to histories: along any sequence of non-slashing operations (each step's rate at least
    the previous one, by the theorems above) the holder's coin value never shrinks -/
theorem C04_history_mono (rs : List Nat) (r0 : Nat) (hchain : Nondecreasing (r0 :: rs)) (bal : Nat) :
    ∀ r ∈ rs, mulDec bal r0 ≤ mulDec bal r := by
  induction rs generalizing r0 with
  | nil => intro r hr; cases hr
  | cons x xs ih =>
    intro r hr
    have h1 : r0 ≤ x := hchain.1
    have h2 : Nondecreasing (x :: xs) := hchain.2
    cases hr with
    | head => exact C04_passive_value_mono _ _ _ h1
    | tail _ hm => exact Nat.le_trans (C04_passive_value_mono _ _ _ h1) (ih x h2 r hm)

/-- The premise is necessary: the zero-backed state (D6). One bSei outstanding against a pool booked
    at 0 reports rate 1, and a 1000-coin bond lowers it to 0.999000999… -/
theorem C04_zero_backed_counterexample :
    rateOf 0 1 0 = D ∧ rateOf (0 + 1000) (1 + decDiv 1000 D) 0 < D := by decide

/-! Non-vacuity of the premises: backed pool at rate 0.9. -/
example : rateOf 900 1000 0 * (1000 + 0) ≤ 900 * D ∧ 0 < rateOf 900 1000 0 := by decide


/-! ### whole transactions that cannot move a rate

  `Still m` (Lemmas/Still.lean): `m` is a WithdrawUnbonded, an owner parameter / ownership message,
  a wait-list migration, an airdrop hook, a token Transfer / TransferFrom / allowance change / Send
  to another contract than the hub, any reward-contract message (claims included), a dispatcher
  message other than DispatchRewards, a registry AddValidator / UpdateConfig / ownership message, a
  bank or distribution message. Handling it — and everything it triggers — leaves both pools, the
  pending requests, both token supplies and the delegations untouched, so the reported rates are
  exactly what they were. -/

/-- the exchange rates the State query reports (bSei, stSei), or the query's failure -/
def reportedRates (s : Sys) : Res (Nat × Nat) :=
  match s.hub.actualState s.hubEnv with
  | .ok st => .ok (st.bRate, st.sRate)
  | .error e => .error e

theorem reportedRates_of_samePools (s s' : Sys) (p : SamePools s s') : reportedRates s' = reportedRates s := by
  have hd : s'.hubEnv.delegations = s.hubEnv.delegations := by
    show s'.delegationsOf hubA = s.delegationsOf hubA
    unfold Sys.delegationsOf; rw [p.deleg, p.delegSet]
  have hbs : s'.hub.bSupplyQ s'.hubEnv = s.hub.bSupplyQ s.hubEnv := by
    unfold HubSt.bSupplyQ; rw [p.btok]
    cases s.hub.bsei with
    | none => rfl
    | some a => show s'.supplyOf a = s.supplyOf a; unfold Sys.supplyOf; rw [p.bSupply, p.sSupply]
  have hss : s'.hub.sSupplyQ s'.hubEnv = s.hub.sSupplyQ s.hubEnv := by
    unfold HubSt.sSupplyQ; rw [p.stok]
    cases s.hub.stsei with
    | none => rfl
    | some a => show s'.supplyOf a = s.supplyOf a; unfold Sys.supplyOf; rw [p.bSupply, p.sSupply]
  unfold reportedRates HubSt.actualState
  rw [hd, p.bBond, p.sBond]
  by_cases h1 : s.hubEnv.delegations = []
  · simp only [h1, if_true, p.bRate, p.sRate]
  · simp only [h1, if_false]
    by_cases h2 : s.hub.bBond + s.hub.sBond = 0
    · simp only [h2, if_true, p.bRate, p.sRate]
    · simp only [h2, if_false, bind, Except.bind, pure, Except.pure, throw, throwThe, MonadExceptOf.throw, hbs, hss,
        p.reqB, p.reqS]
      cases s.hub.bSupplyQ s.hubEnv with
      | error e => rfl
      | ok bs =>
        cases s.hub.sSupplyQ s.hubEnv with
        | error e => rfl
        | ok ss =>
          simp only []
          by_cases h3 : s.hub.bBond + s.hub.sBond > (s.hubEnv.delegations.map (·.2)).sum
          · simp only [h3, if_true]
            by_cases h4 : (s.hubEnv.delegations.map (·.2)).sum <
                mulDec (s.hubEnv.delegations.map (·.2)).sum (fromRatio s.hub.bBond (s.hub.bBond + s.hub.sBond))
            · simp only [h4, if_true]
            · simp only [h4, if_false]
          · simp only [h3, if_false]

/-- **No still transaction moves a rate.** Whatever still message starts the transaction, whoever
    sends it, whatever it triggers and whether or not it succeeds: the State query reports the same
    two exchange rates afterwards. -/
theorem C04_still_tx_keeps_rates (s : Sys) (m : Msg) (hm : Still m = true) :
    reportedRates (s.exec m).1 = reportedRates s :=
  reportedRates_of_samePools s _ (exec_still s m hm)

/-- …over any history of still transactions and environment events other than slashing -/
theorem C04_still_history_keeps_rates (s : Sys) (l : List Step)
    (hst : ∀ m, Step.tx m ∈ l → Still m = true)
    (hns : ∀ v n d, Step.env (.slash v n d) ∉ l) (hnl : ∀ u b a, Step.env (.seedLegacy u b a) ∉ l) :
    reportedRates (s.steps l) = reportedRates s := by
  induction l generalizing s with
  | nil => rfl
  | cons st rest ih =>
    show reportedRates ((s.step st).steps rest) = _
    rw [ih (s.step st) (fun m hm => hst m (List.mem_cons_of_mem _ hm))
      (fun v n d hm => hns v n d (List.mem_cons_of_mem _ hm)) (fun u b a hm => hnl u b a (List.mem_cons_of_mem _ hm))]
    cases st with
    | tx m => exact C04_still_tx_keeps_rates s m (hst m (List.mem_cons_self ..))
    | env e =>
      apply reportedRates_of_samePools
      have hne : ∀ u b a, e ≠ .seedLegacy u b a := by
        intro u b a he; subst he; exact hnl u b a (List.mem_cons_self ..)
      have sc := env_same s e hne
      have hdl : (s.env e).chain.deleg = s.chain.deleg ∧ (s.env e).chain.delegSet = s.chain.delegSet := by
        cases e with
        | slash v n d => exact absurd (List.mem_cons_self ..) (hns v n d)
        | slashUnbonding v n d => simp only [Sys.env]; split <;> exact ⟨rfl, rfl⟩
        | seedLegacy u b a => exact absurd rfl (hne u b a)
        | _ => exact ⟨rfl, rfl⟩
      show SamePools s (s.env e)
      exact ⟨by rw [sc.hub], by rw [sc.hub], by rw [sc.hub], by rw [sc.hub], by rw [sc.hub], by rw [sc.hub],
        by rw [sc.hub], by rw [sc.hub], by rw [sc.bsei], by rw [sc.stsei], hdl.1, hdl.2⟩

/-- the operations the property names that are still: withdraw, transfer, reward claim -/
example (u v : Addr) (a : Nat) :
    Still (.wasm u hubA (.hub .withdrawUnbonded) []) = true ∧
    Still (.wasm u bseiA (.tok (.transfer v a)) []) = true ∧
    Still (.wasm u stseiA (.tok (.transferFrom v u a)) []) = true ∧
    Still (.wasm u rewardA (.reward (.claim none)) []) = true ∧
    Still (.wasm u regA (.reg (.add v)) []) = true := ⟨rfl, rfl, rfl, rfl, rfl⟩


/-! ### any transaction: the composed theorem

  `Lemmas/RateInv`–`RateStep`: through every message of a transaction — whatever it is, whoever
  sends it, whatever it triggers in the six contracts, the bank and the staking module — the two
  rates the transaction started from stay true ratios of the *effective* pools (booked stake over
  supply + Mint messages in flight − the hub's Burn messages in flight + requests). When the queue is
  empty nothing is in flight, so they are true ratios of the final pools, and the rates the State
  query then derives are at least as high. -/

/-- the pool is backed: the zero-backed state (stake 0 with claims outstanding, rate reported as 1)
    is the known finding D6 and excluded -/
def Backed (B S R : Nat) : Prop := 0 < B ∨ S + R = 0

/-- **No transaction lowers a rate (pools).** Start in any state of the composed system with both
    tokens registered, well-formed ledgers, the books within the delegations (no unrecognised
    slash: C02), stake bonded and both pools backed. Let anyone send any message that is neither a
    staking message in the hub's name, nor a token Mint, nor sent from the hub's own address. If the
    transaction succeeds, then for each token: either its claims (supply + requests) are zero at the
    end, or the ratio of the start is still a true ratio of the final pool — hence at most the rate
    the final pool yields. (A failed transaction changes nothing.) -/
theorem C04_tx_keeps_true_ratios (s s' : Sys) (m : Msg)
    (hstk : isStake m = false) (hmint : isMint m = false) (hsnd : m.sentFrom ≠ hubA)
    (c : ChainOK s) (hbk : s.hub.bBond + s.hub.sBond ≤ totalDelegated s) (hb0 : s.hub.bBond + s.hub.sBond ≠ 0)
    (btok : s.hub.bsei = some bseiA) (stok : s.hub.stsei = some stseiA)
    (bwf : s.bsei.WF) (swf : s.stsei.WF) (bhub : s.bsei.hub = hubA) (shub : s.stsei.hub = hubA)
    (backB : Backed s.hub.bBond s.bsei.supply s.hub.reqB) (backS : Backed s.hub.sBond s.stsei.supply s.hub.reqS)
    (hrun : Sys.run 400 s [m] = .ok s') :
    (s'.bsei.supply + s'.hub.reqB = 0 ∨ rb0 s ≤ rateOf s'.hub.bBond s'.bsei.supply s'.hub.reqB) ∧
    (s'.stsei.supply + s'.hub.reqS = 0 ∨ rs0 s ≤ rateOf s'.hub.sBond s'.stsei.supply s'.hub.reqS) ∧
    s'.hub.bBond + s'.hub.sBond ≤ totalDelegated s' ∧
    rb0 s * (s'.bsei.supply + s'.hub.reqB) ≤ s'.hub.bBond * D ∧
    rs0 s * (s'.stsei.supply + s'.hub.reqS) ≤ s'.hub.sBond * D ∧
    s'.hub.bsei = some bseiA ∧ s'.hub.stsei = some stseiA ∧ ChainOK s' := by
  -- the invariant holds at the start
  have nf : NoFlow [m] := by
    have h1 : ∀ t, mintsTo t [m] = 0 := fun t => mintsTo_of_noMint t [m] (fun x hx => by
      simp only [List.mem_singleton] at hx; subst hx; exact hmint)
    have h2 : ∀ t, burnsBy t [m] = 0 := fun t => burnsBy_of_sentBy t m.sentFrom [m] (fun x hx => by
      simp only [List.mem_singleton] at hx; subst hx; rfl) hsnd
    exact ⟨h1 _, h1 _, h2 _, h2 _⟩
  have inv0 : RInv s s [m] := by
    refine ⟨⟨c, [], [m], rfl, (fun _ h => by cases h), (fun x hx => by
        simp only [List.mem_singleton] at hx; subst hx; exact hstk), by simpa [undelSum, delSum] using hbk⟩,
      btok, stok, bwf, swf, bhub, shub, ?_, ?_, Or.inl ⟨SamePricing.refl s, nf, [], [m], rfl, AllStill.nil, by
        intro x hx; simp at hx⟩⟩
    · unfold TR rb0; rw [nf.1, nf.2.2.1]
      simpa using rateOf_mul_le s.hub.bBond s.bsei.supply s.hub.reqB backB
    · unfold TR rs0; rw [nf.2.1, nf.2.2.2]
      simpa using rateOf_mul_le s.hub.sBond s.stsei.supply s.hub.reqS backS
  have fin := run_inv2 (RInv s) (fun a b r a' sb h hx => RInv.step s a a' b r sb hb0 h hx) 400 s [m] s' inv0 hrun
  have tb := fin.trb
  have ts := fin.trs
  unfold TR at tb ts
  simp only [mintsTo, burnsBy, Nat.add_zero, Nat.mul_zero] at tb ts
  refine ⟨?_, ?_, fin.book.drained, tb, ts, fin.btok, fin.stok, fin.book.chain⟩
  · by_cases hz : rb0 s = 0
    · right; rw [hz]; exact Nat.zero_le _
    · exact C04_rate_after _ _ _ _ (Nat.pos_of_ne_zero hz) tb
  · by_cases hz : rs0 s = 0
    · right; rw [hz]; exact Nat.zero_le _
    · exact C04_rate_after _ _ _ _ (Nat.pos_of_ne_zero hz) ts


/-- the State query of a state without an unrecognised slash: the ratios of its own pools, or — when
    nothing is delegated or booked — the stored rates -/
theorem reportedRates_noslash (s : Sys) (c : ChainOK s) (hbk : s.hub.bBond + s.hub.sBond ≤ totalDelegated s)
    (btok : s.hub.bsei = some bseiA) (stok : s.hub.stsei = some stseiA) (rb rs : Nat)
    (h : reportedRates s = .ok (rb, rs)) :
    (s.hub.bBond + s.hub.sBond ≠ 0 → rb = rb0 s ∧ rs = rs0 s) ∧
    (s.hub.bBond + s.hub.sBond = 0 → rb = s.hub.bRate ∧ rs = s.hub.sRate) := by
  unfold reportedRates at h
  split at h
  · rename_i st hst
    injection h with h; injection h with h1 h2
    subst h1; subst h2
    have ns : s.hub.bBond + s.hub.sBond ≤ ((s.hubEnv.delegations).map (·.2)).sum := by
      rw [delegations_sum s c]; exact hbk
    constructor
    · intro hz
      have hd : s.hubEnv.delegations ≠ [] := by
        intro hnil; rw [hnil] at ns; simp at ns; exact hz (by omega)
      have f := fresh_state s.hub st s.hubEnv hst btok stok s.bsei.supply s.stsei.supply
        (by show s.supplyOf bseiA = _; unfold Sys.supplyOf; rw [if_pos rfl])
        (by show s.supplyOf stseiA = _; unfold Sys.supplyOf; rw [if_neg (by decide), if_pos rfl]) ns hd hz
      exact ⟨f.2.2.2.2.1, f.2.2.2.2.2.1⟩
    · intro hz
      have sp := actualState_spec s.hub st s.hubEnv hst
      rcases sp.2 with ⟨_, he⟩ | ⟨_, _, _, hne, _⟩
      · rw [he]; exact ⟨rfl, rfl⟩
      · exact absurd hz hne
  · cases h

/-- **No transaction lowers a reported rate.** Under the premises of `C04_tx_keeps_true_ratios`: if
    the State query reports `(rb, rs)` before a transaction and `(rb', rs')` after it — whether the
    transaction succeeded or not — then for each token the rate did not fall, unless the token ends
    the transaction without any claims (no supply and no pending requests). -/
theorem C04_tx_never_lowers_rates (s : Sys) (m : Msg)
    (hstk : isStake m = false) (hmint : isMint m = false) (hsnd : m.sentFrom ≠ hubA)
    (c : ChainOK s) (hbk : s.hub.bBond + s.hub.sBond ≤ totalDelegated s) (hb0 : s.hub.bBond + s.hub.sBond ≠ 0)
    (btok : s.hub.bsei = some bseiA) (stok : s.hub.stsei = some stseiA)
    (bwf : s.bsei.WF) (swf : s.stsei.WF) (bhub : s.bsei.hub = hubA) (shub : s.stsei.hub = hubA)
    (backB : Backed s.hub.bBond s.bsei.supply s.hub.reqB) (backS : Backed s.hub.sBond s.stsei.supply s.hub.reqS)
    (rb rs rb' rs' : Nat) (h0 : reportedRates s = .ok (rb, rs))
    (h1 : reportedRates (s.exec m).1 = .ok (rb', rs')) :
    ((s.exec m).1.bsei.supply + (s.exec m).1.hub.reqB = 0 ∨ rb ≤ rb') ∧
    ((s.exec m).1.stsei.supply + (s.exec m).1.hub.reqS = 0 ∨ rs ≤ rs') := by
  have r0 := (reportedRates_noslash s c hbk btok stok rb rs h0).1 hb0
  unfold Sys.exec at h1 ⊢
  split at h1
  · rename_i s' hrun
    simp only [] at h1 ⊢
    obtain ⟨k1, k2, k3, k4, k5, k6, k7, k8⟩ := C04_tx_keeps_true_ratios s s' m hstk hmint hsnd c hbk hb0 btok stok bwf swf bhub shub
      backB backS hrun
    have r1 := reportedRates_noslash s' k8 k3 k6 k7 rb' rs' h1
    rw [r0.1, r0.2]
    by_cases hz : s'.hub.bBond + s'.hub.sBond = 0
    · -- nothing is booked any more: a rate that was positive leaves no claims behind
      have hB : s'.hub.bBond = 0 := by omega
      have hS : s'.hub.sBond = 0 := by omega
      rw [hB] at k4; rw [hS] at k5
      simp only [Nat.zero_mul, Nat.le_zero_eq, Nat.mul_eq_zero] at k4 k5
      constructor
      · rcases k4 with h | h
        · right; rw [h]; exact Nat.zero_le _
        · left; exact h
      · rcases k5 with h | h
        · right; rw [h]; exact Nat.zero_le _
        · left; exact h
    · have e := r1.1 hz
      rw [e.1, e.2]
      exact ⟨k1, k2⟩
  · rename_i e hrun
    simp only [] at h1 ⊢
    rw [h0] at h1
    injection h1 with h1; injection h1 with e1 e2
    subst e1; subst e2
    exact ⟨Or.inr (Nat.le_refl _), Or.inr (Nat.le_refl _)⟩


/-- **Every reachable state.** From a state `g` with the books within the delegations, both tokens
    registered and well-formed ledgers (genesis), after any history without validator slashing —
    any transactions by anyone, failures, time, rewards, donations, slashing of *unbonding* stake —
    a transaction that finds stake bonded and both pools backed does not lower a reported rate. -/
theorem C04_reachable_tx (g : Sys) (l : List Step) (m : Msg)
    (cg : ChainOK g) (hg : g.hub.bBond + g.hub.sBond ≤ totalDelegated g) (hns : ∀ st ∈ l, NoSlash st)
    (btok : g.hub.bsei = some bseiA) (stok : g.hub.stsei = some stseiA)
    (bwf : g.bsei.WF) (swf : g.stsei.WF) (bhub : g.bsei.hub = hubA) (shub : g.stsei.hub = hubA)
    (hstk : isStake m = false) (hmint : isMint m = false) (hsnd : m.sentFrom ≠ hubA)
    (hb0 : (g.steps l).hub.bBond + (g.steps l).hub.sBond ≠ 0)
    (backB : Backed (g.steps l).hub.bBond (g.steps l).bsei.supply (g.steps l).hub.reqB)
    (backS : Backed (g.steps l).hub.sBond (g.steps l).stsei.supply (g.steps l).hub.reqS)
    (rb rs rb' rs' : Nat) (h0 : reportedRates (g.steps l) = .ok (rb, rs))
    (h1 : reportedRates ((g.steps l).exec m).1 = .ok (rb', rs')) :
    (((g.steps l).exec m).1.bsei.supply + ((g.steps l).exec m).1.hub.reqB = 0 ∨ rb ≤ rb') ∧
    (((g.steps l).exec m).1.stsei.supply + ((g.steps l).exec m).1.hub.reqS = 0 ∨ rs ≤ rs') := by
  have bk := C02_reachable g l cg hg hns
  have tk := tokens_registered_reachable g l btok stok
  have wf := C18_reachable g l bwf swf
  exact C04_tx_never_lowers_rates (g.steps l) m hstk hmint hsnd bk.2 bk.1 hb0 tk.1 tk.2 wf.1 wf.2.1
    (by rw [wf.2.2.1]; exact bhub) (by rw [wf.2.2.2.1]; exact shub) backB backS rb rs rb' rs' h0 h1

/-! Non-vacuity: genesis satisfies the premises on `g`; a backed pool at rate 0.9 satisfies `Backed`. -/
example : ChainOK genesisSys ∧ genesisSys.hub.bBond + genesisSys.hub.sBond ≤ totalDelegated genesisSys ∧
    genesisSys.hub.bsei = some bseiA ∧ genesisSys.hub.stsei = some stseiA ∧
    genesisSys.bsei.hub = hubA ∧ genesisSys.stsei.hub = hubA :=
  ⟨⟨fun _ _ => rfl, fun _ _ => rfl⟩, by decide, by decide, by decide, by decide, by decide⟩
example : Backed 900 1000 0 ∧ Backed 0 0 0 := ⟨Or.inl (by decide), Or.inr rfl⟩


/-! ### along a history: the bSei and stSei value of a passive holder -/

/-- an environment event other than a validator slash or the injection of pre-migration entries
    leaves the reported rates alone -/
theorem env_keeps_rates (s : Sys) (e : EnvOp) (hns : ∀ v n d, e ≠ .slash v n d) (hne : ∀ u b a, e ≠ .seedLegacy u b a) :
    reportedRates (s.env e) = reportedRates s := by
  apply reportedRates_of_samePools
  have sc := env_same s e hne
  have hdl : (s.env e).chain.deleg = s.chain.deleg ∧ (s.env e).chain.delegSet = s.chain.delegSet := by
    cases e with
    | slash v n d => exact absurd rfl (hns v n d)
    | slashUnbonding v n d => simp only [Sys.env]; split <;> exact ⟨rfl, rfl⟩
    | seedLegacy u b a => exact absurd rfl (hne u b a)
    | _ => exact ⟨rfl, rfl⟩
  exact ⟨by rw [sc.hub], by rw [sc.hub], by rw [sc.hub], by rw [sc.hub], by rw [sc.hub], by rw [sc.hub],
    by rw [sc.hub], by rw [sc.hub], by rw [sc.bsei], by rw [sc.stsei], hdl.1, hdl.2⟩

/-- a history in which every transaction meets the premises of `C04_tx_never_lowers_rates` where it
    starts, leaves claims on both tokens, and the State query answers before and after it; and no
    event slashes a validator -/
inductive Steady : Sys → List Step → Prop where
  | nil (s : Sys) : Steady s []
  | env (s : Sys) (e : EnvOp) (rest : List Step) (hns : ∀ v n d, e ≠ .slash v n d)
      (hne : ∀ u b a, e ≠ .seedLegacy u b a) (h : Steady (s.env e) rest) : Steady s (.env e :: rest)
  | tx (s : Sys) (m : Msg) (rest : List Step)
      (hstk : isStake m = false) (hmint : isMint m = false) (hsnd : m.sentFrom ≠ hubA)
      (hb0 : s.hub.bBond + s.hub.sBond ≠ 0)
      (backB : Backed s.hub.bBond s.bsei.supply s.hub.reqB) (backS : Backed s.hub.sBond s.stsei.supply s.hub.reqS)
      (hq : ∃ r, reportedRates (s.exec m).1 = .ok r)
      (hcb : (s.exec m).1.bsei.supply + (s.exec m).1.hub.reqB ≠ 0)
      (hcs : (s.exec m).1.stsei.supply + (s.exec m).1.hub.reqS ≠ 0)
      (h : Steady (s.exec m).1 rest) : Steady s (.tx m :: rest)

/-- **Along any steady history both reported rates only rise** — so the coin value
    `⌊balance × rate⌋` of a passive holder of either token never shrinks. -/
theorem C04_steady_history (s : Sys) (l : List Step) (hst : Steady s l)
    (c : ChainOK s) (hbk : s.hub.bBond + s.hub.sBond ≤ totalDelegated s)
    (btok : s.hub.bsei = some bseiA) (stok : s.hub.stsei = some stseiA)
    (bwf : s.bsei.WF) (swf : s.stsei.WF) (bhub : s.bsei.hub = hubA) (shub : s.stsei.hub = hubA)
    (rb rs : Nat) (h0 : reportedRates s = .ok (rb, rs)) :
    ∃ rb' rs', reportedRates (s.steps l) = .ok (rb', rs') ∧ rb ≤ rb' ∧ rs ≤ rs' ∧
      ∀ bal, mulDec bal rb ≤ mulDec bal rb' ∧ mulDec bal rs ≤ mulDec bal rs' := by
  induction hst generalizing rb rs with
  | nil s => exact ⟨rb, rs, h0, Nat.le_refl _, Nat.le_refl _, fun _ => ⟨Nat.le_refl _, Nat.le_refl _⟩⟩
  | env s e rest hns hne _ ih =>
    have one : ∀ st ∈ [Step.env e], NoSlash st := by
      intro st hm; simp only [List.mem_singleton] at hm; subst hm
      cases e with
      | slash v n d => exact absurd rfl (hns v n d)
      | _ => trivial
    have bk := C02_reachable s [.env e] c hbk one
    have tk := tokens_registered_reachable s [.env e] btok stok
    have wf := C18_reachable s [.env e] bwf swf
    exact ih bk.2 bk.1 tk.1 tk.2 wf.1 wf.2.1 (wf.2.2.1.trans bhub) (wf.2.2.2.1.trans shub) rb rs
      (by rw [env_keeps_rates s e hns hne]; exact h0)
  | tx s m rest hstk hmint hsnd hb0 backB backS hq hcb hcs _ ih =>
    obtain ⟨⟨r1, r2⟩, hq⟩ := hq
    have k := C04_tx_never_lowers_rates s m hstk hmint hsnd c hbk hb0 btok stok bwf swf bhub shub backB backS
      rb rs r1 r2 h0 hq
    have hb1 : rb ≤ r1 := by rcases k.1 with h | h; exact absurd h hcb; exact h
    have hs1 : rs ≤ r2 := by rcases k.2 with h | h; exact absurd h hcs; exact h
    have one : ∀ st ∈ [Step.tx m], NoSlash st := by
      intro st hm; simp only [List.mem_singleton] at hm; subst hm; exact hstk
    have bk := C02_reachable s [.tx m] c hbk one
    have tk := tokens_registered_reachable s [.tx m] btok stok
    have wf := C18_reachable s [.tx m] bwf swf
    obtain ⟨rb', rs', h1, h2, h3, _⟩ := ih bk.2 bk.1 tk.1 tk.2 wf.1 wf.2.1 (wf.2.2.1.trans bhub)
      (wf.2.2.2.1.trans shub) r1 r2 hq
    refine ⟨rb', rs', h1, Nat.le_trans hb1 h2, Nat.le_trans hs1 h3, fun bal => ?_⟩
    exact ⟨C04_passive_value_mono _ _ _ (Nat.le_trans hb1 h2), C04_passive_value_mono _ _ _ (Nat.le_trans hs1 h3)⟩

/-! ### Every minting / redeeming entry point, with a slash still unrecognised

  Bond, BondForStSei and the two token hooks (unbond, convert — either token) each begin with the
  hub's own slashing check. Whatever that check recognises, the handler prices with the pools it
  produces — the pools the State query *already reported* before the call. So, slash pending or
  not, measured against the rates reported before the call: once the mints and burns the handler
  emits have executed, neither rate is lower (or the token has no claims left). -/

theorem C04_pricing_entry_any_state (h h' : HubSt) (e : HubEnv) (sender : Addr) (funds : List (Denom × Nat))
    (m : HubMsg) (ms : List Msg) (hx : hubExec h e sender funds m = .ok (h', ms))
    (htr : Trg (.wasm sender hubA (.hub m) funds) = true)
    (hself : e.self = hubA) (hb : h.bsei = some bseiA) (hs : h.stsei = some stseiA)
    (bs ss : Nat) (hbs : e.supplyOf bseiA = .ok bs) (hss : e.supplyOf stseiA = .ok ss)
    (st0 : HubSt) (hst0 : h.actualState e = .ok st0)
    (hd : e.delegations ≠ []) (hz : h.bBond + h.sBond ≠ 0)
    (backB : Backed st0.bBond bs h.reqB) (backS : Backed st0.sBond ss h.reqS) :
    -- the reported rates before the call: st0's
    st0.bRate = rateOf st0.bBond bs h.reqB ∧ st0.sRate = rateOf st0.sBond ss h.reqS ∧
    -- ... and for every supply the emitted mints and burns lead to
    (∀ S', S' + burnsBy bseiA ms = bs + mintsTo bseiA ms →
        S' + h'.reqB = 0 ∨ st0.bRate ≤ rateOf h'.bBond S' h'.reqB) ∧
    (∀ S', S' + burnsBy stseiA ms = ss + mintsTo stseiA ms →
        S' + h'.reqS = 0 ∨ st0.sRate ≤ rateOf h'.sBond S' h'.reqS) := by
  have f := checked_state h st0 e hst0 st0 hst0 hb hs bs ss hbs hss hd hz
  have trb : TR (rateOf st0.bBond bs h.reqB) st0.bBond bs h.reqB 0 0 := by
    unfold TR; simpa using rateOf_mul_le st0.bBond bs h.reqB backB
  have trs : TR (rateOf st0.sBond ss h.reqS) st0.sBond ss h.reqS 0 0 := by
    unfold TR; simpa using rateOf_mul_le st0.sBond ss h.reqS backS
  have fl := hub_flowG h h' e sender funds m ms hx htr hself hb hs bs ss hbs hss st0 hst0 hd hz trb trs
  have key : ∀ (r B S R M U S' : Nat), TR r B S R M U → S' + U = S + M → S' + R = 0 ∨ r ≤ rateOf B S' R := by
    intro r B S R M U S' tr hS
    by_cases hr : r = 0
    · right; rw [hr]; exact Nat.zero_le _
    · apply C04_rate_after _ _ _ _ (Nat.pos_of_ne_zero hr)
      unfold TR at tr
      rw [← hS, show S' + U + R = (S' + R) + U by omega, Nat.mul_add] at tr
      omega
  refine ⟨f.2.2.2.2.1, f.2.2.2.2.2.1, fun S' hS => ?_, fun S' hS => ?_⟩
  · rw [f.2.2.2.2.1]; exact key _ _ _ _ _ _ S' fl.1 hS
  · rw [f.2.2.2.2.2.1]; exact key _ _ _ _ _ _ S' fl.2 hS

/-! Non-vacuity of `C04_pricing_entry_any_state`: a Bond arriving while a slash of one half is still
    unrecognised (books 6 + 4, delegated 5) is accepted; the hypotheses are met with `st0` = pools 3 + 2. -/
example : ∃ r, hubExec { (default : HubSt) with bBond := 6, sBond := 4, thr := 1000000000000000000, bRate := 1000000000000000000, sRate := 1000000000000000000, bsei := some bseiA, stsei := some stseiA, dispatcher := some dispA, registry := some regA }
    { self := hubA, now := 0, hubBalance := 0, delegations := [(201, 5)], supplyOf := fun _ => .ok 5, validatorsOf := fun _ => .ok [(201, 5)] } 5 [(0, 100)] .bond = .ok r := ⟨_, rfl⟩

/-! ### A Bond arriving while a slash is still unrecognised — the whole transaction

  The composed theorem above starts from a state with no slash pending. This one starts from *any*
  state: a Bond or BondForStSei is the first message of the transaction, its handler recognises
  whatever slash is pending and prices with the pools the State query already reported, and from
  there on the invariant of the composed theorem takes over (relative to those reported pools). So
  a bond by anyone, slash pending or not, leaves neither *reported* rate lower. -/

private theorem actualState_env_congr (h : HubSt) (e e' : HubEnv) (hd : e.delegations = e'.delegations)
    (hs : e.supplyOf = e'.supplyOf) : h.actualState e = h.actualState e' := by
  unfold actualState bSupplyQ sSupplyQ
  rw [hd, hs]

theorem C04_bond_tx_any_state (s s' : Sys) (sender : Addr) (funds : List (Denom × Nat)) (hm : HubMsg)
    (hp : hm = .bond ∨ hm = .bondForStSei) (c : ChainOK s)
    (btok : s.hub.bsei = some bseiA) (stok : s.hub.stsei = some stseiA)
    (bwf : s.bsei.WF) (swf : s.stsei.WF) (bhub : s.bsei.hub = hubA) (shub : s.stsei.hub = hubA)
    (hd : s.delegationsOf hubA ≠ []) (hz : s.hub.bBond + s.hub.sBond ≠ 0)
    (st0 : HubSt) (hst0 : s.hub.actualState s.hubEnv = .ok st0)
    (hz0 : st0.bBond + st0.sBond ≠ 0)
    (backB : Backed st0.bBond s.bsei.supply s.hub.reqB) (backS : Backed st0.sBond s.stsei.supply s.hub.reqS)
    (hx : Sys.run 400 s [.wasm sender hubA (.hub hm) funds] = .ok s') :
    (s'.bsei.supply + s'.hub.reqB = 0 ∨ st0.bRate ≤ rateOf s'.hub.bBond s'.bsei.supply s'.hub.reqB) ∧
    (s'.stsei.supply + s'.hub.reqS = 0 ∨ st0.sRate ≤ rateOf s'.hub.sBond s'.stsei.supply s'.hub.reqS) ∧
    s'.hub.bBond + s'.hub.sBond ≤ totalDelegated s' := by
  simp only [Sys.run] at hx
  split at hx
  · cases hx
  · rename_i s1' subs h1
    have ch := handle_wasm_chain s s1' _ _ _ _ subs h1
    cases handle_touch s s1' _ subs h1 with
    | none h hm' _ _ =>
      rcases hm' with hm' | ⟨a, b, c', d, heq, ht⟩
      · exact absurd rfl (hm' _ _ _ _)
      · injection heq with _ e2 _ _
        rcases ht with ht | ht <;> (rw [ht] at e2; cases e2)
    | hub s1 sender' funds' hm' heq h1' _ hc hx' bb t r dd g =>
      injection heq with e1 _ e3 e4
      injection e3 with e3
      subst e1; subst e3; subst e4
      have c1 : ChainOK s1 := ⟨fun w hw => by rw [hc.1]; exact c.outside w hw,
        fun w hw => by rw [hc.1]; rw [hc.2.1] at hw; exact c.unset w hw⟩
      have hT : ((s1.hubEnv.delegations).map (·.2)).sum = totalDelegated s := by
        rw [delegations_sum s1 c1]; unfold totalDelegated; rw [hc.1]
      have hdel : s1.hubEnv.delegations = s.hubEnv.delegations := by
        show s1.delegationsOf hubA = s.delegationsOf hubA
        unfold Sys.delegationsOf; rw [hc.1, hc.2.1]
      have hsup : s1.hubEnv.supplyOf = s.hubEnv.supplyOf := by
        funext a
        show s1.supplyOf a = s.supplyOf a
        unfold Sys.supplyOf; rw [h1'.bsei, h1'.stsei]
      have hst1 : s.hub.actualState s1.hubEnv = .ok st0 := by
        rw [actualState_env_congr s.hub s1.hubEnv s.hubEnv hdel hsup]; exact hst0
      have hd1 : s1.hubEnv.delegations ≠ [] := by rw [hdel]; exact hd
      have hbs : s1.hubEnv.supplyOf bseiA = .ok s.bsei.supply := by
        show s1.supplyOf bseiA = _
        unfold Sys.supplyOf; rw [if_pos rfl, h1'.bsei]
      have hss : s1.hubEnv.supplyOf stseiA = .ok s.stsei.supply := by
        show s1.supplyOf stseiA = _
        unfold Sys.supplyOf; rw [if_neg (by decide), if_pos rfl, h1'.stsei]
      -- the virtual start: the state a CheckSlashing would have left
      let sV : Sys := { s with hub := st0 }
      have sb := (actualState_spec s.hub st0 s1.hubEnv hst1).1
      have f := checked_state s.hub st0 s1.hubEnv hst1 st0 hst1 btok stok _ _ hbs hss hd1 hz
      have rbV : rb0 sV = rateOf st0.bBond s.bsei.supply s.hub.reqB := by
        show rateOf st0.bBond s.bsei.supply st0.reqB = _; rw [sb.reqB]
      have rsV : rs0 sV = rateOf st0.sBond s.stsei.supply s.hub.reqS := by
        show rateOf st0.sBond s.stsei.supply st0.reqS = _; rw [sb.reqS]
      have trb : TR (rateOf st0.bBond s.bsei.supply s.hub.reqB) st0.bBond s.bsei.supply s.hub.reqB 0 0 := by
        unfold TR; simpa using rateOf_mul_le st0.bBond s.bsei.supply s.hub.reqB backB
      have trs : TR (rateOf st0.sBond s.stsei.supply s.hub.reqS) st0.sBond s.stsei.supply s.hub.reqS 0 0 := by
        unfold TR; simpa using rateOf_mul_le st0.sBond s.stsei.supply s.hub.reqS backS
      have htr : Trg (.wasm sender hubA (.hub hm) funds) = true := by
        rcases hp with hp | hp <;> subst hp <;> rfl
      have fl := hub_flowG s.hub s1'.hub s1.hubEnv sender funds hm subs hx' htr rfl btok stok _ _ hbs hss
        st0 hst1 hd1 hz trb trs
      have act : st0.bBond + st0.sBond ≤ totalDelegated s := by
        have := C02_books_le_delegated s.hub st0 s1.hubEnv hst1 (Or.inl hd1)
        rw [hT] at this; exact this
      have cok : ChainOK s1' := ⟨fun w hw => by rw [ch.1]; exact c.outside w hw,
        fun w hw => by rw [ch.1]; rw [ch.2] at hw; exact c.unset w hw⟩
      have tot : totalDelegated s1' = totalDelegated s := by unfold totalDelegated; rw [ch.1]
      have book : BookInv s1' (subs ++ []) := by
        refine ⟨cok, ?_⟩
        rw [tot]
        rcases hp with hp | hp <;> subst hp
        · simp only [hubExec] at hx'; split at hx'
          · cases hx'
          · obtain ⟨p, st, mint, dl, tok, _, hst, _, _, hdl, _, hh, hms⟩ := bondB_spec _ _ _ _ _ _ hx'
            have est : st = st0 := by rw [hst1] at hst; injection hst with h1; exact h1.symm
            have ds := delegs_stake s.hub s1.hubEnv p dl rfl hdl
            refine ⟨dl, [tokMsg s1.hubEnv.self tok (.mint sender mint)] ++ [], by rw [hms]; simp, ds.1,
              (by intro y hy; simp at hy; subst hy; rfl), ?_⟩
            rw [hh, ds.2.1, ds.2.2, est]; simp only []; omega
        · simp only [hubExec] at hx'; split at hx'
          · cases hx'
          · obtain ⟨p, st, dl, tok, _, hst, _, hdl, _, hh, hms⟩ := bondS_spec _ _ _ _ _ _ hx'
            have est : st = st0 := by rw [hst1] at hst; injection hst with h1; exact h1.symm
            have ds := delegs_stake s.hub s1.hubEnv p dl rfl hdl
            refine ⟨dl, [tokMsg s1.hubEnv.self tok (.mint sender (decDiv p st.sRate))] ++ [], by rw [hms]; simp, ds.1,
              (by intro y hy; simp at hy; subst hy; rfl), ?_⟩
            rw [hh, ds.2.1, ds.2.2, est]; simp only []; omega
      obtain ⟨a1, a2, a3, a4, a5, a6⟩ := static_step s s1' _ subs h1 btok stok bwf swf bhub shub
      have inv1 : RInv sV s1' (subs ++ []) := by
        refine ⟨book, a1, a2, a3, a4, a5, a6, ?_, ?_, Or.inr ?_⟩
        · rw [rbV, bb, List.append_nil]; exact fl.1
        · rw [rsV, t, List.append_nil]; exact fl.2
        · rw [List.append_nil]; exact hubExec_noTrg _ _ _ _ _ _ _ hx'
      have fin := run_inv2 (RInv sV) (fun a b r a' sb' h hx'' => RInv.step sV a a' b r sb' hz0 h hx'') 399 s1' _ s' inv1 hx
      have tb := fin.trb
      have ts := fin.trs
      unfold TR at tb ts
      simp only [mintsTo, burnsBy, Nat.add_zero, Nat.mul_zero] at tb ts
      rw [rbV, ← f.2.2.2.2.1] at tb
      rw [rsV, ← f.2.2.2.2.2.1] at ts
      refine ⟨?_, ?_, fin.book.drained⟩
      · by_cases hr : st0.bRate = 0
        · right; rw [hr]; exact Nat.zero_le _
        · exact C04_rate_after _ _ _ _ (Nat.pos_of_ne_zero hr) tb
      · by_cases hr : st0.sRate = 0
        · right; rw [hr]; exact Nat.zero_le _
        · exact C04_rate_after _ _ _ _ (Nat.pos_of_ne_zero hr) ts
    | bsei s1 sender' funds' tm heq _ _ _ _ _ _ _ => injection heq with _ e2 _ _; cases e2
    | stsei blk sender' funds' tm heq _ _ _ _ _ _ => injection heq with _ e2 _ _; cases e2
    | reward s1 sender' funds' rm heq _ _ _ _ _ _ _ _ _ => injection heq with _ e2 _ _; cases e2
    | disp env sender' funds' dm heq _ _ _ _ _ _ _ _ => injection heq with _ e2 _ _; cases e2
    | reg s1 sender' funds' rm heq _ _ _ _ _ _ _ _ _ => injection heq with _ e2 _ _; cases e2

/-! ### Unbond and convert arriving while a slash is still unrecognised — the whole transaction

  An unbond or convert is a token `Send` (or `SendFrom`) to the hub: the token moves the balance,
  tells the reward contract (bSei), and calls the hub's hook. Until the hook runs, everything handled
  is still: pools, requests, supplies and delegations are those of the start, so the hook's own
  slashing check produces the pools the State query reported at the start (`Lemmas/RatePending`:
  `PInv`, `trigger_establishes`, `pending_step`). From there the invariant of the composed theorem
  takes over. So, slash pending or not, no unbond or convert — of either token, by anyone — leaves a
  *reported* rate lower. -/

private theorem reported_conclusion (st0 : HubSt) (s' : Sys)
    (h : st0.bRate * (s'.bsei.supply + s'.hub.reqB) ≤ s'.hub.bBond * D ∧
      st0.sRate * (s'.stsei.supply + s'.hub.reqS) ≤ s'.hub.sBond * D ∧
      s'.hub.bBond + s'.hub.sBond ≤ totalDelegated s' ∧
      s'.hub.bsei = some bseiA ∧ s'.hub.stsei = some stseiA ∧ ChainOK s') :
    (s'.bsei.supply + s'.hub.reqB = 0 ∨ st0.bRate ≤ rateOf s'.hub.bBond s'.bsei.supply s'.hub.reqB) ∧
    (s'.stsei.supply + s'.hub.reqS = 0 ∨ st0.sRate ≤ rateOf s'.hub.sBond s'.stsei.supply s'.hub.reqS) ∧
    s'.hub.bBond + s'.hub.sBond ≤ totalDelegated s' := by
  refine ⟨?_, ?_, h.2.2.1⟩
  · by_cases hr : st0.bRate = 0
    · right; rw [hr]; exact Nat.zero_le _
    · exact C04_rate_after _ _ _ _ (Nat.pos_of_ne_zero hr) h.1
  · by_cases hr : st0.sRate = 0
    · right; rw [hr]; exact Nat.zero_le _
    · exact C04_rate_after _ _ _ _ (Nat.pos_of_ne_zero hr) h.2.1

/-- every minting / redeeming hub entry point as the top-level message (Bond, BondForStSei, and the
    hook itself when a token is the sender), from any state -/
theorem C04_trigger_tx_any_state (s s' : Sys) (sender : Addr) (funds : List (Denom × Nat)) (hm : HubMsg)
    (hp : IsTrigHub hm) (c : ChainOK s)
    (btok : s.hub.bsei = some bseiA) (stok : s.hub.stsei = some stseiA)
    (bwf : s.bsei.WF) (swf : s.stsei.WF) (bhub : s.bsei.hub = hubA) (shub : s.stsei.hub = hubA)
    (hd : s.delegationsOf hubA ≠ []) (hz : s.hub.bBond + s.hub.sBond ≠ 0)
    (st0 : HubSt) (hst0 : s.hub.actualState s.hubEnv = .ok st0)
    (hz0 : st0.bBond + st0.sBond ≠ 0)
    (backB : Backed st0.bBond s.bsei.supply s.hub.reqB) (backS : Backed st0.sBond s.stsei.supply s.hub.reqS)
    (hx : Sys.run 400 s [.wasm sender hubA (.hub hm) funds] = .ok s') :
    (s'.bsei.supply + s'.hub.reqB = 0 ∨ st0.bRate ≤ rateOf s'.hub.bBond s'.bsei.supply s'.hub.reqB) ∧
    (s'.stsei.supply + s'.hub.reqS = 0 ∨ st0.sRate ≤ rateOf s'.hub.sBond s'.stsei.supply s'.hub.reqS) ∧
    s'.hub.bBond + s'.hub.sBond ≤ totalDelegated s' := by
  have inv : PInv s s [.wasm sender hubA (.hub hm) funds] :=
    ⟨c, SamePools.refl s, btok, stok, bwf, swf, bhub, shub, [], sender, hm, funds, rfl, AllStill.nil, hp⟩
  exact reported_conclusion st0 s' (pending_run s st0 c hst0 btok stok hd hz hz0 backB backS 400 s _ s' inv hx)

/-- **unbond and convert of either token, from any state** -/
theorem C04_unbond_convert_tx_any_state (s s' : Sys) (sender tokA : Addr) (funds : List (Denom × Nat)) (tm : TokMsg)
    (htok : tokA = bseiA ∨ tokA = stseiA) (hsend : sendsToHub hubA tm = true) (c : ChainOK s)
    (btok : s.hub.bsei = some bseiA) (stok : s.hub.stsei = some stseiA)
    (bwf : s.bsei.WF) (swf : s.stsei.WF) (bhub : s.bsei.hub = hubA) (shub : s.stsei.hub = hubA)
    (hd : s.delegationsOf hubA ≠ []) (hz : s.hub.bBond + s.hub.sBond ≠ 0)
    (st0 : HubSt) (hst0 : s.hub.actualState s.hubEnv = .ok st0)
    (hz0 : st0.bBond + st0.sBond ≠ 0)
    (backB : Backed st0.bBond s.bsei.supply s.hub.reqB) (backS : Backed st0.sBond s.stsei.supply s.hub.reqS)
    (hx : Sys.run 400 s [.wasm sender tokA (.tok tm) funds] = .ok s') :
    (s'.bsei.supply + s'.hub.reqB = 0 ∨ st0.bRate ≤ rateOf s'.hub.bBond s'.bsei.supply s'.hub.reqB) ∧
    (s'.stsei.supply + s'.hub.reqS = 0 ∨ st0.sRate ≤ rateOf s'.hub.sBond s'.stsei.supply s'.hub.reqS) ∧
    s'.hub.bBond + s'.hub.sBond ≤ totalDelegated s' := by
  simp only [Sys.run] at hx
  split at hx
  · cases hx
  · rename_i s1 subs h1
    have ch := handle_wasm_chain s s1 _ _ _ _ subs h1
    obtain ⟨a1, a2, a3, a4, a5, a6⟩ := static_step s s1 _ subs h1 btok stok bwf swf bhub shub
    have cok : ChainOK s1 := ⟨fun w hw => by rw [ch.1]; exact c.outside w hw,
      fun w hw => by rw [ch.1]; rw [ch.2] at hw; exact c.unset w hw⟩
    have fin : ∀ (pre : List Msg) (u : Addr) (a : Nat) (k : Hook) (tk : Addr), SamePools s s1 →
        subs = pre ++ [Msg.wasm tk hubA (.hub (.receive u a k)) []] → AllStill pre →
        ((s'.bsei.supply + s'.hub.reqB = 0 ∨ st0.bRate ≤ rateOf s'.hub.bBond s'.bsei.supply s'.hub.reqB) ∧
         (s'.stsei.supply + s'.hub.reqS = 0 ∨ st0.sRate ≤ rateOf s'.hub.sBond s'.stsei.supply s'.hub.reqS) ∧
         s'.hub.bBond + s'.hub.sBond ≤ totalDelegated s') := by
      intro pre u a k tk sp hsub hpre
      have inv : PInv s s1 (subs ++ []) :=
        ⟨cok, sp, a1, a2, a3, a4, a5, a6, pre, tk, .receive u a k, [], by rw [hsub]; simp, hpre, Or.inr (Or.inr ⟨u, a, k, rfl⟩)⟩
      exact reported_conclusion st0 s' (pending_run s st0 c hst0 btok stok hd hz hz0 backB backS 399 s1 _ s' inv hx)
    cases handle_touch s s1 _ subs h1 with
    | none h hm' _ _ =>
      rcases hm' with hm' | ⟨a, b, c', d, heq, ht⟩
      · exact absurd rfl (hm' _ _ _ _)
      · injection heq with _ e2 _ _
        rcases ht with ht | ht <;> rcases htok with r | r <;> (rw [ht, r] at e2; cases e2)
    | hub s2 sender' funds' hm' heq _ _ _ _ _ _ _ _ _ => injection heq with _ _ e3 _; cases e3
    | bsei s2 sender' funds' tm' heq h1' hx' h t r dd g =>
      injection heq with e1 e2 e3 e4
      injection e3 with e3
      subst e1; subst e3; subst e4
      obtain ⟨pre, u, a, k, hsub, hpre⟩ := bsei_send_hook _ _ _ _ _ _ _ hsend hx'
      have st := C18_bsei_step _ _ _ _ _ _ _ _ _ bwf hx'
      have hsup := send_supply _ _ _ _ _ bwf hsend st.1
      exact fin pre u a k bseiA ⟨by rw [h], by rw [h], by rw [h], by rw [h], by rw [h], by rw [h], by rw [h], by rw [h],
        hsup, by rw [t], ch.1, ch.2⟩ hsub hpre
    | stsei blk sender' funds' tm' heq hx' h b r dd g =>
      injection heq with e1 e2 e3 e4
      injection e3 with e3
      subst e1; subst e3; subst e4
      obtain ⟨pre, u, a, k, hsub, hpre⟩ := stsei_send_hook _ _ _ _ _ _ hsend hx'
      have st := C18_stsei_step _ _ _ _ _ _ _ _ swf hx'
      have hsup := send_supply _ _ _ _ _ swf hsend st.1
      exact fin pre u a k stseiA ⟨by rw [h], by rw [h], by rw [h], by rw [h], by rw [h], by rw [h], by rw [h], by rw [h],
        by rw [b], hsup, ch.1, ch.2⟩ hsub hpre
    | reward s2 sender' funds' rm heq _ _ _ _ _ _ _ _ _ => injection heq with _ _ e3 _; cases e3
    | disp env sender' funds' dm heq _ _ _ _ _ _ _ _ => injection heq with _ _ e3 _; cases e3
    | reg s2 sender' funds' rm heq _ _ _ _ _ _ _ _ _ => injection heq with _ _ e3 _; cases e3

/-- the user operations that price: a minting / redeeming hub entry point sent directly, or a token
    `Send` / `SendFrom` to the hub (unbond, convert) -/
def PricingOp (m : Msg) : Prop :=
  (∃ sender hm funds, m = .wasm sender hubA (.hub hm) funds ∧ IsTrigHub hm) ∨
  (∃ sender tokA tm funds, m = .wasm sender tokA (.tok tm) funds ∧ (tokA = bseiA ∨ tokA = stseiA) ∧
      sendsToHub hubA tm = true)

/-- **No pricing operation lowers a reported rate — from any state.** Whatever the State query
    reports before the transaction `(rb, rs)` — with a slash still unrecognised in the books or not
    — and after it `(rb', rs')`, whether the transaction succeeded or not: for each token the rate
    did not fall, unless the token ends the transaction without any claims. (Premises: delegations
    exist, stake is booked and still backed after the pending slash, tokens registered, ledgers
    well-formed.) -/
theorem C04_pricing_op_never_lowers_rates_any_state (s : Sys) (m : Msg) (hop : PricingOp m)
    (c : ChainOK s)
    (btok : s.hub.bsei = some bseiA) (stok : s.hub.stsei = some stseiA)
    (bwf : s.bsei.WF) (swf : s.stsei.WF) (bhub : s.bsei.hub = hubA) (shub : s.stsei.hub = hubA)
    (hd : s.delegationsOf hubA ≠ []) (hz : s.hub.bBond + s.hub.sBond ≠ 0)
    (st0 : HubSt) (hst0 : s.hub.actualState s.hubEnv = .ok st0)
    (hz0 : st0.bBond + st0.sBond ≠ 0)
    (backB : Backed st0.bBond s.bsei.supply s.hub.reqB) (backS : Backed st0.sBond s.stsei.supply s.hub.reqS)
    (rb' rs' : Nat) (h1 : reportedRates (s.exec m).1 = .ok (rb', rs')) :
    reportedRates s = .ok (st0.bRate, st0.sRate) ∧
    ((s.exec m).1.bsei.supply + (s.exec m).1.hub.reqB = 0 ∨ st0.bRate ≤ rb') ∧
    ((s.exec m).1.stsei.supply + (s.exec m).1.hub.reqS = 0 ∨ st0.sRate ≤ rs') := by
  have h0 : reportedRates s = .ok (st0.bRate, st0.sRate) := by unfold reportedRates; rw [hst0]
  refine ⟨h0, ?_⟩
  unfold Sys.exec at h1 ⊢
  split at h1
  · rename_i s' hrun
    simp only [] at h1 ⊢
    have key : st0.bRate * (s'.bsei.supply + s'.hub.reqB) ≤ s'.hub.bBond * D ∧
        st0.sRate * (s'.stsei.supply + s'.hub.reqS) ≤ s'.hub.sBond * D ∧
        s'.hub.bBond + s'.hub.sBond ≤ totalDelegated s' ∧
        s'.hub.bsei = some bseiA ∧ s'.hub.stsei = some stseiA ∧ ChainOK s' := by
      rcases hop with ⟨sender, hm, funds, rfl, ht⟩ | ⟨sender, tokA, tm, funds, rfl, htok, hsend⟩
      · have inv : PInv s s [.wasm sender hubA (.hub hm) funds] :=
          ⟨c, SamePools.refl s, btok, stok, bwf, swf, bhub, shub, [], sender, hm, funds, rfl, AllStill.nil, ht⟩
        exact pending_run s st0 c hst0 btok stok hd hz hz0 backB backS 400 s _ s' inv hrun
      · simp only [Sys.run] at hrun
        split at hrun
        · cases hrun
        · rename_i s1 subs hh
          have ch := handle_wasm_chain s s1 _ _ _ _ subs hh
          obtain ⟨a1, a2, a3, a4, a5, a6⟩ := static_step s s1 _ subs hh btok stok bwf swf bhub shub
          have cok : ChainOK s1 := ⟨fun w hw => by rw [ch.1]; exact c.outside w hw,
            fun w hw => by rw [ch.1]; rw [ch.2] at hw; exact c.unset w hw⟩
          have fin : ∀ (pre : List Msg) (u : Addr) (a : Nat) (k : Hook) (tk : Addr), SamePools s s1 →
              subs = pre ++ [Msg.wasm tk hubA (.hub (.receive u a k)) []] → AllStill pre →
              (st0.bRate * (s'.bsei.supply + s'.hub.reqB) ≤ s'.hub.bBond * D ∧
               st0.sRate * (s'.stsei.supply + s'.hub.reqS) ≤ s'.hub.sBond * D ∧
               s'.hub.bBond + s'.hub.sBond ≤ totalDelegated s' ∧
               s'.hub.bsei = some bseiA ∧ s'.hub.stsei = some stseiA ∧ ChainOK s') := by
            intro pre u a k tk sp hsub hpre
            have inv : PInv s s1 (subs ++ []) :=
              ⟨cok, sp, a1, a2, a3, a4, a5, a6, pre, tk, .receive u a k, [], by rw [hsub]; simp, hpre,
                Or.inr (Or.inr ⟨u, a, k, rfl⟩)⟩
            exact pending_run s st0 c hst0 btok stok hd hz hz0 backB backS 399 s1 _ s' inv hrun
          cases handle_touch s s1 _ subs hh with
          | none h hm' _ _ =>
            rcases hm' with hm' | ⟨a, b, c', d, heq, ht⟩
            · exact absurd rfl (hm' _ _ _ _)
            · injection heq with _ e2 _ _
              rcases ht with ht | ht <;> rcases htok with r | r <;> (rw [ht, r] at e2; cases e2)
          | hub s2 sender' funds' hm' heq _ _ _ _ _ _ _ _ _ => injection heq with _ _ e3 _; cases e3
          | bsei s2 sender' funds' tm' heq h1' hx' h t r dd g =>
            injection heq with e1 e2 e3 e4
            injection e3 with e3
            subst e1; subst e3; subst e4
            obtain ⟨pre, u, a, k, hsub, hpre⟩ := bsei_send_hook _ _ _ _ _ _ _ hsend hx'
            have st := C18_bsei_step _ _ _ _ _ _ _ _ _ bwf hx'
            have hsup := send_supply _ _ _ _ _ bwf hsend st.1
            exact fin pre u a k bseiA ⟨by rw [h], by rw [h], by rw [h], by rw [h], by rw [h], by rw [h], by rw [h], by rw [h],
              hsup, by rw [t], ch.1, ch.2⟩ hsub hpre
          | stsei blk sender' funds' tm' heq hx' h b r dd g =>
            injection heq with e1 e2 e3 e4
            injection e3 with e3
            subst e1; subst e3; subst e4
            obtain ⟨pre, u, a, k, hsub, hpre⟩ := stsei_send_hook _ _ _ _ _ _ hsend hx'
            have st := C18_stsei_step _ _ _ _ _ _ _ _ swf hx'
            have hsup := send_supply _ _ _ _ _ swf hsend st.1
            exact fin pre u a k stseiA ⟨by rw [h], by rw [h], by rw [h], by rw [h], by rw [h], by rw [h], by rw [h], by rw [h],
              by rw [b], hsup, ch.1, ch.2⟩ hsub hpre
          | reward s2 sender' funds' rm heq _ _ _ _ _ _ _ _ _ => injection heq with _ _ e3 _; cases e3
          | disp env sender' funds' dm heq _ _ _ _ _ _ _ _ => injection heq with _ _ e3 _; cases e3
          | reg s2 sender' funds' rm heq _ _ _ _ _ _ _ _ _ => injection heq with _ _ e3 _; cases e3
    obtain ⟨k4, k5, k3, k6, k7, k8⟩ := key
    have concl := reported_conclusion st0 s' ⟨k4, k5, k3, k6, k7, k8⟩
    have r1 := reportedRates_noslash s' k8 k3 k6 k7 rb' rs' h1
    by_cases hzz : s'.hub.bBond + s'.hub.sBond = 0
    · have hB : s'.hub.bBond = 0 := by omega
      have hS : s'.hub.sBond = 0 := by omega
      rw [hB] at k4; rw [hS] at k5
      simp only [Nat.zero_mul, Nat.le_zero_eq, Nat.mul_eq_zero] at k4 k5
      constructor
      · rcases k4 with h | h
        · right; rw [h]; exact Nat.zero_le _
        · left; exact h
      · rcases k5 with h | h
        · right; rw [h]; exact Nat.zero_le _
        · left; exact h
    · have e := r1.1 hzz
      rw [e.1, e.2]
      exact ⟨concl.1, concl.2.1⟩
  · rename_i e hrun
    simp only [] at h1 ⊢
    rw [h0] at h1
    injection h1 with h1; injection h1 with e1 e2
    subst e1; subst e2
    exact ⟨Or.inr (Nat.le_refl _), Or.inr (Nat.le_refl _)⟩

/-! ### Index updates arriving while a slash is still unrecognised

  UpdateGlobalIndex, the dispatcher's DispatchRewards, BondRewards, the registry's RemoveValidator and
  Redelegations with the hub's RedelegateProxy and the Redelegate messages — and every still message —
  as the top-level message, from any state (`Lemmas/RatePending`, second pending mode `PInvB`): until
  BondRewards runs, nothing that prices moves; if it never runs (no stSei-side rewards) the State
  query answers afterwards exactly what it answered before; if it runs it recognises the slash,
  prices with the pools the query had already reported, and only adds to the stSei pool. -/

theorem C04_index_update_never_lowers_rates_any_state (s : Sys) (m : Msg) (hop : PendQ m = true)
    (c : ChainOK s)
    (btok : s.hub.bsei = some bseiA) (stok : s.hub.stsei = some stseiA)
    (bwf : s.bsei.WF) (swf : s.stsei.WF) (bhub : s.bsei.hub = hubA) (shub : s.stsei.hub = hubA)
    (hd : s.delegationsOf hubA ≠ []) (hz : s.hub.bBond + s.hub.sBond ≠ 0)
    (st0 : HubSt) (hst0 : s.hub.actualState s.hubEnv = .ok st0)
    (hz0 : st0.bBond + st0.sBond ≠ 0)
    (backB : Backed st0.bBond s.bsei.supply s.hub.reqB) (backS : Backed st0.sBond s.stsei.supply s.hub.reqS)
    (rb' rs' : Nat) (h1 : reportedRates (s.exec m).1 = .ok (rb', rs')) :
    reportedRates s = .ok (st0.bRate, st0.sRate) ∧
    ((s.exec m).1.bsei.supply + (s.exec m).1.hub.reqB = 0 ∨ st0.bRate ≤ rb') ∧
    ((s.exec m).1.stsei.supply + (s.exec m).1.hub.reqS = 0 ∨ st0.sRate ≤ rs') := by
  have h0 : reportedRates s = .ok (st0.bRate, st0.sRate) := by unfold reportedRates; rw [hst0]
  refine ⟨h0, ?_⟩
  unfold Sys.exec at h1 ⊢
  split at h1
  · rename_i s' hrun
    simp only [] at h1 ⊢
    have inv : PInvB s s [m] :=
      ⟨c, SamePoolsW.refl s, btok, stok, bwf, swf, bhub, shub, fun x hx => by
        simp only [List.mem_singleton] at hx; subst hx; exact hop⟩
    rcases pending_runB s st0 c hst0 btok stok hd hz hz0 backB backS 400 s _ s' inv hrun with ⟨sp, ck⟩ | key
    · -- the slash is still pending and nothing that prices has moved
      have hsum : ((s'.hubEnv.delegations).map (·.2)).sum = ((s.hubEnv.delegations).map (·.2)).sum := by
        rw [delegations_sum s' ck, delegations_sum s c, sp.total]
      have hsup : s'.hubEnv.supplyOf = s.hubEnv.supplyOf := by
        funext a
        show s'.supplyOf a = s.supplyOf a
        unfold Sys.supplyOf; rw [sp.bSupply, sp.sSupply]
      obtain ⟨st', hst', _, _, q3, q4⟩ := actualState_transportW s.hub s'.hub s.hubEnv s'.hubEnv st0 hst0
        sp.bBond sp.sBond sp.reqB sp.reqS sp.btok sp.stok sp.bRate sp.sRate hsum sp.ne hsup
      unfold reportedRates at h1
      rw [hst'] at h1
      injection h1 with h1; injection h1 with e1 e2
      rw [← e1, ← e2, q3, q4]
      exact ⟨Or.inr (Nat.le_refl _), Or.inr (Nat.le_refl _)⟩
    · obtain ⟨k4, k5, k3, k6, k7, k8⟩ := key
      have concl := reported_conclusion st0 s' ⟨k4, k5, k3, k6, k7, k8⟩
      have r1 := reportedRates_noslash s' k8 k3 k6 k7 rb' rs' h1
      by_cases hzz : s'.hub.bBond + s'.hub.sBond = 0
      · have hB : s'.hub.bBond = 0 := by omega
        have hS : s'.hub.sBond = 0 := by omega
        rw [hB] at k4; rw [hS] at k5
        simp only [Nat.zero_mul, Nat.le_zero_eq, Nat.mul_eq_zero] at k4 k5
        constructor
        · rcases k4 with h | h
          · right; rw [h]; exact Nat.zero_le _
          · left; exact h
        · rcases k5 with h | h
          · right; rw [h]; exact Nat.zero_le _
          · left; exact h
      · have e := r1.1 hzz
        rw [e.1, e.2]
        exact ⟨concl.1, concl.2.1⟩
  · rename_i e hrun
    simp only [] at h1 ⊢
    rw [h0] at h1
    injection h1 with h1; injection h1 with e1 e2
    subst e1; subst e2
    exact ⟨Or.inr (Nat.le_refl _), Or.inr (Nat.le_refl _)⟩

/-- in particular a validator removal (or the follow-up Redelegations), with the redelegation of the
    removed validator's stake and the index update it triggers, from any state -/
theorem C04_validator_removal_never_lowers_rates_any_state (s : Sys) (sender v : Addr) (funds : List (Denom × Nat))
    (follow : Bool) (c : ChainOK s)
    (btok : s.hub.bsei = some bseiA) (stok : s.hub.stsei = some stseiA)
    (bwf : s.bsei.WF) (swf : s.stsei.WF) (bhub : s.bsei.hub = hubA) (shub : s.stsei.hub = hubA)
    (hd : s.delegationsOf hubA ≠ []) (hz : s.hub.bBond + s.hub.sBond ≠ 0)
    (st0 : HubSt) (hst0 : s.hub.actualState s.hubEnv = .ok st0)
    (hz0 : st0.bBond + st0.sBond ≠ 0)
    (backB : Backed st0.bBond s.bsei.supply s.hub.reqB) (backS : Backed st0.sBond s.stsei.supply s.hub.reqS)
    (rb' rs' : Nat)
    (h1 : reportedRates (s.exec (.wasm sender regA (.reg (if follow then .redelegations v else .remove v)) funds)).1 = .ok (rb', rs')) :
    ((s.exec (.wasm sender regA (.reg (if follow then .redelegations v else .remove v)) funds)).1.bsei.supply +
        (s.exec (.wasm sender regA (.reg (if follow then .redelegations v else .remove v)) funds)).1.hub.reqB = 0 ∨ st0.bRate ≤ rb') ∧
    ((s.exec (.wasm sender regA (.reg (if follow then .redelegations v else .remove v)) funds)).1.stsei.supply +
        (s.exec (.wasm sender regA (.reg (if follow then .redelegations v else .remove v)) funds)).1.hub.reqS = 0 ∨ st0.sRate ≤ rs') :=
  (C04_index_update_never_lowers_rates_any_state s _ (by cases follow <;> rfl) c btok stok bwf swf bhub shub hd hz
    st0 hst0 hz0 backB backS rb' rs' h1).2

/-! ### CheckSlashing, slash pending or not

  The State query already reports the pools as the chain's delegations define them. CheckSlashing
  stores exactly that answer, and the answer is a fixed point of the query: whoever sends a
  CheckSlashing, in any state — with a slash still unrecognised or without —, the *reported* rates
  and pools afterwards are the reported rates and pools before. -/

private theorem actualState_fix (st : HubSt) (e : HubEnv) (bs ss : Nat) (hd : e.delegations ≠ [])
    (hb : st.bSupplyQ e = .ok bs) (hs : st.sSupplyQ e = .ok ss)
    (hle : st.bBond + st.sBond ≤ (e.delegations.map (·.2)).sum)
    (hrb : st.bRate = rateOf st.bBond bs st.reqB) (hrs : st.sRate = rateOf st.sBond ss st.reqS) :
    st.actualState e = .ok st := by
  unfold actualState
  rw [if_neg hd]
  by_cases hz : st.bBond + st.sBond = 0
  · rw [if_pos hz]
  · rw [if_neg hz]
    simp only [bind, Except.bind, hb, hs]
    rw [if_neg (Nat.not_lt.mpr hle), ← hrb, ← hrs]
    cases st; rfl

theorem C04_state_query_idempotent (h st : HubSt) (e : HubEnv) (hx : h.actualState e = .ok st) :
    st.actualState e = .ok st := by
  have sp := actualState_spec h st e hx
  have sb := sp.1
  rcases sp.2 with ⟨_, rfl⟩ | ⟨bs, ss, hd, hz, hbs, hss, hrb, hrs, hp⟩
  · exact hx
  · have q1 : st.bSupplyQ e = .ok bs := by simp only [bSupplyQ, sb.bsei] at hbs ⊢; exact hbs
    have q2 : st.sSupplyQ e = .ok ss := by simp only [sSupplyQ, sb.stsei] at hss ⊢; exact hss
    refine actualState_fix st e bs ss hd q1 q2 ?_ (by rw [sb.reqB]; exact hrb) (by rw [sb.reqS]; exact hrs)
    rcases hp with ⟨hle, e1, e2⟩ | ⟨_, _, hsum⟩
    · rw [e1, e2]; exact hle
    · rw [hsum]

theorem C04_check_slashing_keeps_reported (h h' : HubSt) (e : HubEnv) (sender : Addr) (funds : List (Denom × Nat))
    (ms : List Msg) (hx : hubExec h e sender funds .checkSlashing = .ok (h', ms)) :
    h.actualState e = .ok h' ∧ h'.actualState e = .ok h' ∧ ms = [] := by
  simp only [hubExec] at hx
  split at hx
  · cases hx
  · exc_norm at hx
    split at hx
    · cases hx
    · rename_i st hst
      injection hx with hx; injection hx with e1 e2; subst e1; subst e2
      exact ⟨hst, C04_state_query_idempotent h _ e hst, rfl⟩

/-! Non-vacuity: a slash of one half is pending (books 10, delegated 5); CheckSlashing stores what the
    query reported. -/
example : ∃ st, ({ (default : HubSt) with bBond := 6, sBond := 4, bsei := some 101, stsei := some 102 }).actualState
    { self := 100, now := 0, hubBalance := 0, delegations := [(201, 5)], supplyOf := fun _ => .ok 5,
      validatorsOf := fun _ => .ok [] } = .ok st ∧ st.bBond = 3 ∧ st.sBond = 2 := ⟨_, rfl, by decide, by decide⟩

end Krp
