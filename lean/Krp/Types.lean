/-
  Types.lean — addresses, maps, messages shared by the contract models.
-/
import Krp.Prim
namespace Krp

abbrev Addr := Nat
abbrev Denom := Nat          -- 0 = staking coin (usei), 1 = bSei reward coin, 2.. = other coins

/-- point update of a total map -/
def upd {α β : Type} [DecidableEq α] (f : α → β) (k : α) (v : β) : α → β :=
  fun x => if x = k then v else f x

@[simp] theorem upd_same {α β : Type} [DecidableEq α] (f : α → β) (k : α) (v : β) :
    upd f k v k = v := by simp [upd]

@[simp] theorem upd_other {α β : Type} [DecidableEq α] (f : α → β) (k x : α) (v : β)
    (h : x ≠ k) : upd f k v x = f x := by simp [upd, h]

/-- remember a key (duplicate-free list of touched keys) -/
def addKey {α : Type} [DecidableEq α] (ks : List α) (k : α) : List α :=
  if k ∈ ks then ks else k :: ks

/-- result of a handler: `error` = `Err(..)` or panic -/
abbrev Res (α : Type) := Except String α

def Res.isOk {α : Type} : Res α → Bool
  | .ok _ => true
  | .error _ => false

/-- `checked_sub` -/
def csub (a b : Nat) (what : String := "overflow") : Res Nat :=
  if b ≤ a then .ok (a - b) else .error what

/-- `cw20::Expiration` -/
inductive Expiry where
  | atHeight (h : Nat)
  | atTime (t : Nat)      -- seconds
  | never
  deriving DecidableEq, Repr, Inhabited

/-- payload of a cw20 `Send` -/
inductive Hook where
  | unbond | convert | other
  deriving DecidableEq, Repr, Inhabited

inductive TokMsg where
  | transfer (to : Addr) (amt : Nat)
  | burn (amt : Nat)
  | send (contract : Addr) (amt : Nat) (hook : Hook)
  | mint (to : Addr) (amt : Nat)
  | incAllow (spender : Addr) (amt : Nat) (exp : Option Expiry)
  | decAllow (spender : Addr) (amt : Nat) (exp : Option Expiry)
  | transferFrom (owner to : Addr) (amt : Nat)
  | burnFrom (owner : Addr) (amt : Nat)
  | sendFrom (owner contract : Addr) (amt : Nat) (hook : Hook)
  | updateMinter (newMinter : Option Addr)      -- stSei (cw20-base 0.16) only
  | updateMarketing                              -- stSei only; never touches the ledger
  deriving DecidableEq, Repr, Inhabited

inductive HubMsg where
  | updateConfig (disp reg bsei stsei airdrop rewards updater : Option Addr)
  | updateParams (epoch unbonding fee thr : Option Nat) (paused : Option Bool) (rewardDenom : Option Denom)
  | setOwner (a : Addr)
  | acceptOwnership
  | bond | bondForStSei | bondRewards
  | updateGlobalIndex
  | withdrawUnbonded
  | checkSlashing
  | receive (cw20Sender : Addr) (amt : Nat) (hook : Hook)
  | claimAirdrop
  | swapHook
  | redelegateProxy (src : Addr) (plan : List (Addr × Nat))
  | migrateWaitList (limit : Option Nat)
  deriving DecidableEq, Repr, Inhabited

inductive RewMsg where
  | claim (recipient : Option Addr)
  | updateConfig (hub : Option Addr) (denom : Option Denom) (swap : Option Addr)
  | setOwner (a : Addr)
  | acceptOwnership
  | swapToRewardDenom
  | updateGlobalIndex
  | increase (a : Addr) (amt : Nat)
  | decrease (a : Addr) (amt : Nat)
  | updateSwapDenom (d : Denom) (add : Bool)
  deriving DecidableEq, Repr, Inhabited

inductive DispMsg where
  | swap (bseiBonded stseiBonded : Nat)
  | dispatch
  | updateConfig (hub reward : Option Addr) (stDenom bDenom : Option Denom)
      (keeper : Option Addr) (keeperRate : Option Nat)
  | setOwner (a : Addr)
  | acceptOwnership
  | updateSwapContract (a : Addr)
  | updateSwapDenom (d : Denom) (add : Bool)
  | updateOracle (a : Addr)
  deriving DecidableEq, Repr, Inhabited

inductive RegMsg where
  | add (v : Addr)
  | remove (v : Addr)
  | updateConfig (hub : Option Addr)
  | redelegations (v : Addr)
  | setOwner (a : Addr)
  | acceptOwnership
  deriving DecidableEq, Repr, Inhabited

inductive Call where
  | hub (m : HubMsg)
  | tok (m : TokMsg)
  | reward (m : RewMsg)
  | disp (m : DispMsg)
  | reg (m : RegMsg)
  | swapDenom (fromDenom : Denom) (amt : Nat) (target : Denom) (to : Option Addr)
  | receiveHook (cw20Sender : Addr) (amt : Nat) (hook : Hook)   -- Cw20ReceiveMsg to a non-hub target
  deriving DecidableEq, Repr, Inhabited

/-- messages a handler can emit (CosmosMsg) -/
inductive Msg where
  | bankSend (src dst : Addr) (denom : Denom) (amt : Nat)
  | delegate (delegator val : Addr) (amt : Nat)
  | undelegate (delegator val : Addr) (amt : Nat)
  | redelegate (delegator src dst : Addr) (amt : Nat)
  | withdrawReward (delegator val : Addr)
  | setWithdrawAddr (delegator a : Addr)
  | wasm (sender target : Addr) (call : Call) (funds : List (Denom × Nat))
  deriving DecidableEq, Repr, Inhabited

end Krp
